"""Backward provenance of pointer/string values across the call graph."""
from .ir import strip_casts, norm_callee, ExternFn
from .util import resolve_ptr, backward_slice


class Origin:
    __slots__ = ("kind", "a", "b", "site")

    def __init__(self, kind, a=None, b=None, site=None):
        self.kind, self.a, self.b, self.site = kind, a, b, site

    def key(self):
        return (self.kind, str(self.a), str(self.b))

    def __repr__(self):
        if self.kind == "outparam":
            return "out-parameter of %s" % self.a
        if self.kind == "field":
            return "field %s.%s" % (self.a, self.b)
        if self.kind == "call":
            return "result of %s" % self.a
        if self.kind == "const":
            return "constant"
        if self.kind == "entry-param":
            return "parameter %s of entry %s" % (self.b, self.a)
        if self.kind == "global":
            return "global %s" % self.a
        return "%s(%s)" % (self.kind, self.a)


def alloca_out_calls(fn, alloca):
    """calls that receive the address of this alloca (possible out-parameter writers)"""
    out = []
    for u in fn.uses.get(alloca, []):
        if u.op == "call" and any(o is alloca for o in u.ops):
            out.append(u)
        elif u.op in ("bitcast",):
            for u2 in fn.uses.get(u, []):
                if u2.op == "call":
                    out.append(u2)
    return out


CONTENT = [False]      # look through copies and freshly filled buffers to what they were filled with (opt-in: C06)


def origins(prog, v, fn, depth=0, _seen=None, through_params=True):
    """set of Origin for value v in function fn"""
    if _seen is None:
        _seen = set()
    key = (id(v), fn.qname)
    out = []
    if key in _seen or depth > 8:
        return out
    _seen.add(key)
    v = strip_casts(v)
    if v.is_const:
        if v.k == "g" or v.gname:
            out.append(Origin("const", v.gname))
        else:
            out.append(Origin("const", None))
        return out
    if v.is_arg:
        cs = prog.callers_of(fn) if through_params else []
        if not cs:
            out.append(Origin("entry-param", fn.name, v.name or v.idx))
        for c in cs:
            if v.idx < len(c.ops):
                out += origins(prog, c.ops[v.idx], c.fn, depth + 1, _seen, through_params)
        return out
    op = v.op
    if op in ("phi", "select"):
        ops = v.ops[1:] if op == "select" else v.ops
        for o in ops:
            out += origins(prog, o, fn, depth, _seen, through_params)
        return out
    if op == "getelementptr":
        # pointer into something: provenance of the base (array field inside a struct: the field)
        f = v.field()
        base = v.ops[0]
        bo = origins(prog, base, fn, depth, _seen, through_params)
        if f is not None:
            out.append(Origin("field", f[0], f[1], v))
        else:
            out += bo
        return out
    if op == "load":
        p = strip_casts(v.ops[0])
        if p.is_inst and p.op == "alloca":
            # local variable whose address escaped: who wrote it?
            writers = alloca_out_calls(fn, p)
            stores = [u for u in fn.uses.get(p, []) if u.op == "store" and strip_casts(u.ops[1]) is p]
            for s in stores:
                out += origins(prog, s.ops[0], fn, depth, _seen, through_params)
            for c in writers:
                out.append(Origin("outparam", norm_callee(c.callee) or "indirect", p, c))
            if not writers and not stores:
                out.append(Origin("uninit", None))
            return out
        if p.is_inst and p.op == "getelementptr":
            f = p.field()
            if f is not None:
                out.append(Origin("field", f[0], f[1], v))
                return out
            # array element of something: provenance of the array base
            return origins(prog, p.ops[0], fn, depth, _seen, through_params)
        if p.is_const and p.gname:
            out.append(Origin("global", p.gname, None, v))
            return out
        if p.is_inst and p.op == "load":
            return origins(prog, p, fn, depth, _seen, through_params)
        if p.is_arg:
            out.append(Origin("deref-param", fn.name, p.name or p.idx, v))
            return out
        return origins(prog, p, fn, depth, _seen, through_params)
    if op == "call":
        nm = norm_callee(v.callee) if v.callee else None
        if CONTENT[0] and nm in ("strdup", "strndup") and v.ops:
            # a copy is what it was copied from
            got = origins(prog, v.ops[0], fn, depth + 1, _seen, through_params)
            if got:
                return got
        if CONTENT[0] and nm in ("malloc", "calloc", "realloc", "alloc_flex", "alloc_array"):
            # a buffer is what is written into it
            got = []
            for i in fn.insts():
                if i.op != "call" or not i.ops:
                    continue
                wn = norm_callee(i.callee) if i.callee else None
                if wn not in ("memcpy", "memmove", "strcpy", "strncpy", "strcat", "strncat", "stpcpy", "sprintf", "snprintf"):
                    continue
                b = strip_casts(resolve_ptr(prog, i.ops[0], fn.unit)[0])
                hops = 0
                while b.is_inst and b.op in ("phi", "select") and hops < 3:
                    cands = [strip_casts(resolve_ptr(prog, o, fn.unit)[0]) for o in (b.ops if b.op == "phi" else b.ops[1:])]
                    nb = [c_ for c_ in cands if c_ is v]
                    b = nb[0] if nb else b
                    hops += 1
                    if nb:
                        break
                if b is not v:
                    continue
                srcs = [i.ops[1]] if wn not in ("sprintf", "snprintf") else \
                    [o for o in i.ops[(2 if wn == "sprintf" else 3):] if (getattr(o, "ty", "") or "").endswith("*")]
                for s_ in srcs:
                    got += origins(prog, s_, fn, depth + 1, _seen, through_params)
            if got:
                return got
        out.append(Origin("call", nm or "indirect", None, v))
        return out
    if op == "alloca":
        # a local buffer: where do the bytes stored into it come from?
        found = False
        for i in fn.insts():
            if i.op == "store" and resolve_ptr(prog, i.ops[1], fn.unit)[0] is v:
                for x in backward_slice(i.ops[0]):
                    if x.is_inst and x.op == "load":
                        b = resolve_ptr(prog, x.ops[0], fn.unit)[0]
                        if b is not v:
                            out += origins(prog, b, fn, depth + 1, _seen, through_params)
                            found = True
            elif i.op == "call" and norm_callee(i.callee) in ("memcpy", "memmove", "strcpy", "strncpy", "strcat") \
                    and i.ops and resolve_ptr(prog, i.ops[0], fn.unit)[0] is v:
                out += origins(prog, i.ops[1], fn, depth + 1, _seen, through_params)
                found = True
        if not found:
            out.append(Origin("local-buffer", v.name, None, v))
        return out
    out.append(Origin("other", op, None, v))
    return out
