"""A1: tagged-union agreement.  Inside `case SQFS_INODE_X` (or under `type == X`) only the union members that belong
to X are accessed.  At IR level a member access is the address of sqfs_inode_generic_t.data cast to the member's
struct type, so the member is identified by type; the case is a dominating switch/compare edge on base.type."""
import re

from .ir import strip_casts
from .util import backward_slice

MEMBER_OF = {1: "dir", 2: "file", 3: "slink", 4: "dev", 5: "dev", 6: "ipc", 7: "ipc",
             8: "dir_ext", 9: "file_ext", 10: "slink_ext", 11: "dev_ext", 12: "dev_ext", 13: "ipc_ext", 14: "ipc_ext"}
NAMES = {1: "DIR", 2: "FILE", 3: "SLINK", 4: "BDEV", 5: "CDEV", 6: "FIFO", 7: "SOCKET", 8: "EXT_DIR", 9: "EXT_FILE",
         10: "EXT_SLINK", 11: "EXT_BDEV", 12: "EXT_CDEV", 13: "EXT_FIFO", 14: "EXT_SOCKET"}
SIB = {"dir": "dir_ext", "file": "file_ext", "slink": "slink_ext", "dev": "dev_ext", "ipc": "ipc_ext"}
SIB.update({v: k for k, v in list(SIB.items())})


def is_type_load(v):
    v = strip_casts(v)
    while v.is_inst and v.op in ("zext", "sext", "trunc"):
        v = v.ops[0]
    if v.is_inst and v.op == "load":
        p = strip_casts(v.ops[0])
        if p.is_inst and p.op == "getelementptr" and p.fields():
            s_, n_ = p.fields()[-1]
            return n_ == "type" and s_.startswith("struct.sqfs_inode_t")
    return False


def _common_prefix(prog, f, acc, member, other):
    """every field accessed through this cast has the same offset and type in the sibling member"""
    a = prog.struct("struct.sqfs_inode_%s_t" % member, f.unit)
    b = prog.struct("struct.sqfs_inode_%s_t" % other, f.unit)
    if a is None or b is None:
        return False
    ok = True
    used = False
    for u in f.uses.get(acc, []):
        if u.op == "getelementptr":
            for el in u.x["gep"]:
                if el[0] not in ("*", "[]", "?"):
                    k = el[1]
                    used = True
                    if k >= len(b["elems"]) or a["elems"][k]["off"] != b["elems"][k]["off"] or a["elems"][k]["t"] != b["elems"][k]["t"]:
                        ok = False
                    break
        elif u.op in ("load", "store"):
            used = True
            if a["elems"][0]["t"] != b["elems"][0]["t"]:
                ok = False
        else:
            ok = False
    return ok and used


def run_a1(chk, prog, rule="A1"):
    n = 0
    for f in prog.functions():
        accesses = []
        for i in f.insts():
            if i.op != "bitcast":
                continue
            m = re.match(r"^%struct\.sqfs_inode_(\w+)_t(\.\d+)?\*$", i.ty)
            if not m or m.group(1) == "generic":
                continue
            src = strip_casts(i.ops[0])
            if not (src.is_inst and src.op == "getelementptr" and src.fields()):
                continue
            s_, n_ = src.fields()[-1]
            if n_ != "data" or not s_.startswith("struct.sqfs_inode_generic_t"):
                continue
            accesses.append((i, m.group(1)))
        if not accesses:
            continue
        converts = any(i.op == "store" and strip_casts(i.ops[1]).is_inst and strip_casts(i.ops[1]).op == "getelementptr" and
                       strip_casts(i.ops[1]).fields() and strip_casts(i.ops[1]).fields()[-1][1] == "type" and
                       strip_casts(i.ops[1]).fields()[-1][0].startswith("struct.sqfs_inode_t") for i in f.insts())
        for (acc, member) in accesses:
            cases = None
            for cond, outcome, br in f.guards_at(acc.bb):
                if br.op == "switch" and is_type_load(cond) and isinstance(outcome, tuple):
                    if outcome[0] == "case":
                        vals = set(outcome[1])
                        cases = vals if cases is None else cases & vals
                elif cond.is_inst and cond.op == "icmp" and cond.pred in ("eq", "ne") and is_type_load(cond.ops[0]) and \
                        cond.ops[1].is_const and cond.ops[1].is_int and outcome == (cond.pred == "eq"):
                    vals = {cond.ops[1].uval}
                    cases = vals if cases is None else cases & vals
            if cases is None:
                continue
            # a call that receives the inode between the type test and the access may have converted it
            killed = False
            ibase = strip_casts(strip_casts(acc.ops[0]).ops[0]) if strip_casts(acc.ops[0]).is_inst else None
            for cond, outcome, br in f.guards_at(acc.bb):
                if not ((br.op == "switch" and is_type_load(cond)) or (cond.is_inst and cond.op == "icmp" and is_type_load(cond.ops[0]))):
                    continue
                for c in f.calls():
                    if c.callee and c.callee.startswith("sqfs_inode_make_") and f.inst_dominates(br, c) and \
                            (f.inst_dominates(c, acc) or f.reaches(c.bb, acc.bb)):
                        killed = True
            if killed:
                continue
            n += 1
            chk.analysed(f)
            allowed = {MEMBER_OF.get(v) for v in cases}
            if converts:
                allowed |= {SIB.get(a) for a in list(allowed)}
            inst = "%s:case %s:%s" % (f.name, "/".join(NAMES.get(v, str(v)) for v in sorted(cases)), member)
            if member in allowed:
                chk.ok(rule, inst, acc, "member '%s' belongs to the inode type selected by the case" % member)
            elif SIB.get(member) in allowed and _common_prefix(prog, f, acc, member, SIB.get(member)):
                chk.ok(rule, inst, acc, "field lies in the common initial sequence of '%s' and '%s'" % (member, SIB.get(member)))
            else:
                chk.violation(rule, inst, acc, "under inode type %s the union member '%s' is accessed (expected %s): the wrong "
                              "bytes of the inode are encoded or decoded, so link count, device number or xattr index read "
                              "back differently" % ("/".join(NAMES.get(v, str(v)) for v in sorted(cases)), member,
                                                    "/".join(sorted(a for a in allowed if a))))
    return n
