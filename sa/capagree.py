"""K6-capagree: a growable buffer's recorded capacity is the one it was allocated with.

In a function that stores the result of an allocation into a pointer member P of an object and also stores a member C of
the same object whose new value the allocation size was computed from (the capacity: `new_sz = new_count * size;
data = realloc(data, new_sz); count = new_count`), every path that passes a successful allocation and the store to C
stores a value that the size of the *last* allocation on that path was computed from.  A fall-back allocation with a
smaller size that leaves the larger count on record makes every later bounds check of the container lie."""
from .ir import strip_casts, norm_callee, strip_suffix
from .bounds import ALLOC_FNS


def _field(p):
    p = strip_casts(p)
    if p.is_inst and p.op == "getelementptr":
        fs = p.fields()
        if fs:
            return (strip_suffix(fs[-1][0]), fs[-1][1])
    return None


def run_capagree(chk, prog, units_prefix=("lib/",), rule="K6-capagree"):
    from .props.c12 import _acyclic_paths, _slice_on_path, _resolve_on_path
    n = 0
    for f in prog.functions():
        if f.decl or not f.unit.src.startswith(units_prefix) or "/test/" in f.unit.src:
            continue
        f.build()
        allocs = [c for c in f.calls() if norm_callee(c.callee) in ALLOC_FNS]
        if not allocs:
            continue
        pstores = {}
        for i in f.insts():
            if i.op != "store":
                continue
            fld = _field(i.ops[1])
            if fld is None:
                continue
            pstores.setdefault(fld, []).append(i)
        # pointer members that receive an allocation (through phis)
        def alloc_roots(v, depth=0):
            v = strip_casts(v)
            if v.is_inst and v.op == "phi" and depth < 3:
                out = []
                for o in v.ops:
                    out += alloc_roots(o, depth + 1)
                return out
            return [v] if v in allocs else []
        for (S, P), sts in sorted(pstores.items()):
            holders = [i for i in sts if alloc_roots(i.ops[0])]
            if not holders:
                continue
            # candidate capacity members: stored in this function, value in the slice of some allocation size
            for (S2, C), csts in sorted(pstores.items()):
                if S2 != S or C == P:
                    continue
                for cs in csts:
                    if cs.ops[0].is_const or (getattr(cs.ops[0], "ty", "") or "").endswith("*"):
                        continue
                    h = [x for x in holders if x.bb is cs.bb or f.reaches(x.bb, cs.bb) or f.reaches(cs.bb, x.bb)]
                    if not h:
                        continue
                    paths = _acyclic_paths(f, cs.bb, cap=300)
                    seen_match = False
                    bad = None
                    for path in paths:
                        on = [a for a in allocs if a.bb in path and (a.bb is not cs.bb or a.pos < cs.pos)]
                        if not on or not any(x.bb in path for x in h):
                            continue
                        last = max(on, key=lambda a: (path.index(a.bb), a.pos))
                        nm = norm_callee(last.callee)
                        sizes = [last.ops[k] for k in ALLOC_FNS[nm] if k < len(last.ops)]
                        sl = set()
                        for sz in sizes:
                            sl |= {id(x) for x in _slice_on_path(sz, path)}
                        val = _resolve_on_path(cs.ops[0], path)
                        if id(val) in sl:
                            seen_match = True
                        else:
                            bad = bad or (last, path)
                    if not seen_match:
                        continue            # not a capacity member of this buffer
                    n += 1
                    chk.analysed(f)
                    inst = "%s:%s.%s~%s" % (f.name, S.replace("struct.", ""), C, P)
                    if bad is None:
                        chk.ok(rule, inst, cs, "on every path '%s' is set to the value the buffer in '%s' was allocated for" % (C, P))
                    else:
                        chk.violation(rule, inst, cs, "a path allocates the buffer of '%s' at line %d with a size that was not computed "
                                      "from the value then recorded in '%s': the container believes it has more room than it "
                                      "got, later appends write past the allocation" % (P, bad[0].line, C))
    return n
