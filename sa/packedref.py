"""K12-packedref: metadata references are packed coordinates, not byte positions.

SquashFS addresses a place in a metadata table as (start of the 8 KiB block on disk << 16) | offset inside the unpacked
block.  The writers form such a value from the two numbers the metadata writer reports.  A packed reference is not a
byte position: adding a byte count to it does not carry into the next block, it only pushes the offset part past the end
of the block the reference names (or into the block part).  The rule:

  carriers   every struct member, local and out-parameter that is assigned `(a << 16) | b` somewhere in the analysed
             program (found on every run, nothing is frozen);
  obligation every value read from a carrier is used only as it is (copied, stored, passed on, compared for equality) or
             taken apart again (shift, mask); an add, sub or mul with such a value as an operand is reported.

This is a necessary condition of "every reference in the image resolves": the arithmetic is wrong as soon as the byte count
crosses a block boundary, whatever the rest of the code does.  It decides the way references are formed, not that the
references that are formed point at the right record.
"""
from .ir import strip_casts

EXT = ("zext", "sext", "trunc", "bitcast")


def _unext(v):
    while v.is_inst and v.op in EXT:
        v = v.ops[0]
    return v


def is_packed_expr(v):
    v = _unext(v)
    if not (v.is_inst and v.op == "or"):
        return False
    for o in v.ops:
        o = _unext(o)
        if o.is_inst and o.op == "shl" and o.ops[1].is_const and o.ops[1].is_int and o.ops[1].sval == 16:
            return True
    return False


def _param_index(f, v):
    for k, p in enumerate(f.params):
        if p is v:
            return k
    return None


_PACKED_FNS = {}


def packed_fn(prog, g, depth=0):
    """g answers a packed reference: every value it returns is `(a << 16) | b` (or the answer of such a function)"""
    if g in _PACKED_FNS:
        return _PACKED_FNS[g]
    _PACKED_FNS[g] = False
    if g.decl or depth > 2:
        return False
    from .errflow import ret_sources
    g.build()
    srcs = ret_sources(g)
    res = bool(srcs) and all(is_packed_value(prog, g, v, depth + 1) for (v, _b) in srcs)
    _PACKED_FNS[g] = res
    return res


def is_packed_value(prog, f, v, depth=0):
    if is_packed_expr(v):
        return True
    v = _unext(v)
    if v.is_inst and v.op == "call" and v.callee:
        g = prog.fn(v.callee, f.unit)
        return g is not None and packed_fn(prog, g, depth)
    return False


def carriers(prog, scope):
    """(fields, outparams): fields = {(struct, member)}, outparams = {(function, k)} that receive a packed expression"""
    fields, outs = {}, {}
    _PACKED_FNS.clear()
    for f in prog.functions():
        if f.decl or not scope(f.unit.src):
            continue
        f.build()
        for i in f.insts():
            if i.op != "store" or not is_packed_value(prog, f, i.ops[0]):
                continue
            p = strip_casts(i.ops[1])
            if p.is_inst and p.op == "getelementptr" and p.field():
                fields.setdefault(p.field(), i)
            elif not p.is_inst:
                k = _param_index(f, p)
                if k is not None:
                    outs.setdefault((f, k), i)
    return fields, outs


def _packed_locals(prog, f, outs):
    """allocas of f that receive a packed reference: stored directly, or filled by a callee through an out-parameter"""
    loc = set()
    for i in f.insts():
        if i.op == "store" and is_packed_value(prog, f, i.ops[0]):
            p = strip_casts(i.ops[1])
            if p.is_inst and p.op == "alloca":
                loc.add(id(p))
        elif i.op == "call" and i.callee:
            g = prog.fn(i.callee, f.unit)
            if g is None:
                continue
            for k, a in enumerate(i.ops):
                if (g, k) in outs:
                    p = strip_casts(a)
                    if p.is_inst and p.op == "alloca":
                        loc.add(id(p))
    return loc


def run_packedref(chk, prog, rule="K12-packedref", scope=None):
    scope = scope or (lambda src: src.startswith(("lib/sqfs/src/", "lib/common/src/", "lib/fstree/src/", "bin/")) and "/test/" not in src)
    fields, outs = carriers(prog, scope)
    n = 0
    for f in prog.functions():
        if f.decl or not scope(f.unit.src):
            continue
        f.build()
        loc = _packed_locals(prog, f, outs)
        for ld in f.insts():
            if ld.op != "load":
                continue
            p = strip_casts(ld.ops[0])
            what = None
            if p.is_inst and p.op == "getelementptr" and p.field() in fields:
                what = "%s.%s" % (p.field()[0].split(".")[-1], p.field()[1])
            elif p.is_inst and p.op == "alloca" and id(p) in loc:
                what = "local '%s'" % (p.name or "?")
            if what is None:
                continue
            n += 1
            chk.analysed(f)
            inst = "%s:%s@%d" % (f.name, what, ld.line)
            bad = None
            work, seen = [ld], set()
            while work and bad is None:
                v = work.pop()
                if id(v) in seen:
                    continue
                seen.add(id(v))
                for u in f.uses.get(v, []):
                    if u.op in EXT or u.op in ("phi", "select"):
                        work.append(u)
                    elif u.op in ("add", "sub", "mul"):
                        bad = u
                        break
            if bad is None:
                chk.ok(rule, inst, ld, "the packed reference is copied, compared or taken apart, never computed with", nontrivial=False)
            else:
                chk.violation(rule, inst, bad, "a metadata reference ((block start << 16) | offset) read from %s is used as an operand of "
                              "'%s': a byte count added to a packed reference does not carry into the next metadata block, the "
                              "reference points past the end of the block it names" % (what, bad.op))
    # a packed value that never went through memory (an SSA local, the answer of a helper) is not computed with either
    for f in prog.functions():
        if f.decl or not scope(f.unit.src):
            continue
        for a in f.insts():
            if a.op not in ("add", "sub", "mul"):
                continue
            for o in a.ops:
                work, seen, hit = [o], set(), None
                while work and hit is None:
                    v = _unext(work.pop())
                    if id(v) in seen:
                        continue
                    seen.add(id(v))
                    if is_packed_value(prog, f, v):
                        hit = v
                    elif v.is_inst and v.op in ("phi", "select"):
                        work.extend(v.ops if v.op == "phi" else v.ops[1:])
                if hit is not None:
                    n += 1
                    chk.analysed(f)
                    chk.violation(rule, "%s:value@%d" % (f.name, a.line), a, "a metadata reference ((block start << 16) | offset) formed at "
                                  "line %d is used as an operand of '%s': a byte count added to a packed reference does not carry "
                                  "into the next metadata block" % (hit.line, a.op))
    chk.note("%s: carriers found: %s; out-parameters: %s" % (rule, sorted("%s.%s" % (a.split(".")[-1], b) for a, b in fields),
                                                          sorted("%s#%d" % (g.name, k) for g, k in outs)))
    return n, len(fields)
