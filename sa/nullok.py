"""K5-nullok: success with a member that is not there.

A contradiction rule in the sense of Engler et al.: if a function tests a pointer member of its object for NULL and
*answers success* on that edge, it states the belief "the object may lack this member and that is fine".  A caller that
takes the success edge and then hands the same object to a function which uses that member without a test holds the
opposite belief.  One of them is wrong; when the member is absent because of what the image says (no xattr table, no
fragment table, ...) the image decides which, and the process dies on a NULL pointer.

  S(G)   = {(k, M)}: G has a path on which `param_k->M == NULL` was found true, M is not assigned afterwards, and the path
           ends in a return whose value can be 0
  N(H)   = {(k, M)}: H loads `param_k->M` and dereferences it (itself, or by passing it to a function that dereferences
           that parameter without testing it), and H nowhere compares `param_k->M` with NULL
  report   a call of G in F whose success edge reaches, without a test of `obj->M` on the way, a call of some H with the same
           object and (k', M) in N(H) -- or a dereference of obj->M in F itself.

Only members that are really optional take part (they are compared with NULL somewhere: that is how S(G) is found), and a
report needs both halves in the code, so the rule is silent on objects whose members are always there.
"""
from .ir import strip_casts, norm_callee
from .errflow import ret_sources


def _param_index(f, v):
    v = strip_casts(v)
    for k, p in enumerate(f.params):
        if p is v:
            return k
    return None


def _field_load(f, v):
    """(k, field) if v is a load of param_k->field"""
    v = strip_casts(v)
    if not (v.is_inst and v.op == "load" and (v.ty or "").endswith("*")):
        return None
    p = strip_casts(v.ops[0])
    if not (p.is_inst and p.op == "getelementptr" and p.field()):
        return None
    k = _param_index(f, p.ops[0])
    if k is None:
        return None
    return (k, p.field())


def _null_tests(f):
    """[(icmp, (k, field), branch, successor taken when the member is NULL)]"""
    out = []
    for i in f.insts():
        if i.op != "icmp" or i.pred not in ("eq", "ne"):
            continue
        a, b = i.ops
        for x, y in ((a, b), (b, a)):
            if y.is_const and y.is_null:
                fl = _field_load(f, x)
                if fl is None:
                    continue
                out.append((i, fl))
    return out


class NullOk:
    def __init__(self, prog, scope):
        self.prog, self.scope = prog, scope
        self._deref = {}
        self._S = {}
        self._N = {}

    # ---- does g dereference parameter j without ever testing it?
    def derefs_param(self, g, j, depth=0):
        key = (g, j)
        if key in self._deref:
            return self._deref[key]
        self._deref[key] = False
        if g.decl or j >= len(g.params):
            return False
        g.build()
        par = g.params[j]
        for i in g.insts():
            if i.op == "icmp" and any(strip_casts(o) is par for o in i.ops) and any(o.is_const and o.is_null for o in i.ops):
                return False
        res = False
        for i in g.insts():
            if i.op in ("load", "store"):
                p = strip_casts(i.ops[0] if i.op == "load" else i.ops[1])
                while p.is_inst and p.op == "getelementptr":
                    p = strip_casts(p.ops[0])
                if p is par and g.dominates(i.bb, i.bb) and self._on_every_path(g, i.bb):
                    res = True
                    break
            elif i.op == "call" and i.callee and depth < 2:
                h = self.prog.fn(i.callee, g.unit)
                if h is None or h.decl:
                    continue
                for ai, a in enumerate(i.ops):
                    if strip_casts(a) is par and self._on_every_path(g, i.bb) and self.derefs_param(h, ai, depth + 1):
                        res = True
        self._deref[key] = res
        return res

    @staticmethod
    def _on_every_path(g, bb):
        """bb is executed whenever g is entered and returns normally from behind it (it dominates some return)"""
        return any(g.dominates(bb, b) for b in g.blocks if b.insts and b.term.op == "ret")

    # ---- N(H)
    def needs(self, h):
        if h in self._N:
            return self._N[h]
        self._N[h] = set()
        self._Nsites = getattr(self, "_Nsites", {})
        if h.decl:
            return self._N[h]
        h.build()
        tested = {fl for (_i, fl) in _null_tests(h)}
        sites = self._Nsites.setdefault(h, {})

        class _Rec(set):
            def add(self_, key, _site=[None]):
                set.add(self_, key)
        out = set()
        for i in h.insts():
            fl = None
            if i.op in ("load", "store"):
                p = strip_casts(i.ops[0] if i.op == "load" else i.ops[1])
                while p.is_inst and p.op == "getelementptr":
                    p = strip_casts(p.ops[0])
                fl = _field_load(h, p)
            elif i.op == "call":
                for ai, a in enumerate(i.ops):
                    f2 = _field_load(h, a)
                    if f2 is None or f2 in tested:
                        continue
                    ts, _ok = self.prog.call_targets(i)
                    ts = [t for t in ts if hasattr(t, "params") and not t.decl]
                    if ts and all(self.derefs_param(t, ai) for t in ts):
                        out.add(f2)
                        sites.setdefault(f2, []).append(i)
                    elif i.callee:
                        t = self.prog.fn(i.callee, h.unit)
                        if t is not None and not t.decl and self.derefs_param(t, ai):
                            out.add(f2)
                            sites.setdefault(f2, []).append(i)
                continue
            if fl is not None and fl not in tested:
                out.add(fl)
                sites.setdefault(fl, []).append(i)
        # one level of forwarding: h hands its object on to a function that needs the member
        for c in h.calls():
            if not c.callee:
                continue
            t = self.prog.fn(c.callee, h.unit)
            if t is None or t.decl or t is h:
                continue
            for (k2, fld) in self.needs(t):
                if k2 < len(c.ops):
                    k = _param_index(h, c.ops[k2])
                    if k is not None and (k, fld) not in tested:
                        out.add((k, fld))
                        sites.setdefault((k, fld), []).append(c)
        self._N[h] = out
        return out

    def _zero_facts(self, g, ic, path_blocks, zero_rets):
        return _zero_facts_impl(self.prog, g, ic, path_blocks, zero_rets)

    # ---- S(G)
    def succeeds_without(self, g):
        if g in self._S:
            return self._S[g]
        self._S[g] = {}
        if g.decl:
            return self._S[g]
        g.build()
        zero_blocks = set()
        for (v, b) in ret_sources(g):
            v = strip_casts(v)
            if v.is_const and v.is_int and v.sval == 0:
                zero_blocks.add(b)
            elif v.is_inst and v.op == "select" and any(o.is_const and o.is_int and o.sval == 0 for o in v.ops[1:]):
                zero_blocks.add(b)
        if not zero_blocks:
            return self._S[g]
        out = {}
        for (ic, fl) in _null_tests(g):
            assigned = {i.bb for i in g.insts() if i.op == "store" and strip_casts(i.ops[1]).is_inst and
                        strip_casts(i.ops[1]).op == "getelementptr" and strip_casts(i.ops[1]).field() == fl[1]}
            for br in g.uses.get(ic, []):
                starts = []
                if br.op == "br" and len(br.x["succ"]) == 2:
                    s0 = br.x["succ"][0] if ic.pred == "eq" else br.x["succ"][1]
                    # a || b: the edge leads into the block that branches on phi [true, here], [b, there]
                    t = s0.term
                    if t.op == "br" and len(t.x["succ"]) == 2 and t.ops[0].is_inst and t.ops[0].op == "phi" and t.ops[0].bb is s0:
                        for val, pb in zip(t.ops[0].ops, t.ops[0].x["inc"]):
                            if pb is br.bb and val.is_const and val.is_int:
                                s0 = t.x["succ"][0] if val.sval else t.x["succ"][1]
                    starts = [s0]
                elif br.op == "phi":
                    # a || b: the phi carries the comparison into the block that branches on it
                    for u in g.uses.get(br, []):
                        if u.op == "br" and len(u.x["succ"]) == 2:
                            starts = [u.x["succ"][0] if ic.pred == "eq" else u.x["succ"][1]]
                for s0 in starts:
                    seen, work = set(), [s0]
                    while work:
                        b = work.pop()
                        if b in seen or b in assigned:
                            continue
                        seen.add(b)
                        work.extend(b.succs)
                    if seen & zero_blocks:
                        out[fl] = (ic, self._zero_facts(g, ic, seen, seen & zero_blocks))
            # the first operand of `a == NULL || b == NULL` branches itself: its true edge goes to the phi's block
        self._S[g] = out
        return out


def _zero_facts_impl(prog, g, ic, path_blocks, zero_rets):
    """what the success-without-the-member answer of g says about the objects behind its pointer parameters:
    {(j, member name or '*')}: `param_j->member == 0` ('*': every byte of *param_j) whenever g answered 0 on that way"""
    facts = set()
    # (a) the object was wiped in front of the test and nothing on the way writes to it
    for c in g.calls():
        if norm_callee(c.callee) != "memset" or len(c.ops) < 3:
            continue
        v = c.ops[1]
        if not (v.is_const and v.is_int and v.sval == 0):
            continue
        j = _param_index(g, c.ops[0])
        if j is None or not g.dominates(c.bb, ic.bb):
            continue
        dirty = False
        for b in path_blocks:
            for i in b.insts:
                if i.op == "store":
                    q = strip_casts(i.ops[1])
                    while q.is_inst and q.op == "getelementptr":
                        q = strip_casts(q.ops[0])
                    if q is g.params[j]:
                        dirty = True
                elif i.op == "call" and i is not c and any(strip_casts(a) is g.params[j] for a in i.ops):
                    dirty = True
        if not dirty:
            facts.add((j, "*"))
    # (b) the answer 0 is given only where a member of an argument is 0
    conds = None
    for b in zero_rets:
        here = set()
        cands = []
        for i in b.insts:
            # `cond ? 0 : err` (ret_sources hands out the two arms separately)
            if i.op == "select" and any(u.op in ("ret", "phi") for u in g.uses.get(i, [])):
                if i.ops[1].is_const and i.ops[1].is_int and i.ops[1].sval == 0 and not (i.ops[2].is_const and i.ops[2].sval == 0):
                    cands.append((i.ops[0], True))
                elif i.ops[2].is_const and i.ops[2].is_int and i.ops[2].sval == 0 and not (i.ops[1].is_const and i.ops[1].sval == 0):
                    cands.append((i.ops[0], False))
        for cond, outcome, br in g.guards_at(b):
            if outcome in (True, False):
                cands.append((cond, outcome))
        for cond, outcome in cands:
            if not (cond.is_inst and cond.op == "icmp" and cond.pred in ("eq", "ne") and outcome == (cond.pred == "eq")):
                continue
            for x, y in ((cond.ops[0], cond.ops[1]), (cond.ops[1], cond.ops[0])):
                if y.is_const and y.is_int and y.sval == 0:
                    while x.is_inst and x.op in ("zext", "sext", "trunc"):
                        x = x.ops[0]
                    if x.is_inst and x.op == "load":
                        q = strip_casts(x.ops[0])
                        if q.is_inst and q.op == "getelementptr" and q.field():
                            j = _param_index(g, q.ops[0])
                            if j is not None:
                                here.add((j, q.field()[1]))
        conds = here if conds is None else (conds & here)
    return facts | (conds or set())


def run_nullok(chk, prog, rule, scope, done=None):
    eng = NullOk(prog, scope)
    done = done if done is not None else set()
    n = 0
    for f in prog.functions():
        if f.decl or not scope(f.unit.src):
            continue
        f.build()
        for c in f.calls():
            if not c.callee:
                continue
            g = prog.fn(c.callee, f.unit)
            if g is None or g.decl:
                continue
            S = eng.succeeds_without(g)
            if not S:
                continue
            for (k, fld), (test, zfacts) in sorted(S.items(), key=lambda kv: (kv[0][0], kv[0][1])):
                if k >= len(c.ops):
                    continue
                obj = strip_casts(c.ops[k])
                # objects that are known to hold zeros behind this success (and that f does not write itself)
                zero_objs = {}
                for (j, member) in zfacts:
                    if j < len(c.ops):
                        root = strip_casts(c.ops[j])
                        if root.is_inst and root.op == "alloca" and not _written_in(prog, f, root, c):
                            zero_objs.setdefault(id(root), set()).add(member)
                # success edge(s) of the call
                starts = None
                for u in f.uses.get(c, []):
                    if u.op == "icmp" and u.ops[1].is_const and u.ops[1].is_int and u.ops[1].sval == 0:
                        for br in f.uses.get(u, []):
                            if br.op == "br" and len(br.x["succ"]) == 2:
                                s = {"ne": br.x["succ"][1], "eq": br.x["succ"][0], "slt": br.x["succ"][1],
                                     "sge": br.x["succ"][0]}.get(u.pred)
                                if s is not None:
                                    starts = (starts or []) + [s]
                first = c.bb.insts[c.pos + 1:] if starts is None else []
                if starts is None:
                    starts = list(c.bb.succs)
                # blocks in which obj->M is tested: the search stops there
                stop = set()
                for (ic, fl2) in [(i, fl_) for (i, fl_) in _obj_null_tests(f, obj) if fl_ == fld]:
                    stop.add(ic.bb)
                key = (f.unit.src, f.name, c.line, c.col, fld[1])
                if key in done:
                    continue
                done.add(key)
                n += 1
                chk.analysed(f)
                inst = "%s:%s->%s after %s@%d" % (f.name, fld[0].split(".")[-1], fld[1], g.name, c.line)
                bad = None
                seen, work = set(), list(starts)
                todo = [first]
                while (work or todo) and bad is None:
                    if todo:
                        insts = todo.pop()
                    else:
                        b = work.pop()
                        if b in seen:
                            continue
                        seen.add(b)
                        insts = b.insts
                        if b not in stop:
                            work.extend(_feasible_succs(b, zero_objs))
                    for i in insts:
                        if i.op == "call" and i.callee and i is not c:
                            h = prog.fn(i.callee, f.unit)
                            if h is None or h.decl:
                                continue
                            for (k2, fld2) in eng.needs(h):
                                if fld2 == fld and k2 < len(i.ops) and strip_casts(i.ops[k2]) is obj:
                                    # arguments that are known to be 0 here can keep the helper away from the member
                                    zp = {j for j, a in enumerate(i.ops) if _is_zero_member(a, zero_objs)}
                                    if zp:
                                        live = _reach_with_zero_params(h, zp)
                                        ss = getattr(eng, "_Nsites", {}).get(h, {}).get((k2, fld2), [])
                                        if ss and not any(x.bb in live for x in ss):
                                            continue
                                    bad = (i, h)
                                    break
                        if bad is not None:
                            break
                        if i.bb in stop:
                            break
                if bad is None:
                    chk.ok(rule, inst, c, "nothing behind the success edge uses the member that may be absent without testing it",
                           nontrivial=False)
                else:
                    i, h = bad
                    chk.violation(rule, inst, i, "%s() answers success where %s->%s is NULL (test at line %d), and behind that "
                                  "success %s() uses the member without a test: an image that leaves the table out makes the "
                                  "process dereference a NULL pointer" % (g.name, fld[0].split(".")[-1], fld[1], test.line, h.name))
    return n


def _obj_null_tests(f, obj):
    out = []
    for i in f.insts():
        if i.op != "icmp" or i.pred not in ("eq", "ne"):
            continue
        for x, y in ((i.ops[0], i.ops[1]), (i.ops[1], i.ops[0])):
            if y.is_const and y.is_null:
                v = strip_casts(x)
                if v.is_inst and v.op == "load":
                    p = strip_casts(v.ops[0])
                    if p.is_inst and p.op == "getelementptr" and p.field() and strip_casts(p.ops[0]) is obj:
                        out.append((i, p.field()))
    return out


def _written_in(prog, f, root, after_call):
    """does f (or something f hands the object to, other than functions that only read it) write the local object?"""
    from .memver import _call_writes_arg
    reach, work = set(), list(after_call.bb.succs)
    while work:
        b = work.pop()
        if b in reach:
            continue
        reach.add(b)
        work.extend(b.succs)
    for i in f.insts():
        if not (i.bb in reach or (i.bb is after_call.bb and i.pos > after_call.pos)):
            continue
        if i.op == "store":
            q = strip_casts(i.ops[1])
            while q.is_inst and q.op == "getelementptr":
                q = strip_casts(q.ops[0])
            if q is root:
                return True
        elif i.op == "call" and i is not after_call:
            nm = norm_callee(i.callee) if i.callee else ""
            if nm.startswith("llvm."):
                continue
            for k, a in enumerate(i.ops):
                q = strip_casts(a)
                while q.is_inst and q.op == "getelementptr":
                    q = strip_casts(q.ops[0])
                if q is root and _call_writes_arg(prog, i, k):
                    return True
    return False


def _feasible_succs(b, zero_objs):
    """successors of b that can be taken when the listed members of the listed local objects are 0"""
    t = b.term
    if not zero_objs or t.op != "br" or len(t.x["succ"]) != 2:
        return list(b.succs)
    cond = t.ops[0]
    if not (cond.is_inst and cond.op == "icmp"):
        return list(b.succs)

    def is_zero(v):
        while v.is_inst and v.op in ("zext", "sext", "trunc"):
            v = v.ops[0]
        if not (v.is_inst and v.op == "load"):
            return False
        q = strip_casts(v.ops[0])
        if not (q.is_inst and q.op == "getelementptr" and q.field()):
            return False
        root = strip_casts(q.ops[0])
        ms = zero_objs.get(id(root))
        return bool(ms) and ("*" in ms or q.field()[1] in ms)

    a, c = cond.ops
    val = None
    if is_zero(c):
        val = {"ult": False, "uge": True}.get(cond.pred)          # x < 0 (unsigned) never, x >= 0 always
        if val is None and a.is_const and a.is_int:
            val = {"eq": a.sval == 0, "ne": a.sval != 0}.get(cond.pred)
    if val is None and is_zero(a):
        val = {"ugt": False, "ule": True}.get(cond.pred)          # 0 > x never, 0 <= x always
        if val is None and c.is_const and c.is_int:
            val = {"eq": c.sval == 0, "ne": c.sval != 0, "ugt": False if c.sval >= 0 else None}.get(cond.pred)
    if val is None:
        return list(b.succs)
    return [t.x["succ"][0] if val else t.x["succ"][1]]


def _is_zero_member(v, zero_objs):
    while v.is_inst and v.op in ("zext", "sext", "trunc"):
        v = v.ops[0]
    if not (v.is_inst and v.op == "load"):
        return False
    q = strip_casts(v.ops[0])
    if not (q.is_inst and q.op == "getelementptr" and q.field()):
        return False
    ms = zero_objs.get(id(strip_casts(q.ops[0])))
    return bool(ms) and ("*" in ms or q.field()[1] in ms)


def _reach_with_zero_params(h, zero_params):
    """blocks of h that can run when the listed parameters are 0 (branches on them, directly or through the phi of a loop
    head on the way in, are followed on the side 0 takes)"""
    h.build()
    pars = {id(h.params[j]) for j in zero_params if j < len(h.params)}

    def val(v, pred):
        for _ in range(6):
            while v.is_inst and v.op in ("zext", "sext", "trunc"):
                v = v.ops[0]
            if id(v) in pars:
                return 0
            if v.is_const and v.is_int:
                return v.sval
            if v.is_inst and v.op == "phi" and pred is not None:
                nv = None
                for x, pb in zip(v.ops, v.x["inc"]):
                    if pb is pred:
                        nv = x
                if nv is None:
                    return None
                v, pred = nv, None
                continue
            return None
        return None
    live, work = set(), [(h.blocks[0], None)]
    seen = set()
    while work:
        b, pred = work.pop()
        if (b, pred) in seen:
            continue
        seen.add((b, pred))
        live.add(b)
        t = b.term
        nxt = list(b.succs)
        if t.op == "br" and len(t.x["succ"]) == 2 and t.ops[0].is_inst and t.ops[0].op == "icmp":
            c = t.ops[0]
            a, d = val(c.ops[0], pred if c.ops[0].is_inst and c.ops[0].op == "phi" and c.ops[0].bb is b else None), \
                val(c.ops[1], pred if c.ops[1].is_inst and c.ops[1].op == "phi" and c.ops[1].bb is b else None)
            if a is not None and d is not None:
                r = {"eq": a == d, "ne": a != d, "ult": a < d, "ule": a <= d, "ugt": a > d, "uge": a >= d,
                     "slt": a < d, "sle": a <= d, "sgt": a > d, "sge": a >= d}.get(c.pred)
                if r is not None and a >= 0 and d >= 0:
                    nxt = [t.x["succ"][0] if r else t.x["succ"][1]]
        for s_ in nxt:
            work.append((s_, b))
    return live
