"""Program model over the JSON dumps produced by tools/irdump.

Program  = a set of units (one artefact's link closure, or everything)
Unit     = one translation unit
Function = CFG of Blocks of Insts, SSA after mem2reg
Values   = Inst | Arg | Const

Provided analyses: dominators / post-dominators (edge-aware), natural loops,
def-use, guard facts, field paths of GEPs with DWARF names, function-pointer
slot resolution and a call graph that resolves indirect calls through slots
and parameters.
"""
import json
import os
import re
from collections import defaultdict

from .build import AnalysisBroken


class Value:
    __slots__ = ()
    is_const = False
    is_inst = False
    is_arg = False


class Const(Value):
    __slots__ = ("k", "d")
    is_const = True

    def __init__(self, enc):
        self.k = enc[0]
        self.d = enc

    # kinds: i g n u e a s f z x b
    @property
    def is_int(self):
        return self.k == "i"

    @property
    def bits(self):
        return self.d[1] if self.k == "i" else None

    @property
    def uval(self):
        return self.d[2] if self.k == "i" else None

    @property
    def sval(self):
        if self.k != "i":
            return None
        b, v = self.d[1], self.d[2]
        return v - (1 << b) if b and v >= (1 << (b - 1)) else v

    @property
    def is_null(self):
        return self.k == "n" or (self.k == "i" and self.d[2] == 0)

    @property
    def gname(self):
        """name of the global/function referred to, looking through constant
        casts / GEPs with zero offsets"""
        c = self
        while True:
            if c.k == "g":
                return c.d[1]
            if c.k == "e" and c.d[1] in ("bitcast", "getelementptr", "addrspacecast", "ptrtoint", "inttoptr"):
                c = Const(c.d[2][0])
                continue
            return None

    def __repr__(self):
        if self.k == "i":
            return "i%d %d" % (self.d[1], self.sval)
        if self.k == "g":
            return "@" + self.d[1]
        if self.k == "n":
            return "null"
        g = self.gname
        if g:
            return "@%s(expr)" % g
        return "<%s>" % self.k


class Arg(Value):
    __slots__ = ("fn", "idx", "ty", "name", "id")
    is_arg = True

    def __init__(self, fn, idx, ty, name):
        self.fn, self.idx, self.ty, self.name, self.id = fn, idx, ty, name, idx

    def __repr__(self):
        return "%%arg%d:%s" % (self.idx, self.name)


class Inst(Value):
    __slots__ = ("fn", "id", "op", "ty", "ops", "bb", "line", "col", "file", "inl", "x", "pos", "name")
    is_inst = True

    def __repr__(self):
        return "%%%d=%s@%s:%d" % (self.id, self.op, self.fn.name, self.line)

    # ---- call helpers
    @property
    def callee(self):
        """direct callee name or None"""
        c = self.x.get("cal")
        if c is not None and c.is_const:
            return c.gname
        return None

    @property
    def callee_value(self):
        return self.x.get("cal")

    @property
    def pred(self):
        return self.x.get("p")

    @property
    def loc(self):
        return "%s:%d" % (self.file, self.line)

    @property
    def gep_path(self):
        return self.x.get("gep")

    def field(self):
        """for a GEP: (struct, fieldname) of the innermost struct index, or None"""
        p = self.x.get("gep")
        if not p:
            return None
        for el in reversed(p):
            if el[0] not in ("*", "[]", "?"):
                return (el[0], self.fn.unit.program.field_name(el[0], el[1], self.fn.unit))
            if el[0] == "[]":
                continue
            break
        return None

    def fields(self):
        """all (struct, fieldname) steps of a GEP, outermost first"""
        p = self.x.get("gep") or []
        prog = self.fn.unit.program
        return [(el[0], prog.field_name(el[0], el[1], self.fn.unit)) for el in p
                if el[0] not in ("*", "[]", "?")]


class Block:
    __slots__ = ("fn", "idx", "insts", "succs", "preds")

    def __init__(self, fn, idx):
        self.fn, self.idx, self.insts, self.succs, self.preds = fn, idx, [], [], []

    @property
    def term(self):
        return self.insts[-1]

    def __repr__(self):
        return "bb%d" % self.idx


def _mk_val(enc, fn):
    if isinstance(enc, int):
        return fn.values[enc]
    return Const(enc)


MEM_INTRINSICS = {"llvm.memcpy": "memcpy", "llvm.memmove": "memmove", "llvm.memset": "memset"}


def norm_callee(name):
    if name is None:
        return None
    for k, v in MEM_INTRINSICS.items():
        if name.startswith(k):
            return v
    return name


class Function:
    def __init__(self, unit, d):
        self.unit = unit
        self.name = d["name"]
        self.internal = d["internal"]
        self.decl = d["decl"]
        self.file = d.get("file", unit.src)
        self.line = d.get("line", 0)
        self.ret = d["ret"]
        self.varargs = d["varargs"]
        self.noreturn = d.get("noreturn", False)
        self.params = [Arg(self, i, p["t"], p["n"]) for i, p in enumerate(d["params"])]
        self.values = {a.idx: a for a in self.params}
        self.blocks = []
        self.var_names = {}
        self._raw = d["blocks"]
        self._built = False
        self._dom = self._pdom = self._loops = self._uses = self._edom = None

    @property
    def qname(self):
        return self.name if not self.internal else "%s:%s" % (self.unit.src, self.name)

    def __repr__(self):
        return "<fn %s>" % self.qname

    def build(self):
        if self._built:
            return self
        self._built = True
        raw = self._raw
        self.blocks = [Block(self, i) for i in range(len(raw))]
        pend = []
        for bi, rb in enumerate(raw):
            b = self.blocks[bi]
            for pos, ri in enumerate(rb):
                if ri["o"] == "dbg":
                    self.var_names.setdefault(ri["v"], ri["n"])
                    continue
                i = Inst()
                i.fn, i.id, i.op, i.ty, i.bb = self, ri["i"], ri["o"], ri["t"], b
                i.line, i.col = ri.get("l", 0), ri.get("c", 0)
                i.file = ri.get("f", self.file)
                i.inl = ri.get("inl")
                i.x = {}
                i.pos = len(b.insts)
                i.name = None
                self.values[i.id] = i
                b.insts.append(i)
                pend.append((i, ri))
        for i, ri in pend:
            if i.op == "phi":
                i.ops = [_mk_val(v, self) for v, _ in ri["a"]]
                i.x["inc"] = [self.blocks[b] for _, b in ri["a"]]
            else:
                i.ops = [_mk_val(v, self) for v in ri["a"]]
            for k in ("p", "gep", "sty", "aty", "asz", "idx", "vt", "st", "sz", "fty"):
                if k in ri:
                    i.x[k] = ri[k]
            if "gep" in ri:
                # operands inside the path become Values
                path = []
                for el in ri["gep"]:
                    if el[0] in ("*", "[]"):
                        el = [el[0], _mk_val(el[1], self)] + el[2:]
                    path.append(el)
                i.x["gep"] = path
            if "cal" in ri:
                i.x["cal"] = _mk_val(ri["cal"], self)
            if i.op == "br":
                i.x["succ"] = [self.blocks[s] for s in ri["succ"]]
            elif i.op == "switch":
                i.x["def"] = self.blocks[ri["def"]]
                i.x["cases"] = [(v, self.blocks[b]) for v, b in ri["cases"]]
        for b in self.blocks:
            if not b.insts:
                continue
            t = b.insts[-1]
            if t.op == "br":
                b.succs = list(t.x["succ"])
            elif t.op == "switch":
                seen = []
                for s in [t.x["def"]] + [c[1] for c in t.x["cases"]]:
                    if s not in seen:
                        seen.append(s)
                b.succs = seen
            for s in b.succs:
                if b not in s.preds:
                    s.preds.append(b)
        for vid, nm in self.var_names.items():
            v = self.values.get(vid)
            if v is not None and v.is_inst:
                v.name = nm
        self._raw = None
        return self

    # ---- iteration
    def insts(self):
        self.build()
        for b in self.blocks:
            for i in b.insts:
                yield i

    def calls(self, name=None):
        for i in self.insts():
            if i.op in ("call", "invoke"):
                if name is None or norm_callee(i.callee) == name:
                    yield i

    def rets(self):
        return [i for i in self.insts() if i.op == "ret"]

    # ---- def-use
    @property
    def uses(self):
        if self._uses is None:
            u = defaultdict(list)
            for i in self.insts():
                for o in i.ops:
                    if not o.is_const:
                        u[o].append(i)
                cv = i.x.get("cal")
                if cv is not None and not cv.is_const:
                    u[cv].append(i)
                for el in i.x.get("gep") or []:
                    if el[0] == "[]" and not el[1].is_const:
                        u[el[1]].append(i)
                    if el[0] == "*" and not el[1].is_const:
                        u[el[1]].append(i)
            self._uses = u
        return self._uses

    # ---- dominators
    def _compute_dom(self, post=False):
        self.build()
        blocks = self.blocks
        n = len(blocks)
        if post:
            exits = [b for b in blocks if not b.succs]
            succs = lambda b: b.preds
            preds = lambda b: b.succs
            roots = exits
        else:
            succs = lambda b: b.succs
            preds = lambda b: b.preds
            roots = [blocks[0]] if blocks else []
        # reverse postorder from virtual root
        order, seen = [], set()
        for r in roots:
            stack = [(r, iter(succs(r)))]
            if r in seen:
                continue
            seen.add(r)
            while stack:
                node, it = stack[-1]
                adv = False
                for s in it:
                    if s not in seen:
                        seen.add(s)
                        stack.append((s, iter(succs(s))))
                        adv = True
                        break
                if not adv:
                    order.append(node)
                    stack.pop()
        order.reverse()
        rpo = {b: k for k, b in enumerate(order)}
        idom = {}
        ROOT = None
        for r in roots:
            idom[r] = ROOT
        changed = True

        def intersect(a, b):
            while a is not b:
                if a is ROOT or b is ROOT:
                    return ROOT
                while a is not ROOT and b is not ROOT and rpo[a] > rpo[b]:
                    a = idom[a]
                while a is not ROOT and b is not ROOT and rpo[b] > rpo[a]:
                    b = idom[b]
            return a
        while changed:
            changed = False
            for b in order:
                if b in roots:
                    continue
                new = "unset"
                for p in preds(b):
                    if p in idom:
                        new = p if new == "unset" else intersect(p, new)
                if new == "unset":
                    continue
                if idom.get(b, "unset") is not new:
                    idom[b] = new
                    changed = True
        return idom

    @property
    def idom(self):
        if self._dom is None:
            self._dom = self._compute_dom(False)
        return self._dom

    @property
    def ipdom(self):
        if self._pdom is None:
            self._pdom = self._compute_dom(True)
        return self._pdom

    def dominates(self, a, b):
        """block a dominates block b"""
        idom = self.idom
        if b not in idom:
            return False  # unreachable
        while b is not None:
            if b is a:
                return True
            b = idom.get(b)
        return False

    def postdominates(self, a, b):
        ip = self.ipdom
        if b not in ip:
            return False
        while b is not None:
            if b is a:
                return True
            b = ip.get(b)
        return False

    def inst_dominates(self, a, b):
        if a.bb is b.bb:
            return a.pos < b.pos
        return self.dominates(a.bb, b.bb)

    def reachable_blocks(self):
        return set(self.idom.keys())

    def edge_dominates(self, u, v, target):
        """does the CFG edge u->v dominate block `target`?  (every path from
        entry to target uses that edge)"""
        if not self.dominates(v, target):
            return False
        # all other predecessors of v must be dominated by v (back edges)
        for p in v.preds:
            if p is u:
                continue
            if not self.dominates(v, p):
                return False
        # multi-edges u->v from the same terminator with different conditions
        return True

    # ---- guards
    def guards_at(self, bb):
        """list of (cond_value, outcome, branch_inst) facts that hold on entry to bb
        because a conditional edge dominates it.  outcome is True/False for br,
        ('case', v) / ('default', [vals]) for switch."""
        out = []
        idom = self.idom
        seen = set()
        for b in self.blocks:
            if b not in idom or not b.insts:
                continue
            t = b.term
            if t.op == "br" and len(t.x["succ"]) == 2:
                s0, s1 = t.x["succ"]
                if s0 is s1:
                    continue
                if self.edge_dominates(b, s0, bb):
                    out.append((t.ops[0], True, t))
                if self.edge_dominates(b, s1, bb):
                    out.append((t.ops[0], False, t))
            elif t.op == "switch":
                tgt = defaultdict(list)
                for v, s in t.x["cases"]:
                    tgt[s].append(v)
                for s, vals in tgt.items():
                    if s is t.x["def"]:
                        continue
                    if self.edge_dominates(b, s, bb):
                        out.append((t.ops[0], ("case", tuple(vals)), t))
                d = t.x["def"]
                if d not in tgt and self.edge_dominates(b, d, bb):
                    out.append((t.ops[0], ("default", tuple(v for v, _ in t.x["cases"])), t))
        # short-circuit conditions: clang -O0 turns  a && b  into  phi i1 [false, A], [b, B]  (and  a || b  into
        # phi i1 [true, A], [b, B]).  If the phi is known true (false for ||), control came through B: b holds (fails) and
        # everything that guards B holds as well.
        k = 0
        seen_phi = set()
        while k < len(out) and k < 64:
            c, o, t = out[k]
            k += 1
            if not (o in (True, False) and c.is_inst and c.op == "phi" and c.ty == "i1") or id(c) in seen_phi:
                continue
            seen_phi.add(id(c))
            shortcut = not o            # the constant the other incoming values must have
            rest = [(v, p) for v, p in zip(c.ops, c.x["inc"]) if not (v.is_const and v.is_int and bool(v.sval) == shortcut)]
            if len(rest) != 1:
                continue
            v, p = rest[0]
            out.append((v, o, t))
            for g in self.guards_at(p):
                if g not in out:
                    out.append(g)
            tt = p.term
            if tt.op == "br" and len(tt.x["succ"]) == 2 and tt.x["succ"][0] is not tt.x["succ"][1]:
                if tt.x["succ"][0] is c.bb:
                    out.append((tt.ops[0], True, tt))
                elif tt.x["succ"][1] is c.bb:
                    out.append((tt.ops[0], False, tt))
        # modus tollens over a short-circuit:  !(a && b) together with a  gives  !b   (and  a || b  false with ... is covered
        # above).  The phi is  [false, A], [b, B]  where A branches on a; if a is known (the same comparison, or its
        # negation with the opposite outcome, among the facts) the phi's value is b's.
        def _same_cmp(c1, c2):
            """+1 same comparison, -1 negated comparison, 0 unrelated"""
            if not (c1.is_inst and c2.is_inst and c1.op == "icmp" and c2.op == "icmp"):
                return 0
            def same_v(a, b):
                a, b = strip_casts(a), strip_casts(b)
                if a is b:
                    return True
                return a.is_const and b.is_const and ((a.is_null and b.is_null) or (a.is_int and b.is_int and a.uval == b.uval))
            if not (same_v(c1.ops[0], c2.ops[0]) and same_v(c1.ops[1], c2.ops[1])):
                return 0
            if c1.pred == c2.pred:
                return 1
            neg = {"eq": "ne", "ne": "eq", "ult": "uge", "uge": "ult", "ugt": "ule", "ule": "ugt", "slt": "sge", "sge": "slt", "sgt": "sle", "sle": "sgt"}
            return -1 if neg.get(c1.pred) == c2.pred else 0
        changed = True
        rounds = 0
        while changed and rounds < 4:
            changed = False
            rounds += 1
            for (c, o, t) in list(out):
                if not (o in (True, False) and c.is_inst and c.op == "phi" and c.ty == "i1"):
                    continue
                consts = [(v, p) for v, p in zip(c.ops, c.x["inc"]) if v.is_const and v.is_int]
                rest = [(v, p) for v, p in zip(c.ops, c.x["inc"]) if not (v.is_const and v.is_int)]
                if len(rest) != 1 or not consts or any(bool(v.sval) != o for v, p in consts):
                    continue
                # the known outcome equals the short-cut constant: either the short cut was taken or b has that value
                ok_all = True
                for (v, p) in consts:
                    tt = p.term
                    if not (tt.op == "br" and len(tt.x["succ"]) == 2 and tt.ops[0].is_inst):
                        ok_all = False
                        break
                    a = tt.ops[0]
                    took = tt.x["succ"][0] is c.bb      # outcome of a with which the short cut is taken
                    known = None
                    for (c2, o2, t2) in out:
                        if o2 not in (True, False):
                            continue
                        r = 1 if c2 is a else _same_cmp(a, c2)
                        if r == 1:
                            known = o2
                        elif r == -1:
                            known = not o2
                    if known is None or known == took:
                        ok_all = False          # the short cut may have been taken
                        break
                if ok_all:
                    fact = (rest[0][0], o, t)
                    if fact not in out:
                        out.append(fact)
                        changed = True
        return out

    # ---- loops
    @property
    def loops(self):
        """list of (header, set(blocks)) natural loops (merged per header)"""
        if self._loops is None:
            self.build()
            by_head = {}
            for b in self.blocks:
                if b not in self.idom:
                    continue
                for s in b.succs:
                    if self.dominates(s, b):
                        body = by_head.setdefault(s, {s})
                        stack = [b]
                        while stack:
                            x = stack.pop()
                            if x in body:
                                continue
                            body.add(x)
                            stack.extend(x.preds)
            self._loops = list(by_head.items())
        return self._loops

    def loop_of(self, bb):
        """innermost loop containing bb"""
        best = None
        for h, body in self.loops:
            if bb in body and (best is None or len(body) < len(best[1])):
                best = (h, body)
        return best

    def reaches(self, a, b, avoid=()):
        """is block b reachable from block a (through >=0 edges) without
        entering blocks in `avoid`"""
        if a is b:
            return True
        seen, stack = {a}, [a]
        while stack:
            x = stack.pop()
            for s in x.succs:
                if s in avoid or s in seen:
                    continue
                if s is b:
                    return True
                seen.add(s)
                stack.append(s)
        return False


class Unit:
    def __init__(self, program, obj, src, d):
        self.program = program
        self.obj = obj
        self.src = src
        self.structs = d["structs"]
        self.globals = {g["name"]: g for g in d["globals"]}
        self.functions = {}
        for fd in d["functions"]:
            f = Function(self, fd)
            self.functions[f.name] = f

    def __repr__(self):
        return "<unit %s>" % self.src


def strip_suffix(sname):
    return re.sub(r"\.\d+$", "", sname)


class Program:
    def __init__(self, name, db, dumps, objs):
        self.name = name
        self.units = []
        self.by_src = {}
        for o in objs:
            with open(dumps[o]) as f:
                d = json.load(f)
            u = Unit(self, o, db["units"][o]["src"], d)
            self.units.append(u)
            self.by_src.setdefault(u.src, u)
        self.ext = {}
        for u in self.units:
            for f in u.functions.values():
                if not f.decl and not f.internal:
                    self.ext.setdefault(f.name, f)
        self._structs = {}
        for u in self.units:
            for n, s in u.structs.items():
                if s.get("opaque"):
                    continue
                cur = self._structs.get(n)
                if cur is None or sum(1 for e in s["elems"] if e.get("n")) > sum(1 for e in cur["elems"] if e.get("n")):
                    self._structs[n] = s
        self._slots = None
        self._callers = None
        self._cg = None

    # ---- lookup
    def fn(self, name, unit=None):
        """resolve a function name as seen from `unit`"""
        if unit is not None:
            f = unit.functions.get(name)
            if f is not None and not f.decl:
                return f
        return self.ext.get(name)

    def need_fn(self, name, src=None):
        if src is not None:
            u = self.by_src.get(src)
            if u is None:
                raise AnalysisBroken("anchor unit %s is not part of %s" % (src, self.name))
            f = u.functions.get(name)
            if f is None or f.decl:
                raise AnalysisBroken("anchor function %s not defined in %s" % (name, src))
            return f.build()
        f = self.ext.get(name)
        if f is None:
            cands = [u.functions[name] for u in self.units if name in u.functions and not u.functions[name].decl]
            if len(cands) == 1:
                return cands[0].build()
            raise AnalysisBroken("anchor function %s not found in %s (%d candidates)" % (name, self.name, len(cands)))
        return f.build()

    def functions(self):
        for u in self.units:
            for f in u.functions.values():
                if not f.decl:
                    yield f.build()

    def struct(self, name, unit=None):
        # layout always from the unit that uses the type (anonymous types differ between units)
        if unit is not None and name in unit.structs and not unit.structs[name].get("opaque"):
            return unit.structs[name]
        return self._structs.get(name) or self._structs.get(strip_suffix(name))

    def field_name(self, sname, idx, unit=None):
        s = self.struct(sname, unit)
        if s is None:
            return "#%d" % idx
        try:
            n = s["elems"][idx].get("n")
        except IndexError:
            return "#%d" % idx
        if n:
            return n
        g = self._structs.get(sname) or self._structs.get(strip_suffix(sname))
        if g is not None and g is not s and len(g["elems"]) == len(s["elems"]) and \
                all(a["off"] == b["off"] for a, b in zip(g["elems"], s["elems"])):
            return g["elems"][idx].get("n") or "#%d" % idx
        return "#%d" % idx

    def field_index(self, sname, fname):
        s = self.struct(sname)
        if s is None:
            raise AnalysisBroken("anchor struct %s vanished" % sname)
        for i, e in enumerate(s["elems"]):
            if e.get("n") == fname or fname in (e.get("n") or "").split("|"):
                return i
        raise AnalysisBroken("anchor field %s.%s vanished" % (sname, fname))

    # ---- slots (function pointers stored in struct fields)
    def fn_targets(self, v, unit, depth=0, _seen=None):
        """set of Functions a value may denote (function constants, phi/select,
        parameters bound at call sites, loads from slots)"""
        out = set()
        if _seen is None:
            _seen = set()
        if id(v) in _seen or depth > 6:
            return out
        _seen.add(id(v))
        if v.is_const:
            g = v.gname
            if g:
                f = self.fn(g, unit)
                if f is not None:
                    out.add(f)
                else:
                    out.add(ExternFn(g))
            return out
        if v.is_arg:
            for cs in self.callers_of(v.fn):
                if v.idx < len(cs.ops):
                    out |= self.fn_targets(cs.ops[v.idx], cs.fn.unit, depth + 1, _seen)
            return out
        if v.op in ("bitcast", "phi", "select"):
            ops = v.ops[1:] if v.op == "select" else v.ops
            for o in ops:
                out |= self.fn_targets(o, unit, depth, _seen)
            return out
        if v.op == "load":
            p = v.ops[0]
            slot = slot_of_ptr(p)
            if slot:
                out |= self.slot_impls(slot)
            else:
                # load from (an element of) a global table of function pointers: every function in its initialiser
                q = p
                while q.is_inst and q.op in ("getelementptr", "bitcast"):
                    q = q.ops[0]
                if q.is_const and q.gname:
                    g = None
                    for u in ([unit] if unit is not None else []) + list(self.units):
                        if u is not None and q.gname in u.globals and u.globals[q.gname].get("init"):
                            g = (u, u.globals[q.gname])
                            break
                    if g is not None:
                        def scan(enc, uu):
                            if enc[0] in ("g", "e"):
                                c = Const(enc)
                                if c.gname:
                                    f = self.fn(c.gname, uu)
                                    if f is not None:
                                        out.add(f)
                            elif enc[0] == "a":
                                for el in enc[2]:
                                    scan(el, uu)
                        scan(g[1]["init"], g[0])
            return out
        return out

    @property
    def slots(self):
        if self._slots is None:
            self._slots = defaultdict(set)
            self._slot_sites = defaultdict(list)
            # stores in code
            for f in self.functions():
                for i in f.insts():
                    if i.op != "store":
                        continue
                    if "(" not in i.x.get("vt", ""):
                        continue
                    slot = slot_of_ptr(i.ops[1])
                    if not slot:
                        continue
                    self._slot_sites[slot].append(i)
            # two rounds so that slot->slot copies settle
            for _ in range(2):
                for slot, sites in self._slot_sites.items():
                    for i in sites:
                        self._slots[slot] |= self.fn_targets(i.ops[0], i.fn.unit)
            # constant initialisers of globals
            for u in self.units:
                for g in u.globals.values():
                    init = g.get("init")
                    if init:
                        self._scan_const(init, g["t"], u)
        return self._slots

    def _scan_const(self, enc, ty, unit):
        if enc[0] == "a":
            tn = enc[1]
            m = re.match(r"^%((?:struct|union)\.[\w.]+)$", tn)
            if m:
                sname = m.group(1)
                for idx, el in enumerate(enc[2]):
                    c = Const(el)
                    if el[0] in ("g", "e") and c.gname:
                        f = self.fn(c.gname, unit)
                        if f is not None:
                            self._slots[(strip_suffix(sname), self.field_name(sname, idx, unit))].add(f)
                    elif el[0] == "a":
                        self._scan_const(el, el[1], unit)
            else:
                for el in enc[2]:
                    if el[0] == "a":
                        self._scan_const(el, el[1], unit)

    def slot_impls(self, slot):
        return set(self.slots.get((strip_suffix(slot[0]), slot[1]), ()))

    # ---- call graph
    def callers_of(self, fn):
        if self._callers is None:
            self._callers = defaultdict(list)
            for f in self.functions():
                for i in f.insts():
                    if i.op == "call":
                        c = i.callee
                        if c:
                            t = self.fn(c, f.unit)
                            if t is not None:
                                self._callers[t].append(i)
        return self._callers.get(fn, [])

    # ---- type-directed resolution of sqfs_drop(obj): only destroy hooks of objects whose
    # struct embeds the static type of `obj` at offset 0
    def _first_chain(self, sname, unit=None):
        out = [strip_suffix(sname)]
        for _ in range(6):
            s = self.struct(out[-1], unit)
            if not s or not s["elems"]:
                break
            m = re.match(r"^%((?:struct|union)\.[\w.]+)$", s["elems"][0]["t"])
            if not m or s["elems"][0]["off"] != 0:
                break
            out.append(strip_suffix(m.group(1)))
        return out

    def destroy_types(self):
        if getattr(self, "_dtypes", None) is None:
            dt = defaultdict(set)
            for f in self.functions():
                for c in f.calls():
                    if c.callee == "sqfs_object_init" and len(c.ops) >= 2:
                        t = static_struct_type(c.ops[0])
                        for d in self.fn_targets(c.ops[1], f.unit):
                            dt[d].add(t)
            for slot, sites in getattr(self, "_slot_sites", {}).items():
                if slot != ("struct.sqfs_object_t", "destroy"):
                    continue
                for i in sites:
                    if i.fn.name == "sqfs_object_init":
                        continue
                    base = strip_casts(strip_casts(i.ops[1]).ops[0]) if strip_casts(i.ops[1]).is_inst else None
                    m = re.match(r"^%((?:struct|union)\.[\w.]+)\*$", getattr(base, "ty", "") or "")
                    for d in self.fn_targets(i.ops[0], i.fn.unit):
                        dt[d].add(strip_suffix(m.group(1)) if m else None)
            self._dtypes = dt
        return self._dtypes

    def drop_targets(self, call):
        impls = self.slot_impls(("struct.sqfs_object_t", "destroy"))
        t = static_struct_type(call.ops[0]) if call.ops else None
        if t is None:
            return impls
        dt = self.destroy_types()
        out = set()
        for d in impls:
            tys = dt.get(d) or {None}
            for ot in tys:
                if ot is None or t in self._first_chain(ot, d.unit):
                    out.add(d)
        return out

    def call_targets(self, call):
        """(set of Function|ExternFn, resolved: bool)"""
        c = call.callee
        if c == "sqfs_drop":
            self.slots
            return (self.drop_targets(call), True)
        if c is not None:
            t = self.fn(c, call.fn.unit)
            return ({t} if t is not None else {ExternFn(norm_callee(c))}, True)
        cv = call.callee_value
        ts = self.fn_targets(cv, call.fn.unit)
        return (ts, bool(ts))

    def reachable_from(self, roots, stop=lambda f: False):
        """(set of defined Functions reachable, set of extern names called,
        list of unresolved indirect calls)"""
        seen, ext, unres = set(), set(), []
        stack = list(roots)
        while stack:
            f = stack.pop()
            if f in seen or stop(f):
                continue
            seen.add(f)
            for i in f.insts():
                if i.op != "call":
                    continue
                ts, ok = self.call_targets(i)
                if not ok:
                    unres.append(i)
                for t in ts:
                    if isinstance(t, ExternFn):
                        ext.add(t.name)
                    elif t not in seen:
                        stack.append(t.build())
        return seen, ext, unres


class ExternFn:
    __slots__ = ("name",)
    decl = True

    def __init__(self, name):
        self.name = name

    def __hash__(self):
        return hash(("ext", self.name))

    def __eq__(self, o):
        return isinstance(o, ExternFn) and o.name == self.name

    def __repr__(self):
        return "<extern %s>" % self.name


def static_struct_type(v):
    """the struct pointee type a pointer value has somewhere along its cast chain
    (`(T *)calloc()` passed on as void*): 'struct.T' or None"""
    for _ in range(8):
        m = re.match(r"^%((?:struct|union)\.[\w.]+)\*$", getattr(v, "ty", "") or "")
        if m:
            return strip_suffix(m.group(1))
        if getattr(v, "is_inst", False) and v.op in ("bitcast", "addrspacecast"):
            v = v.ops[0]
            continue
        break
    return None


def strip_casts(v):
    while v.is_inst and v.op in ("bitcast", "addrspacecast"):
        v = v.ops[0]
    return v


def slot_of_ptr(p):
    """(struct, field) if pointer p is the address of a struct field"""
    p = strip_casts(p)
    if p.is_inst and p.op == "getelementptr":
        f = p.field()
        if f:
            return (strip_suffix(f[0]), f[1])
        return None
    if p.is_const and p.k == "e" and p.d[1] == "getelementptr":
        path = p.d[3].get("gep")
        if path:
            for el in reversed(path):
                if el[0] not in ("*", "[]", "?"):
                    return (strip_suffix(el[0]), "#%d" % el[1])
    return None


def _link_semantics(db, name, objs, root, extra_flags):
    """archive members are linked only when they define a symbol some included object needs"""
    from . import build
    if name not in db["links"]:
        return objs
    direct = [o for o in db["links"][name] if o in db["units"]]
    members = [o for o in objs if o not in direct]
    # libsquashfs.la is a shared library: all of it is present
    whole = set(direct)
    for item in db["links"][name]:
        if item in db["links"]:
            whole |= set(build.artefact_objects(db, item))
    dumps = build.build_ir(objs, root=root, extra_flags=extra_flags, db=db)
    defs, refs = {}, {}
    for o in objs:
        with open(dumps[o]) as f:
            d = json.load(f)
        dd, rr = set(), set()
        for fn in d["functions"]:
            (rr if fn["decl"] else dd).add(fn["name"]) if not fn["internal"] else None
        for g in d["globals"]:
            if g.get("internal"):
                continue
            (rr if g.get("decl") else dd).add(g["name"])
        defs[o], refs[o] = dd, rr
    inc = [o for o in objs if o in whole]
    incset = set(inc)
    changed = True
    while changed:
        changed = False
        need = set()
        have = set()
        for o in inc:
            need |= refs[o]
            have |= defs[o]
        need -= have
        for o in members:
            if o in incset:
                continue
            if defs[o] & need:
                inc.append(o)
                incset.add(o)
                changed = True
    return [o for o in objs if o in incset]


def load_program(name, objs_of=None, extra_flags=(), root=None):
    """name: artefact ('libsquashfs.la', 'gensquashfs', ...) or 'all'"""
    from . import build
    db = build.compdb(root)
    if name == "all":
        objs = [o for o in db["units"]]
        # one object per (src, flags) is enough
        seen, uniq = set(), []
        for o in objs:
            k = (db["units"][o]["src"], tuple(db["units"][o]["flags"]))
            if k in seen:
                continue
            seen.add(k)
            uniq.append(o)
        objs = uniq
    else:
        objs = build.artefact_objects(db, name)
        objs = _link_semantics(db, name, objs, root, extra_flags)
    if objs_of:
        objs = [o for o in objs if objs_of(db["units"][o]["src"])]
    dumps = build.build_ir(objs, root=root, extra_flags=extra_flags, db=db)
    p = Program(name, db, dumps, objs)
    p.db_source = db.get("source", "")
    return p
