"""A small interval abstract interpreter over one function's SSA integers (unsigned view, 64 bit).

Used to bound values that are counters: loop-carried phis advanced by constants and tested against constants.
Per block an overlay environment refines SSA values with what the dominating branch outcomes say; phis join their
incoming values under the environment of the edge they arrive over.  Widening jumps to the next of the constants that
occur in comparisons (and their neighbours), then to TOP.  Anything the interpreter does not model is TOP.
"""
TOP = (0, (1 << 64) - 1)


def _join(a, b):
    if a is None:
        return b
    if b is None:
        return a
    return (min(a[0], b[0]), max(a[1], b[1]))


def _meet(a, b):
    lo, hi = max(a[0], b[0]), min(a[1], b[1])
    if lo > hi:
        return None           # unreachable
    return (lo, hi)


class Intervals:
    def __init__(self, f):
        self.f = f
        f.build()
        self.thresholds = sorted({0, 1} | {x for b in f.blocks for i in b.insts if i.op == "icmp"
                                          for o in i.ops if o.is_const and o.is_int
                                          for x in (o.uval - 1, o.uval, o.uval + 1) if 0 <= x < (1 << 63)})
        self.env = {}             # block -> {id(value): interval} overlay on entry
        self._oe = {}
        self.val = {}             # id(value) -> interval (definition-based, flow-insensitive join)
        self.reach = set()
        self._run()

    # ---- evaluation of a value in the overlay of a block
    def get(self, v, ov):
        if v.is_const:
            if v.is_int:
                return (v.uval, v.uval)
            return TOP
        r = self.val.get(id(v), TOP if not (v.is_inst and v.op == "phi") else None)
        if r is None:
            r = TOP
        o = ov.get(id(v))
        if o is not None:
            m = _meet(r, o)
            return m if m is not None else o
        return r

    def _eval(self, i, ov):
        op = i.op
        if op in ("zext", "bitcast"):
            return self.get(i.ops[0], ov)
        if op == "sext":
            a = self.get(i.ops[0], ov)
            return a if a[1] < (1 << 31) else TOP
        if op == "trunc":
            a = self.get(i.ops[0], ov)
            bits = int(i.ty[1:]) if i.ty[1:].isdigit() else 64
            return a if a[1] < (1 << bits) else (0, (1 << bits) - 1)
        if op == "add":
            a, b = self.get(i.ops[0], ov), self.get(i.ops[1], ov)
            hi = a[1] + b[1]
            return (a[0] + b[0], hi) if hi < (1 << 64) else TOP
        if op == "sub":
            a, b = self.get(i.ops[0], ov), self.get(i.ops[1], ov)
            if a[0] >= b[1]:
                return (a[0] - b[1], a[1] - b[0])
            return TOP
        if op == "mul":
            a, b = self.get(i.ops[0], ov), self.get(i.ops[1], ov)
            hi = a[1] * b[1]
            return (a[0] * b[0], hi) if hi < (1 << 64) else TOP
        if op == "select":
            return _join(self.get(i.ops[1], ov), self.get(i.ops[2], ov))
        if op == "and":
            a, b = self.get(i.ops[0], ov), self.get(i.ops[1], ov)
            return (0, min(a[1], b[1]))
        if op in ("lshr", "udiv"):
            a = self.get(i.ops[0], ov)
            return (0, a[1])
        if op == "urem":
            b = self.get(i.ops[1], ov)
            return (0, max(0, b[1] - 1))
        return TOP

    # ---- refinement of an overlay by a branch outcome
    def _refine(self, ov, cond, outcome, depth=0):
        ov = dict(ov)
        if cond.is_inst and cond.op == "phi" and cond.ty == "i1" and depth < 3:
            # a short-circuit condition: which incoming edges can have produced this outcome, and what held on them
            cands = []
            for val, pred in zip(cond.ops, cond.x["inc"]):
                if val.is_const and val.is_int:
                    if bool(val.uval) != outcome:
                        continue
                    e = dict(self._oe.get((pred, cond.bb), {}))
                else:
                    e = self._refine(dict(self._oe.get((pred, cond.bb), {})), val, outcome, depth + 1)
                if e.get("unreachable"):
                    continue
                cands.append(e)
            if not cands:
                ov["unreachable"] = True
                return ov
            keys = set(cands[0])
            for e in cands[1:]:
                keys &= set(e)
            for k in keys:
                if k == "unreachable":
                    continue
                acc = None
                for e in cands:
                    acc = _join(acc, e[k])
                cur = ov.get(k)
                m = _meet(cur, acc) if cur is not None else acc
                if m is not None:
                    ov[k] = m
            return ov
        if not (cond.is_inst and cond.op == "icmp"):
            return ov
        a, b = cond.ops
        p = cond.pred
        if not outcome:
            p = {"eq": "ne", "ne": "eq", "ult": "uge", "uge": "ult", "ugt": "ule", "ule": "ugt",
                 "slt": "sge", "sge": "slt", "sgt": "sle", "sle": "sgt"}.get(p, p)
        ia, ib = self.get(a, ov), self.get(b, ov)

        def narrow(v, iv):
            cur = self.get(v, ov)
            m = _meet(cur, iv)
            if m is None:
                ov["unreachable"] = True
                return
            ov[id(v)] = m
            # v = x + c  /  v = zext x: carry the refinement to x
            w = v
            for _ in range(4):
                if w.is_inst and w.op in ("zext", "bitcast") or (w.is_inst and w.op == "trunc" and m[1] < (1 << 31)):
                    w = w.ops[0]
                    ov[id(w)] = _meet(self.get(w, ov), m) or m
                elif w.is_inst and w.op == "add" and w.ops[1].is_const and w.ops[1].is_int and m[0] >= w.ops[1].uval:
                    c = w.ops[1].uval
                    w = w.ops[0]
                    m = (m[0] - c, m[1] - c)
                    ov[id(w)] = _meet(self.get(w, ov), m) or m
                else:
                    break
        signed_ok = ia[1] < (1 << 63) and ib[1] < (1 << 63)
        if p == "eq":
            narrow(a, ib)
            narrow(b, ia)
        elif p in ("ult",) or (p == "slt" and signed_ok):
            if ib[1] >= 1:
                narrow(a, (0, ib[1] - 1))
            narrow(b, (ia[0] + 1, TOP[1]))
        elif p in ("ule",) or (p == "sle" and signed_ok):
            narrow(a, (0, ib[1]))
            narrow(b, (ia[0], TOP[1]))
        elif p in ("ugt",) or (p == "sgt" and signed_ok):
            narrow(a, (ib[0] + 1, TOP[1]))
            if ia[1] >= 1:
                narrow(b, (0, ia[1] - 1))
        elif p in ("uge",) or (p == "sge" and signed_ok):
            narrow(a, (ib[0], TOP[1]))
            narrow(b, (0, ia[1]))
        elif p == "ne":
            # only useful at the ends of an interval
            if ib[0] == ib[1]:
                k = ib[0]
                if ia[0] == k and ia[1] > k:
                    narrow(a, (k + 1, ia[1]))
                elif ia[1] == k and ia[0] < k:
                    narrow(a, (ia[0], k - 1))
        return ov

    def _widen(self, old, new):
        if old is None:
            return new
        lo, hi = new
        if new[1] > old[1]:
            hi = next((t for t in self.thresholds if t >= new[1]), TOP[1])
        if new[0] < old[0]:
            lo = max([t for t in self.thresholds if t <= new[0]] or [0])
        return (min(lo, old[0]), max(hi, old[1]))

    def _run(self):
        f = self.f
        entry = f.blocks[0]
        self.env[entry] = {}
        self.reach = {entry}
        preds = {b: [p for p in f.blocks if b in p.succs] for b in f.blocks}
        out_env = {}
        self._oe = out_env
        rounds = 0
        changed = True
        while changed and rounds < 60:
            changed = False
            rounds += 1
            for b in f.blocks:
                if b not in self.reach:
                    continue
                ov = dict(self.env.get(b, {}))
                for i in b.insts:
                    if i.op == "phi":
                        acc = None
                        for v, p in zip(i.ops, i.x["inc"]):
                            e = out_env.get((p, b))
                            if e is None or e.get("unreachable"):
                                continue
                            acc = _join(acc, self.get(v, e))
                        if acc is None:
                            continue
                        old = self.val.get(id(i))
                        new = acc if rounds <= 3 else self._widen(old, _join(old, acc))
                        new = _join(old, new) if old is not None and rounds <= 3 else new
                        if new != old:
                            self.val[id(i)] = new
                            changed = True
                    elif i.ty and i.ty.startswith("i") and i.ty[1:].isdigit() and i.op not in ("call", "load", "icmp"):
                        new = self._eval(i, ov)
                        old = self.val.get(id(i))
                        if old is not None:
                            new = _join(old, new) if rounds <= 3 else self._widen(old, _join(old, new))
                        if new != old:
                            self.val[id(i)] = new
                            changed = True
                t = b.term
                for s_ in b.succs:
                    e = dict(ov)
                    if t.op == "br" and len(t.x["succ"]) == 2 and t.x["succ"][0] is not t.x["succ"][1]:
                        e = self._refine(e, t.ops[0], s_ is t.x["succ"][0])
                    prev = out_env.get((b, s_))
                    if prev != e:
                        out_env[(b, s_)] = e
                        changed = True
                    if not e.get("unreachable") and s_ not in self.reach:
                        self.reach.add(s_)
                        changed = True
                # entry overlay of successors: what all incoming edges agree on
                for s_ in b.succs:
                    es = [out_env[(p, s_)] for p in preds[s_] if (p, s_) in out_env and not out_env[(p, s_)].get("unreachable")]
                    if not es:
                        continue
                    keys = set(es[0])
                    for e in es[1:]:
                        keys &= set(e)
                    merged = {}
                    for k in keys:
                        if k == "unreachable":
                            continue
                        acc = None
                        for e in es:
                            acc = _join(acc, e[k])
                        merged[k] = acc
                    if merged != self.env.get(s_):
                        self.env[s_] = merged
                        changed = True
        self.out_env = out_env

    def returned(self):
        """interval of the function's integer return value"""
        acc = None
        for b in self.f.blocks:
            t = b.term
            if t.op == "ret" and t.ops and b in self.reach:
                v = t.ops[0]
                if v.is_inst and v.op == "phi" and v.bb is b:
                    for val, p in zip(v.ops, v.x["inc"]):
                        e = self.out_env.get((p, b))
                        if e is None or e.get("unreachable"):
                            continue
                        acc = _join(acc, self.get(val, e))
                else:
                    acc = _join(acc, self.get(v, self.env.get(b, {})))
        return acc or TOP
