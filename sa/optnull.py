"""K5-optnull: a belief rule (Engler et al.) for option structures.

A pointer field of a tool's options structure that is compared with NULL somewhere in the program may be NULL (the
option was not given).  Every place where a value loaded from such a field is dereferenced -- directly, by a libc
function that reads through its argument, or by a callee that dereferences the parameter without testing it -- must be
dominated by a non-NULL test of that field, or by a NULL test of another field that the option parser ties to it
(the parser leaves the program when both are NULL).
"""
import re

from .ir import norm_callee, strip_casts, ExternFn

DEREF_EXT = {"strlen": (0,), "strcmp": (0, 1), "strncmp": (0, 1), "strcpy": (0, 1), "memcpy": (0, 1), "strdup": (0,),
             "opendir": (0,), "fopen": (0,), "open": (0,), "open64": (0,), "chdir": (0,), "stat": (0,), "lstat": (0,),
             "strchr": (0,), "strrchr": (0,), "mkdir": (0,), "unlink": (0,), "strtol": (0,), "strtoul": (0,), "atoi": (0,),
             "fputs": (0,), "__xstat": (1,), "__lxstat": (1,), "strndup": (0,), "strcat": (0, 1), "strstr": (0, 1),
             "memcmp": (0, 1), "strnlen": (0,), "chroot": (0,), "fnmatch": (0, 1)}
NORETURN = {"exit", "_exit", "abort", "__assert_fail"}


def field_of(v):
    p = strip_casts(v)
    if p.is_inst and p.op == "getelementptr" and p.field():
        s, n = p.field()
        return (re.sub(r"\.\d+$", "", s), n)
    return None


def _null_facts(f, bb):
    """[(value, is_null: bool)] from the guards of bb"""
    out = []
    for cond, outcome, br in f.guards_at(bb):
        if cond.is_inst and cond.op == "icmp" and cond.pred in ("eq", "ne") and cond.ops[1].is_const and cond.ops[1].is_null \
                and outcome in (True, False):
            out.append((strip_casts(cond.ops[0]), outcome == (cond.pred == "eq")))
    return out


def _guarded(f, bb, vals):
    ids = set(id(x) for x in vals)
    for (v, isnull) in _null_facts(f, bb):
        if id(v) in ids and not isnull:
            return True
    return False


def value_derefs(prog, f, v, depth, seen):
    """[(site, how)] dereferences of pointer value v (and its casts) in f that no NULL test of v dominates"""
    out = []
    vals = [v]
    k = 0
    while k < len(vals):
        x = vals[k]
        k += 1
        for u in f.uses.get(x, []):
            if u.op == "bitcast" and u not in vals:
                vals.append(u)
    for x in vals:
        for u in f.uses.get(x, []):
            site = None
            if u.op == "load" and strip_casts(u.ops[0]) is x:
                site = (u, "read through")
            elif u.op == "store" and strip_casts(u.ops[1]) is x:
                site = (u, "written through")
            elif u.op == "getelementptr" and u.ops[0] is x:
                for uu in f.uses.get(u, []):
                    if uu.op in ("load", "store"):
                        site = (uu, "indexed")
                        break
            elif u.op == "call":
                nm = norm_callee(u.callee)
                ts, _ok = prog.call_targets(u)
                for i, o in enumerate(u.ops):
                    if o is not x:
                        continue
                    for t in ts:
                        if isinstance(t, ExternFn):
                            if nm in DEREF_EXT and i in DEREF_EXT[nm]:
                                site = (u, "passed to %s()" % nm)
                        else:
                            sub = param_derefs(prog, t, i, depth + 1, seen)
                            if sub:
                                site = (u, "passed to %s(), which uses it without a NULL test (%s:%d, %s)" % (
                                    t.name, sub[0][0].file, sub[0][0].line, sub[0][1]))
            if site and not _guarded(f, site[0].bb, vals):
                out.append(site)
    return out


def param_derefs(prog, f, idx, depth=0, seen=None):
    if seen is None:
        seen = set()
    if (f, idx) in seen or depth > 4 or f.decl:
        return []
    seen.add((f, idx))
    f.build()
    if idx >= len(f.params):
        return []
    return value_derefs(prog, f, f.params[idx], depth, seen)


def parser_invariants(prog, opt_struct):
    """{frozenset(field names)}: the program is left when all of these option fields are NULL, so afterwards at least
    one of each set is non-NULL"""
    inv = set()
    for f in prog.functions():
        exits = [c for c in f.calls() if norm_callee(c.callee) in NORETURN]
        if not exits:
            continue
        # blocks from which every path ends in a noreturn call
        doomed = set(c.bb for c in exits)
        changed = True
        while changed:
            changed = False
            for b in f.blocks:
                if b in doomed or not b.succs:
                    continue
                if all(s in doomed for s in b.succs):
                    doomed.add(b)
                    changed = True
        for b in doomed:
            names = set()
            for (v, isnull) in _null_facts(f, b):
                if isnull and v.is_inst and v.op == "load":
                    fl = field_of(v.ops[0])
                    if fl and fl[0] == opt_struct:
                        names.add(fl[1])
            if len(names) >= 2:
                inv.add(frozenset(names))
    return inv


def run_optnull(chk, prog, rule, exceptions=None):
    exceptions = exceptions or {}
    n = 0
    loads, checked = {}, set()
    for f in prog.functions():
        for i in f.insts():
            if i.op == "load" and i.ty.endswith("*"):
                fl = field_of(i.ops[0])
                if fl and "options" in fl[0]:
                    loads.setdefault(fl, []).append((f, i))
                    for u in f.uses.get(i, []):
                        if u.op == "icmp" and u.ops[1].is_const and u.ops[1].is_null:
                            checked.add(fl)
    invs = {}
    for fl in sorted(checked):
        if fl[0] not in invs:
            invs[fl[0]] = parser_invariants(prog, fl[0])
    for fl, ls in sorted(loads.items()):
        if fl not in checked:
            continue
        for f, l in ls:
            same = [x for (g, x) in ls if g is f]
            derefs = value_derefs(prog, f, l, 0, set())
            for (site, how) in derefs:
                n += 1
                chk.analysed(f)
                inst = "%s:%s.%s@%d" % (f.name, fl[0].replace("struct.", ""), fl[1], site.line)
                if _guarded(f, site.bb, same):
                    chk.ok(rule, inst, site, "under a non-NULL test of the field")
                    continue
                # tied by the parser to another field that is known NULL here
                tied = None
                for (v, isnull) in _null_facts(f, site.bb):
                    if isnull and v.is_inst and v.op == "load":
                        other = field_of(v.ops[0])
                        if other and other[0] == fl[0] and frozenset((other[1], fl[1])) in invs.get(fl[0], ()):
                            tied = other[1]
                if tied:
                    chk.ok(rule, inst, site, "under '%s == NULL'; the option parser leaves the program when both are NULL" % tied)
                elif (f.name, fl[1]) in exceptions:
                    chk.exception(rule, inst, site, exceptions[(f.name, fl[1])])
                else:
                    chk.violation(rule, inst, site, "option field '%s' is NULL when the option is not given (it is compared "
                                  "with NULL elsewhere), and here it is %s without a test: the tool crashes on an input "
                                  "that needs it" % (fl[1], how))
    return n
