"""K6 engine (second generation): provenance-based proof that a length is bounded by a capacity.

Capacity  Q = (constant bytes | None, set of symbolic quantities).  A symbolic quantity is either an SSA value of the
function under analysis or a *field identity* "struct.field" (the value loaded from that field of the owning object).
bounded(v, Q): v <= Q is derivable from
  constants, casts, masks, remainders, narrow zero-extensions, min/clamp phis and selects, dominating guards at the
  use or at the store that produced a memory-carried value, the do_block contract (result <= output capacity),
  differences whose subtrahend is guarded, and loads of the capacity field itself.
"""
import re

from .ir import strip_casts, norm_callee
from .util import resolve_ptr, backward_slice, const_int
from .effects import slot_call
from .bounds import _uncast, _same_loc, same_quantity, lin, ALLOC_FNS, _alloc_of, _same_expr

MAXD = 14


def field_id(v):
    """'struct.field' if v is (a cast of) a load from a struct field"""
    v = _uncast(v)
    if v.is_inst and v.op == "load":
        p = strip_casts(v.ops[0])
        if p.is_inst and p.op == "getelementptr" and p.field():
            s, n = p.field()
            return "%s.%s" % (re.sub(r"\.\d+$", "", s).replace("struct.", ""), n)
    return None


class Cap:
    def __init__(self, const=None, syms=(), fields=(), desc="", alts=()):
        self.const = const
        self.syms = list(syms)        # SSA values (bytes)
        self.fields = set(fields)     # field identities (bytes)
        self.desc = desc
        self.alts = list(alts)        # allocation sites with different sizes: a bound must hold for each of them
        self.scale = 1                # the fields count elements of this many bytes (constant factor of the allocation)

    def __repr__(self):
        parts = []
        if self.const is not None:
            parts.append("%d bytes" % self.const)
        parts += sorted(self.fields)
        parts += ["<ssa>"] * len(self.syms)
        return "%s [%s]" % (self.desc, ", ".join(parts))

    def known(self):
        return self.const is not None or self.syms or self.fields


def bits_needed(v, depth=0):
    """an upper bound on the number of significant bits of an unsigned value, from its construction alone"""
    v0 = v
    if v.is_const:
        return v.uval.bit_length() if v.is_int else 64
    m = re.match(r"i(\d+)$", getattr(v, "ty", "") or "")
    tw = int(m.group(1)) if m else 64
    if depth > 12 or not v.is_inst:
        return tw
    op = v.op
    if op == "zext":
        return min(tw, bits_needed(v.ops[0], depth + 1))
    if op == "trunc":
        return min(tw, bits_needed(v.ops[0], depth + 1))
    if op == "and":
        return min(bits_needed(v.ops[0], depth + 1), bits_needed(v.ops[1], depth + 1))
    if op in ("or", "xor"):
        return min(tw, max(bits_needed(v.ops[0], depth + 1), bits_needed(v.ops[1], depth + 1)))
    if op == "lshr" and v.ops[1].is_const:
        return max(0, bits_needed(v.ops[0], depth + 1) - v.ops[1].uval)
    if op == "urem" and v.ops[1].is_const:
        return min(tw, (v.ops[1].uval - 1).bit_length())
    if op == "udiv":
        return bits_needed(v.ops[0], depth + 1)
    if op in ("select", "phi"):
        ops = v.ops[1:] if op == "select" else [o for o in v.ops if o is not v0]
        return min(tw, max([bits_needed(o, depth + 1) for o in ops] or [tw]))
    if op == "shl" and v.ops[1].is_const:
        return min(tw, bits_needed(v.ops[0], depth + 1) + v.ops[1].uval)
    return tw


class Bounder:
    def __init__(self, prog, f):
        self.prog, self.f = prog, f
        self.trace = []

    # ---- helpers
    def guards(self, block):
        """conditional edges dominating the block, plus tag-mediated imports: where the block is guarded by
        load(L) == C and every store of C to L in this function sits under guards G, G holds as well"""
        key = id(block)
        cache = self.__dict__.setdefault("_gcache", {})
        if key in cache:
            return cache[key]
        base = list(self.f.guards_at(block))
        cache[key] = base          # recursion guard
        out = list(base)
        for cond, outcome, br in base:
            if not (cond.is_inst and cond.op == "icmp" and cond.pred in ("eq", "ne") and outcome == (cond.pred == "eq")):
                continue
            a, b = cond.ops
            if not (b.is_const and b.is_int):
                continue
            l = _uncast(a)
            if not (l.is_inst and l.op == "load"):
                continue
            loc = l.ops[0]
            stores = [i for i in self.f.insts() if i.op == "store" and _same_loc(self.prog, self.f, i.ops[1], loc) and
                      self.f.reaches(i.bb, l.bb)]
            if not stores or any(not (s_.ops[0].is_const and s_.ops[0].is_int) for s_ in stores):
                continue
            match = [s_ for s_ in stores if s_.ops[0].uval == b.uval]
            # a later store of another constant that dominates the load kills the earlier ones
            live = []
            for s_ in match:
                killed = any(t is not s_ and t.ops[0].uval != b.uval and self.f.inst_dominates(s_, t) and
                             self.f.inst_dominates(t, l) for t in stores)
                if not killed:
                    live.append(s_)
            if len(live) != 1:
                continue
            for g in self.f.guards_at(live[0].bb):
                if g not in out:
                    out.append(g)
        # answers of boolean helpers:  if (needs_extended(w, x)) ... else <here>
        for cond, outcome, br in list(out):
            for g in self._import_predicate(cond, outcome, br):
                out.append(g)
        cache[key] = out
        return out

    def _import_predicate(self, cond, outcome, br):
        """facts implied by the answer of an internal boolean helper, translated into this function: the helper's own
        branch conditions on the path to the only return that can produce that answer, with parameters replaced by the
        call's arguments and loads through parameters re-created at the call site"""
        from .errflow import ret_sources
        from .ir import Inst, ExternFn
        if outcome not in (True, False):
            return []
        x, pol = cond, outcome
        if x.is_inst and x.op == "icmp" and x.ops[1].is_const and x.ops[1].is_int and x.ops[1].sval == 0 and x.pred in ("eq", "ne"):
            pol = (x.pred == "ne") == outcome
            x = x.ops[0]
        while x.is_inst and x.op in ("zext", "trunc", "sext"):
            x = x.ops[0]
        if not (x.is_inst and x.op == "call" and x.callee):
            return []
        h = self.prog.fn(x.callee, self.f.unit)
        if h is None or isinstance(h, ExternFn) or h.decl or h is self.f or h.ret not in ("i1", "i8", "i32"):
            return []
        call = x
        h.build()
        leaves = ret_sources(h)
        cand = []
        for (v, b) in leaves:
            w = v
            while w.is_inst and w.op in ("zext", "trunc", "sext"):
                w = w.ops[0]
            if w.is_const and w.is_int:
                if bool(w.sval) == pol:
                    cand.append((w, b))
            else:
                cand.append((w, b))
        if len(cand) != 1:
            return []
        leaf, lb = cand[0]
        facts = list(h.guards_at(lb))
        t = lb.term
        if t.op == "br" and len(t.x["succ"]) == 2:
            for k, s_ in enumerate(t.x["succ"]):
                if any(i.op in ("phi", "ret") for i in s_.insts):
                    facts.append((t.ops[0], k == 0, t))
        if not leaf.is_const:
            facts.append((leaf, pol, t))
        memo = {}
        counter = [0]

        def M(v, depth=0):
            if v.is_const:
                return v
            if id(v) in memo:
                return memo[id(v)]
            if depth > 12:
                return None
            r = None
            if not v.is_inst:
                if v in h.params and v.idx < len(call.ops):
                    r = call.ops[v.idx]
            elif v.op in ("icmp", "load", "getelementptr", "bitcast", "zext", "sext", "trunc", "add", "sub", "mul", "and", "or",
                          "lshr", "shl", "xor"):
                ops = [M(o, depth + 1) for o in v.ops]
                if all(o is not None for o in ops):
                    if v.op == "load":
                        # the helper must not have written the location before reading it
                        if any(i.op == "store" for i in h.insts()):
                            ops = None
                    if ops is not None:
                        n = Inst.__new__(Inst)
                        counter[0] += 1
                        n.fn, n.id, n.op, n.ty, n.ops = self.f, -1000 - counter[0], v.op, v.ty, ops
                        n.bb, n.line, n.col, n.file, n.inl, n.pos, n.name = call.bb, call.line, 0, call.file, None, call.pos, getattr(v, "name", None)
                        n.x = dict(v.x)
                        if v.op == "getelementptr":
                            # index operands inside the path description have to be translated as well
                            path = []
                            okp = True
                            for el in v.x["gep"]:
                                if el[0] in ("*", "[]"):
                                    idx = M(el[1], depth + 1)
                                    if idx is None:
                                        okp = False
                                        break
                                    path.append((el[0], idx) + tuple(el[2:]))
                                else:
                                    path.append(el)
                            if not okp:
                                n = None
                            else:
                                n.x["gep"] = path
                        r = n
            memo[id(v)] = r
            return r
        out = []
        for (c2, o2, t2) in facts:
            if o2 not in (True, False):
                continue
            m = M(c2)
            if m is not None and not m.is_const:
                out.append((m, o2, br))
        return out

    def rel_facts(self, block, v):
        """[(bound value, strict)] for guards  v < b / v <= b  holding in block (v matched modulo casts)"""
        out = []
        vid = id(_uncast(v))
        for cond, outcome, br in self.guards(block):
            if not (cond.is_inst and cond.op == "icmp") or outcome not in (True, False):
                continue
            a, b = cond.ops
            p = cond.pred
            rel = {"ult": "<", "ule": "<=", "ugt": ">", "uge": ">=", "slt": "<", "sle": "<=", "sgt": ">", "sge": ">=",
                   "eq": "==", "ne": "!="}[p]
            if outcome is False:
                rel = {"<": ">=", "<=": ">", ">": "<=", ">=": "<", "==": "!=", "!=": "=="}[rel]
            flip = {"<": ">", "<=": ">=", ">": "<", ">=": "<=", "==": "==", "!=": "!="}
            for (x, y, r) in ((a, b, rel), (b, a, flip[rel])):
                if id(_uncast(x)) == vid or self._same_mem(x, v) or self._same_val(x, v):
                    if r in ("<", "<=", "=="):
                        out.append((y, r == "<"))
                elif x.is_const and x.is_int and v.is_const and v.is_int and v.uval <= x.uval and r in ("<", "<=", "=="):
                    # a constant at least as large as v is below y, hence so is v
                    out.append((y, r == "<"))
        return out

    def _same_val(self, x, v):
        """structurally the same computation over the same (unmodified) memory"""
        x, v = _uncast(x), _uncast(v)
        if x.is_inst and v.is_inst and x.op == "call" and v.op == "call" and norm_callee(x.callee) == "strlen" and \
                norm_callee(v.callee) == "strlen":
            return same_quantity(self.prog, self.f, x, v)
        if x.is_const or v.is_const or not (x.is_inst and v.is_inst) or x.op != v.op or x.op in ("load", "phi", "call"):
            return False
        return _same_expr(self.prog, self.f, x, v)

    def _same_mem(self, x, v):
        x, v = _uncast(x), _uncast(v)
        if x.is_inst and v.is_inst and x.op == "load" and v.op == "load":
            if not _same_loc(self.prog, self.f, x.ops[0], v.ops[0]) or self._store_between(x, v):
                return False
            import os
            from .memver import written_between
            if not os.environ.get("VERIF_MEMVER_OFF") and written_between(self.prog, self.f, x, v):
                return False
            return True
        return False

    def _store_between(self, a, b):
        """a store to the loaded location between two loads (same block only; conservative otherwise)"""
        if a.bb is b.bb:
            lo, hi = sorted((a.pos, b.pos))
            for i in a.bb.insts[lo:hi]:
                if i.op == "store" and _same_loc(self.prog, self.f, i.ops[1], a.ops[0]):
                    return True
            return False
        # different blocks: any store to the location that is dominated by one and dominates the other
        first, second = (a, b) if self.f.inst_dominates(a, b) else (b, a)
        for i in self.f.insts():
            if i.op == "store" and _same_loc(self.prog, self.f, i.ops[1], a.ops[0]) and \
                    self.f.inst_dominates(first, i) and self.f.inst_dominates(i, second):
                return True
        return False

    def is_cap(self, v, Q):
        """v *is* the capacity (or a constant within it)"""
        u = _uncast(v)
        if u.is_const and u.is_int:
            return Q.const is not None and u.uval <= Q.const
        for s in Q.syms:
            if same_quantity(self.prog, self.f, u, s):
                return True
        fid = field_id(u)
        if fid and fid in Q.fields:
            return True
        if fid and Q.fields:
            for (F, G) in field_invariants(self.prog):
                if F == fid and G in Q.fields:
                    return True
        return False

    # ---- the judgement
    def bounded(self, v, at, Q, depth=0, seen=None):
        """v <= capacity Q at instruction `at`"""
        if seen is None and getattr(at, "fn", None) is self.f:
            # a fresh question in this function: the values meet at `at` (memory versions, memver.py)
            from . import memver
            old = memver.USE_POINT[0]
            memver.USE_POINT[0] = at
            try:
                return self._bounded(v, at, Q, depth, seen)
            finally:
                memver.USE_POINT[0] = old
        return self._bounded(v, at, Q, depth, seen)

    def _bounded(self, v, at, Q, depth=0, seen=None):
        if seen is None:
            seen = set()
        key = (id(v), id(at.bb))
        if key in seen or depth > MAXD:
            return False
        seen = seen | {key}
        u = _uncast(v)
        if self.is_cap(u, Q):
            return True
        if Q.const is not None and bits_needed(v) <= Q.const.bit_length() and (1 << bits_needed(v)) - 1 <= Q.const:
            return True
        # guards at the point of use
        for (b, strict) in self.rel_facts(at.bb, u):
            if self.is_cap(b, Q) or self.bounded(b, at, Q, depth + 1, seen):
                return True
        if u.is_const:
            return False
        if u.is_arg:
            # the caller's obligation: every call site passes something bounded by the (transferable part of the) capacity
            Qt = Cap(const=Q.const, fields=Q.fields, desc=Q.desc)
            if not Qt.known() or depth > 6:
                return False
            cs = self.prog.callers_of(self.f)
            if not cs:
                return False
            for c in cs:
                if u.idx >= len(c.ops):
                    return False
                Bc = Bounder(self.prog, c.fn)
                if not Bc.bounded(c.ops[u.idx], c, Qt, depth + 3, None):
                    return False
            return True
        op = u.op
        if op in ("zext", "sext", "trunc"):
            return self.bounded(u.ops[0], at, Q, depth + 1, seen)
        if op == "and":
            for o in u.ops:
                if o.is_const and o.is_int and Q.const is not None and o.uval <= Q.const:
                    return True
            return any((not o.is_const) and self.bounded(o, at, Q, depth + 1, seen) for o in u.ops)
        if op == "urem":
            if u.ops[1].is_const and Q.const is not None and u.ops[1].uval - 1 <= Q.const:
                return True
            return self.bounded(u.ops[1], at, Q, depth + 1, seen)
        if op in ("lshr", "udiv"):
            return self.bounded(u.ops[0], at, Q, depth + 1, seen)
        if op == "sub":
            # x - y <= x  provided y <= x (guarded) -- or the difference itself is guarded (handled above)
            x, y = u.ops
            if self.bounded(x, at, Q, depth + 1, seen):
                if y.is_const or self._le_guarded(y, x, u):
                    return True
            return False
        if op == "select":
            c, t, e = u.ops
            # min(a, b): bounded if either arm is the smaller and bounded; general select: both arms bounded
            if self.bounded(t, at, Q, depth + 1, seen) and self.bounded(e, at, Q, depth + 1, seen):
                return True
            if c.is_inst and c.op == "icmp":
                a, b = c.ops
                if {id(_uncast(a)), id(_uncast(b))} == {id(_uncast(t)), id(_uncast(e))}:
                    lo_first = c.pred in ("ult", "ule", "slt", "sle")
                    picks_first = _uncast(t) is _uncast(a)
                    if lo_first == picks_first:      # min
                        return self.bounded(t, at, Q, depth + 1, seen) or self.bounded(e, at, Q, depth + 1, seen)
            return False
        if op == "phi":
            # every incoming value bounded, judged at the end of its predecessor (edge guards included)
            for val, pred in zip(u.ops, u.x["inc"]):
                if val is u:
                    continue
                if not self._bounded_on_edge(val, pred, u.bb, Q, depth + 1, seen):
                    return False
            return True
        if op == "call":
            if slot_call(u) == ("struct.sqfs_compressor_t", "do_block") and len(u.ops) >= 5:
                return self.bounded(u.ops[4], u, Q, depth + 1, seen)
            if norm_callee(u.callee) == "strlen":
                return False
            return False
        if op == "load":
            # memory-carried value: every store in this function that can supply it must be bounded where it happens
            loc = u.ops[0]
            if self._validated_outparam(u, at, Q):
                return True
            if self._field_via_callers(u, Q, depth):
                return True
            stores = [i for i in self.f.insts() if i.op == "store" and _same_loc(self.prog, self.f, i.ops[1], loc)]
            reaching = [s for s in stores if self._may_reach(s, u)]
            if not reaching or not any(self.f.inst_dominates(s, u) for s in reaching):
                if self._field_everywhere(u, Q, depth):
                    return True
            if not reaching:
                return False
            # a store that dominates the load kills earlier ones
            doms = [s for s in reaching if self.f.inst_dominates(s, u)]
            if doms:
                last = doms[0]
                for s in doms:
                    if self.f.inst_dominates(last, s):
                        last = s
                reaching = [s for s in reaching if s is last or (self.f.inst_dominates(last, s))]
            else:
                return False          # may also hold a value from before the function: unknown
            return all(self.bounded(s.ops[0], s, Q, depth + 1, seen) for s in reaching)
        if op == "add" and Q.const is not None:
            a_, b_ = u.ops
            if b_.is_const and b_.is_int and 0 <= b_.sval <= Q.const:
                return self.bounded(a_, at, Cap(const=Q.const - b_.sval, desc=Q.desc), depth + 1, seen)
            if a_.is_const and a_.is_int and 0 <= a_.sval <= Q.const:
                return self.bounded(b_, at, Cap(const=Q.const - a_.sval, desc=Q.desc), depth + 1, seen)
            return False
        if op in ("mul", "shl") and Q.fields and getattr(Q, "scale", 1) > 1:
            a_, b_ = u.ops
            k = None
            if op == "mul":
                if b_.is_const and b_.is_int:
                    k, x_ = b_.uval, a_
                elif a_.is_const and a_.is_int:
                    k, x_ = a_.uval, b_
            elif b_.is_const and b_.is_int and b_.uval < 32:
                k, x_ = 1 << b_.uval, a_
            if k is not None and 0 < k <= Q.scale:
                Q1 = Cap(const=None, fields=Q.fields, desc=Q.desc)
                if self.is_cap(x_, Q1) or self.bounded(x_, at, Q1, depth + 1, seen):
                    return True
        if op == "mul" and Q.const is not None:
            a_, b_ = u.ops
            if b_.is_const and b_.is_int and b_.uval > 0:
                return self.bounded(a_, at, Cap(const=Q.const // b_.uval, desc=Q.desc), depth + 1, seen)
            return False
        return False

    def _field_everywhere(self, load, Q, depth):
        """the value is an integer field that this function did not (certainly) set itself: it is bounded if every store
        to a field of that name in the whole program stores a bounded value (judged where the store happens; a capacity
        given by field names carries over, SSA symbols do not).  Objects are told apart by type and field name only."""
        fid = field_id(load)
        if not fid or depth > 5 or not (Q.fields or Q.const is not None):
            return False
        memo = self.prog.__dict__.setdefault("_field_everywhere", {})
        key = (fid, Q.const, tuple(sorted(Q.fields)))
        if key in memo:
            return memo[key]
        memo[key] = True            # co-inductive: a store of the field's own (bounded) value is fine
        Qt = Cap(const=Q.const, fields=Q.fields, desc=Q.desc)
        ok = True
        found = False
        for g in self.prog.functions():
            if g.decl:
                continue
            for i in g.insts():
                if i.op != "store":
                    continue
                p = strip_casts(i.ops[1])
                if not (p.is_inst and p.op == "getelementptr" and p.field()):
                    continue
                sn, n = p.field()
                if "%s.%s" % (re.sub(r"\.\d+$", "", sn).replace("struct.", ""), n) != fid:
                    continue
                found = True
                v = i.ops[0]
                if v.is_const and v.is_int and ((Q.const is not None and v.uval <= Q.const) or v.uval == 0):
                    continue
                Bg = Bounder(self.prog, g)
                if Bg.is_cap(v, Qt) or Bg.bounded(v, i, Qt, depth + 2):
                    continue
                ok = False
                break
            if not ok:
                break
        memo[key] = ok and found
        return memo[key]

    def _field_via_callers(self, load, Q, depth):
        """the value is a field of an object received as a parameter; it is bounded if in every caller the same field of
        the actual argument is bounded at the call (guards on a load of it, or stores into a local object)"""
        if depth > 6 or Q.const is None:
            return False
        base, off, exact = resolve_ptr(self.prog, load.ops[0], self.f.unit)
        b = strip_casts(base)
        if not (b.is_arg and exact):
            return False
        # the callee itself must not write the field before the load
        for i in self.f.insts():
            if i.op == "store" and _same_loc(self.prog, self.f, i.ops[1], load.ops[0]):
                return False
        cs = self.prog.callers_of(self.f)
        if not cs:
            return False
        Qt = Cap(const=Q.const, fields=Q.fields, desc=Q.desc)
        for c in cs:
            if b.idx >= len(c.ops):
                return False
            g = c.fn
            act = c.ops[b.idx]
            ab, aoff, aex = resolve_ptr(self.prog, act, g.unit)
            if not aex:
                return False
            Bg = Bounder(self.prog, g)
            ok = False
            # (a) loads of the same field in the caller with a bounding guard at the call
            for i in g.insts():
                if i.op == "load" and i.ty == load.ty:
                    lb, loff, lex = resolve_ptr(self.prog, i.ops[0], g.unit)
                    if lex and loff == aoff + off and (strip_casts(lb) is strip_casts(ab) or
                                                        _same_loc(self.prog, g, lb, ab) if False else strip_casts(lb) is strip_casts(ab)):
                        for (bv, strict) in Bg.rel_facts(c.bb, i):
                            if Bg.is_cap(bv, Qt) or Bg.bounded(bv, c, Qt, depth + 3):
                                ok = True
            # (b) the object is the caller's local and the field was stored before the call
            if not ok and strip_casts(ab).is_inst and strip_casts(ab).op == "alloca":
                sts = []
                for i in g.insts():
                    if i.op == "store":
                        sb, soff, sex = resolve_ptr(self.prog, i.ops[1], g.unit)
                        if sex and soff == aoff + off and strip_casts(sb) is strip_casts(ab):
                            sts.append(i)
                doms = [s_ for s_ in sts if g.inst_dominates(s_, c)]
                if doms and all(Bg.bounded(s_.ops[0], s_, Qt, depth + 3) for s_ in sts if g.inst_dominates(s_, c) or g.reaches(s_.bb, c.bb)):
                    ok = True
                # whole-struct copy into the local (ent = *other): give up
            # (c) the caller merely forwards its own parameter's field
            if not ok and strip_casts(ab).is_arg:
                fake = None
                for i in g.insts():
                    if i.op == "load" and i.ty == load.ty:
                        lb, loff, lex = resolve_ptr(self.prog, i.ops[0], g.unit)
                        if lex and loff == aoff + off and strip_casts(lb) is strip_casts(ab):
                            fake = i
                if fake is not None and Bg._field_via_callers(fake, Qt, depth + 2):
                    ok = True
            if not ok:
                return False
        return True

    def _validated_outparam(self, load, at, Q):
        """the value was produced through an out-parameter of a helper that range-checks it before reporting success,
        and the use is dominated by that helper's success:   if (get_size(hdr, &size)) fail;  use(size)"""
        from .effects import success_points
        loc = strip_casts(load.ops[0])
        if not (loc.is_inst and loc.op == "alloca") or Q.const is None:
            return False
        for c in self.f.uses.get(loc, []):
            if c.op != "call" or not c.callee or not self.f.inst_dominates(c, load):
                continue
            g = self.prog.fn(c.callee, self.f.unit)
            if g is None or g.decl:
                continue
            k = [i for i, a in enumerate(c.ops) if strip_casts(a) is loc]
            if not k:
                continue
            # the use must lie on the helper's success edge (result == 0)
            on_success = False
            for cond, outcome, br in self.guards(at.bb):
                if cond.is_inst and cond.op == "icmp" and cond.pred in ("eq", "ne") and strip_casts(cond.ops[0]) is c and \
                        cond.ops[1].is_const and cond.ops[1].is_int and cond.ops[1].sval == 0 and outcome == (cond.pred == "eq"):
                    on_success = True
            if not on_success:
                continue
            # no later writer of the local between the helper and the load
            later = [w for w in self.f.uses.get(loc, []) if w is not c and w.op in ("call", "store") and
                     self.f.inst_dominates(c, w) and self.f.inst_dominates(w, load)]
            if later:
                continue
            g.build()
            par = g.params[k[0]]
            Bg = Bounder(self.prog, g)
            ok = True
            pts = success_points(g)
            if not pts:
                ok = False
            for b in pts:
                found = False
                # `if (err) return err;` is not a success return: the value handed back is known non-zero there
                nonzero = False
                for r_ in g.rets():
                    rv = r_.ops[0] if r_.ops else None
                    if rv is not None and rv.is_inst and rv.op == "phi" and rv.bb is r_.bb:
                        rv = next((val for val, pr in zip(rv.ops, rv.x["inc"]) if pr is b), None)
                    elif r_.bb is not b:
                        rv = None
                    if rv is None or rv.is_const:
                        continue
                    for cond, outcome, br in g.guards_at(b):
                        if cond.is_inst and cond.op == "icmp" and cond.pred in ("eq", "ne") and _uncast(cond.ops[0]) is _uncast(rv) and \
                                cond.ops[1].is_const and cond.ops[1].is_int and cond.ops[1].sval == 0 and outcome == (cond.pred == "ne"):
                            nonzero = True
                if nonzero:
                    continue
                for cond, outcome, br in g.guards_at(b):
                    if not (cond.is_inst and cond.op == "icmp"):
                        continue
                    for o in cond.ops:
                        o2 = _uncast(o)
                        if o2.is_inst and o2.op == "load" and strip_casts(o2.ops[0]) is par:
                            for (bv, strict) in Bg.rel_facts(b, o2):
                                bv2 = _uncast(bv)
                                if bv2.is_arg and bv2.idx < len(c.ops):
                                    bv2 = _uncast(c.ops[bv2.idx])     # the limit is the helper's parameter
                                if bv2.is_const and bv2.is_int and bv2.uval <= Q.const:
                                    found = True
                if not found:
                    ok = False
            if ok:
                return True
        return False

    def _bounded_on_edge(self, val, pred, succ, Q, depth, seen):
        t = pred.term
        if self.is_cap(val, Q):
            return True
        # guard facts on the edge pred->succ itself
        if t.op == "br" and len(t.x["succ"]) == 2 and t.ops[0].is_inst and t.ops[0].op == "icmp":
            cond = t.ops[0]
            outcome = succ is t.x["succ"][0]
            a, b = cond.ops
            rel = {"ult": "<", "ule": "<=", "ugt": ">", "uge": ">=", "slt": "<", "sle": "<=", "sgt": ">", "sge": ">=",
                   "eq": "==", "ne": "!="}[cond.pred]
            if not outcome:
                rel = {"<": ">=", "<=": ">", ">": "<=", ">=": "<", "==": "!=", "!=": "=="}[rel]
            flip = {"<": ">", "<=": ">=", ">": "<", ">=": "<=", "==": "==", "!=": "!="}
            for (x, y, r) in ((a, b, rel), (b, a, flip[rel])):
                if (_uncast(x) is _uncast(val) or self._same_mem(x, val) or self._same_val(x, val) or
                        (x.is_const and val.is_const and x.is_int and val.is_int and x.uval == val.uval)) and r in ("<", "<=", "=="):
                    if self.is_cap(y, Q) or self.bounded(y, t, Q, depth + 1, seen):
                        return True
        return self.bounded(val, t, Q, depth, seen)

    def _le_guarded(self, y, x, at):
        """a dominating guard establishes y <= x (so x - y does not wrap)"""
        for (b, strict) in self.rel_facts(at.bb, y):
            if _uncast(b) is _uncast(x) or self._same_mem(b, x) or same_quantity(self.prog, self.f, b, x):
                return True
        # or: x >= y  written as guard on x
        for cond, outcome, br in self.guards(at.bb):
            if cond.is_inst and cond.op == "icmp":
                a, b = cond.ops
                for (p, q) in ((a, b), (b, a)):
                    pass
        return False

    def _may_reach(self, s, l):
        if s.bb is l.bb:
            return s.pos < l.pos or self.f.reaches(s.bb, l.bb) and s.bb in [x for x in s.bb.succs]
        return self.f.reaches(s.bb, l.bb)


def field_invariants(prog):
    """{(F, G)}: object invariants  obj.F <= obj.G  between two integer fields.  Source: a function that allocates n
    bytes and publishes, through a second out-parameter, only sizes that never exceed n (0, n itself, or values the
    bound engine proves <= n); a call binds the out-parameter to &obj->F and n to obj->G.  Kept only if every other
    store to F in the program is 0 or a copy of the same field, and G is stored only into freshly allocated objects."""
    if getattr(prog, "_field_inv", None) is not None:
        return prog._field_inv
    prog._field_inv = set()          # recursion guard: the bound engine consults the invariants
    cand = set()
    for f in prog.functions():
        if f.decl:
            continue
        allocs = [c for c in f.calls() if norm_callee(c.callee) in ALLOC_FNS]
        for al in allocs:
            nm = norm_callee(al.callee)
            raw = [al.ops[k] for k in ALLOC_FNS[nm] if k < len(al.ops) and not al.ops[k].is_const]
            if len(raw) != 1 or not _uncast(raw[0]).is_arg:
                continue
            m = _uncast(raw[0])
            for q in f.params:
                if not q.ty.endswith("*"):
                    continue
                sts = [j for j in f.insts() if j.op == "store" and strip_casts(j.ops[1]) is q]
                if not sts or any((getattr(j.ops[0], "ty", "") or j.x.get("vt", "")).endswith("*") for j in sts):
                    continue
                Bq = Bounder(prog, f)
                capq = Cap(syms=[raw[0]], desc="allocation size")
                if not all((j.ops[0].is_const and j.ops[0].is_int and j.ops[0].uval == 0) or Bq.is_cap(j.ops[0], capq) or
                           Bq.bounded(j.ops[0], j, capq) for j in sts):
                    continue
                for cs in prog.callers_of(f):
                    if q.idx >= len(cs.ops) or m.idx >= len(cs.ops):
                        continue
                    tq = strip_casts(cs.ops[q.idx])
                    G = field_id(cs.ops[m.idx])
                    if G and tq.is_inst and tq.op == "getelementptr" and tq.field():
                        sq, nq = tq.field()
                        F = "%s.%s" % (re.sub(r"\.\d+$", "", sq).replace("struct.", ""), nq)
                        if F.split(".")[0] == G.split(".")[0]:
                            cand.add((F, G))
    if cand:
        bad = set()
        for f in prog.functions():
            for i in f.insts():
                if i.op != "store":
                    continue
                p = strip_casts(i.ops[1])
                if not (p.is_inst and p.op == "getelementptr" and p.field()):
                    continue
                sn, n = p.field()
                fid = "%s.%s" % (re.sub(r"\.\d+$", "", sn).replace("struct.", ""), n)
                for (F, G) in cand:
                    if fid == F:
                        v = i.ops[0]
                        if not ((v.is_const and v.is_int and v.uval == 0) or field_id(v) == F):
                            bad.add((F, G))
                    elif fid == G:
                        base = strip_casts(p.ops[0])
                        if _alloc_of(prog, f, base) is None:
                            bad.add((F, G))
        cand -= bad
    prog._field_inv = cand
    return cand


def field_capacity(prog, sname, fname):
    """capacity of the buffer a pointer field (or flexible member) designates, from its allocation sites program-wide:
    Cap with field identities / constants; sites whose sizes are described differently become alternatives (a bound
    has to hold for every one of them).  None if no allocation site is found."""
    sites = []
    desc = "%s.%s" % (sname.replace("struct.", ""), fname)

    def add_site(fn, sizes, where):
        consts, fields = [], set()
        mult = _collect_size(prog, fn, sizes, consts, fields)
        sites.append(Cap(const=min(consts) if consts and not fields else None, fields=fields,
                         desc="%s @%s" % (desc, where)))
        if fields and mult and mult > 1 and len(fields) == 1:
            sites[-1].scale = mult

    for f in prog.functions():
        for i in f.insts():
            if i.op != "store":
                continue
            p = strip_casts(i.ops[1])
            if p.is_arg:
                # allocation handed out through a pointer parameter:  *out = alloc(n)  with  f(..., &obj->field)
                v = strip_casts(i.ops[0])
                al = _alloc_of(prog, f, v) if not (v.is_const and v.is_null) else None
                if al is None or al.op == "alloca":
                    continue
                for cs in prog.callers_of(f):
                    if p.idx >= len(cs.ops):
                        continue
                    t = strip_casts(cs.ops[p.idx])
                    if not (t.is_inst and t.op == "getelementptr" and t.field()):
                        continue
                    s_, n_ = t.field()
                    if re.sub(r"\.\d+$", "", s_) != sname or n_ != fname:
                        continue
                    nm = norm_callee(al.callee)
                    sizes = []
                    for k in ALLOC_FNS[nm]:
                        if k >= len(al.ops):
                            continue
                        a = al.ops[k]
                        ua = _uncast(a)
                        if ua.is_arg and ua.idx < len(cs.ops):
                            a = cs.ops[ua.idx]
                        sizes.append(a)
                    add_site(cs.fn, sizes, "%s:%d via %s" % (cs.file, cs.line, f.name))
                    # a second out-parameter through which the same function publishes a size that never exceeds
                    # the allocation: the field it is bound to is a valid lower bound of the capacity, too
                    raw = [al.ops[k] for k in ALLOC_FNS[nm] if k < len(al.ops) and not al.ops[k].is_const]
                    if len(raw) == 1:
                        for q in f.params:
                            if q is p or not q.ty.endswith("*") or q.idx >= len(cs.ops):
                                continue
                            sts = [j for j in f.insts() if j.op == "store" and strip_casts(j.ops[1]) is q]
                            if not sts or any((getattr(j.ops[0], "ty", "") or j.x.get("vt", "")).endswith("*") for j in sts):
                                continue
                            Bq = Bounder(prog, f)
                            capq = Cap(syms=[raw[0]], desc="allocation size")
                            if all((j.ops[0].is_const and j.ops[0].is_int and j.ops[0].uval == 0) or
                                   Bq.is_cap(j.ops[0], capq) or Bq.bounded(j.ops[0], j, capq) for j in sts):
                                tq = strip_casts(cs.ops[q.idx])
                                if tq.is_inst and tq.op == "getelementptr" and tq.field():
                                    sq, nq = tq.field()
                                    sites[-1].fields.add("%s.%s" % (re.sub(r"\.\d+$", "", sq).replace("struct.", ""), nq))
                continue
            if not (p.is_inst and p.op == "getelementptr" and p.field()):
                continue
            s_, n_ = p.field()
            if re.sub(r"\.\d+$", "", s_) != sname or n_ != fname:
                continue
            v = strip_casts(i.ops[0])
            if v.is_const and v.is_null:
                continue
            al = _alloc_of(prog, f, v)
            if al is None or al.op == "alloca":
                if v.is_inst and v.op == "load":
                    continue     # copied pointer (e.g. bit copy): not an allocation site
                return None
            nm = norm_callee(al.callee)
            sizes = [al.ops[k] for k in ALLOC_FNS[nm] if k < len(al.ops)]
            add_site(f, sizes, "%s:%d" % (i.file, i.line))
    if not sites:
        return None
    # merge sites that are described alike
    uniq = []
    for c in sites:
        for u in uniq:
            if u.const == c.const and u.fields == c.fields and u.scale == c.scale:
                break
        else:
            uniq.append(c)
    if len(uniq) == 1:
        u = uniq[0]
        r = Cap(const=u.const, fields=u.fields, desc=desc)
        r.scale = u.scale
        return r
    allf = set()
    for u in uniq:
        allf |= u.fields
    consts = [u.const for u in uniq if u.const is not None]
    return Cap(const=min(consts) if consts and not allf else None, fields=allf, desc=desc, alts=uniq)


def _collect_size(prog, f, sizes, consts, fields):
    """describe an allocation size: product of constants and one quantity"""
    c = 1
    syms = []
    for s in sizes:
        if s.is_const and s.is_int:
            c *= s.uval
        else:
            syms.append(s)
    if not syms:
        consts.append(c)
        return c
    # a product computed beforehand (size * count, also through the overflow-checked multiplication): its factors
    flat = []
    work = list(syms)
    while work:
        s = work.pop()
        u = _uncast(s)
        if u.is_inst and u.op == "mul":
            work += list(u.ops)
            continue
        if u.is_inst and u.op == "extractvalue" and u.x.get("idx") == [0] and u.ops[0].is_inst and u.ops[0].op == "call" \
                and (u.ops[0].callee or "").startswith("llvm.umul.with.overflow"):
            work += list(u.ops[0].ops[:2])
            continue
        if u.is_inst and u.op == "load":
            p = strip_casts(u.ops[0])
            if p.is_inst and p.op == "alloca":
                sts = [x for x in f.uses.get(p, []) if x.op == "store" and strip_casts(x.ops[1]) is p]
                if len(sts) == 1 and f.inst_dominates(sts[0], u):
                    work.append(sts[0].ops[0])
                    continue
        if u.is_const and u.is_int:
            c *= u.uval
            continue
        flat.append(s)
    syms = flat
    for s in syms:
        fid = field_id(s)
        if fid:
            fields.add(fid)
            continue
        u = _uncast(s)
        # a parameter that the same function also stores into a field: name it by that field
        for i in f.insts():
            if i.op == "store" and _uncast(i.ops[0]) is u:
                p = strip_casts(i.ops[1])
                if p.is_inst and p.op == "getelementptr" and p.field():
                    sn, n = p.field()
                    fields.add("%s.%s" % (re.sub(r"\.\d+$", "", sn).replace("struct.", ""), n))
        # or a value derived from a field (max/selection): collect loads in its slice
        for x in backward_slice(s):
            fid = field_id(x)
            if fid:
                fields.add(fid)
    return c


def flex_capacity_of_field(prog, holder, sname, _seen=None):
    """capacities of the flexible member of the `sname` objects that the pointer member `holder` = (struct, field) can
    designate: the allocation sites whose result is stored there, and -- for a pointer taken out of another member (a
    list head, a link, a cache) -- the sites of that member.  -> list of Cap (one per differently described site), or
    None if some value stored there has no known allocation (then nothing is claimed about the member)."""
    _seen = _seen if _seen is not None else set()
    if holder in _seen:
        return []
    _seen.add(holder)
    st = prog.struct(sname)
    if st is None:
        return None
    sites = []
    for f in prog.functions():
        if f.decl:
            continue
        for i in f.build().insts():
            if i.op != "store":
                continue
            p = strip_casts(i.ops[1])
            if not (p.is_inst and p.op == "getelementptr" and p.field()):
                continue
            s_, n_ = p.field()
            if (re.sub(r"\.\d+$", "", s_), n_) != holder:
                continue
            work, seen = [i.ops[0]], set()
            while work:
                v = strip_casts(work.pop())
                if id(v) in seen:
                    continue
                seen.add(id(v))
                if v.is_const:
                    continue            # NULL
                if v.is_inst and v.op in ("phi", "select"):
                    work.extend(v.ops if v.op == "phi" else v.ops[1:])
                    continue
                if v.is_inst and v.op == "call" and norm_callee(v.callee) in ALLOC_FNS:
                    nm = norm_callee(v.callee)
                    sizes = [v.ops[k] for k in ALLOC_FNS[nm] if k < len(v.ops)]
                    if nm == "alloc_flex":
                        if const_int(v.ops[0]) != st["size"]:
                            return None
                        sizes = [v.ops[1], v.ops[2]]
                    elif nm in ("malloc",):
                        # sizeof(*obj) + n
                        sz = _uncast(v.ops[0])
                        if sz.is_inst and sz.op == "add":
                            rest = [o for o in sz.ops if not (o.is_const and o.is_int and o.uval == st["size"])]
                            if len(rest) == 1:
                                sizes = [rest[0]]
                            else:
                                return None
                        else:
                            return None
                    else:
                        return None
                    consts, fields = [], set()
                    _collect_size(prog, f, sizes, consts, fields)
                    sites.append(Cap(const=min(consts) if consts and not fields else None, fields=fields,
                                     desc="flexible member of %s @%s:%d" % (sname.replace("struct.", ""), v.file, v.line)))
                    continue
                if v.is_inst and v.op == "load":
                    q = strip_casts(v.ops[0])
                    if q.is_inst and q.op == "getelementptr" and q.field():
                        s2, n2 = q.field()
                        sub = flex_capacity_of_field(prog, (re.sub(r"\.\d+$", "", s2), n2), sname, _seen)
                        if sub is None:
                            return None
                        sites += sub
                        continue
                    if q.is_inst and q.op == "alloca":
                        # a local that was filled through an out-parameter or plain stores
                        sts = [u for u in f.uses.get(q, []) if u.op == "store" and strip_casts(u.ops[1]) is q]
                        if sts and not any(u.op == "call" for u in f.uses.get(q, [])):
                            work.extend(u.ops[0] for u in sts)
                            continue
                    return None
                return None
    uniq = []
    for c in sites:
        for u in uniq:
            if u.const == c.const and u.fields == c.fields:
                break
        else:
            uniq.append(c)
    return uniq


def flex_capacity_sites(prog, sname):
    """one Cap per (differently described) alloc_flex site of struct sname"""
    st = prog.struct(sname)
    if st is None:
        return []
    sites = []
    for f in prog.functions():
        for c in f.calls("alloc_flex"):
            if const_int(c.ops[0]) != st["size"]:
                continue
            if not any(u.op == "bitcast" and u.ty.startswith("%" + sname) for u in f.uses.get(c, [])):
                continue
            consts, fields = [], set()
            _collect_size(prog, f, [c.ops[1], c.ops[2]], consts, fields)
            cap = Cap(const=min(consts) if consts and not fields else None, fields=fields,
                      desc="flexible member of %s @%s:%d" % (sname.replace("struct.", ""), c.file, c.line))
            if not any(u.const == cap.const and u.fields == cap.fields for u in sites):
                sites.append(cap)
    return sites


def flex_capacity(prog, sname):
    """capacity of the flexible array member of struct sname from alloc_flex(sizeof, item, count) sites"""
    consts, fields = [], set()
    st = prog.struct(sname)
    if st is None:
        return None
    found = False
    for f in prog.functions():
        for c in f.calls("alloc_flex"):
            if const_int(c.ops[0]) != st["size"]:
                continue
            # result cast to this struct?
            if not any(u.op == "bitcast" and u.ty.startswith("%" + sname) for u in f.uses.get(c, [])):
                continue
            found = True
            _collect_size(prog, f, [c.ops[1], c.ops[2]], consts, fields)
    if not found:
        return None
    return Cap(const=min(consts) if consts and not fields else None, fields=fields, desc="flexible member of " + sname.replace("struct.", ""))
