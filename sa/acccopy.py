"""H5 -- accumulated state is taken over by a copy.

A field that some function of the library updates from its own previous value (x->n += 1, x->used = x->used + k) holds
state that built up over the object's life.  A copy hook that allocates a fresh node of such a type (directly or in a
helper it reaches, e.g. by re-inserting every element through the public insert function) must take that state over:
by copying the whole node from a source node, or by reading the source's field.  Otherwise the copy answers later
queries (reference counts, fill levels) differently from the original although every pointer is in order.
"""
from .ir import strip_casts, norm_callee, ExternFn
from .util import backward_slice, resolve_ptr, struct_of_type
from .bounds import ALLOC_FNS


def _field_of_ptr(p):
    p = strip_casts(p)
    if p.is_inst and p.op == "getelementptr":
        return p.field()
    return None


def accumulating_fields(prog, unit_filter):
    """{(struct, field): store inst} for fields updated from their own previous value"""
    acc = {}
    for f in prog.functions():
        if f.decl or not unit_filter(f.unit.src):
            continue
        f.build()
        for i in f.insts():
            if i.op != "store" or i.ops[0].is_const or getattr(i.ops[0], "ty", "").endswith("*"):
                continue
            fl = _field_of_ptr(i.ops[1])
            if not fl:
                continue
            base = strip_casts(resolve_ptr(prog, i.ops[1], f.unit)[0])
            for x in backward_slice(i.ops[0], phi_control=False, limit=60):
                if x.is_inst and x.op == "load" and _field_of_ptr(x.ops[0]) == fl and x.op == "load":
                    # an arithmetic step between the load and the store
                    if any(y.is_inst and y.op in ("add", "sub") for y in backward_slice(i.ops[0], phi_control=False, limit=60)):
                        acc.setdefault((fl[0].split(".")[0] + "." + ".".join(fl[0].split(".")[1:]), fl[1]), i)
    return acc


def _alloc_struct(f, c):
    for u in f.uses.get(c, []):
        if u.op == "bitcast":
            t = struct_of_type(u.ty)
            if t:
                return t, u
    t = struct_of_type(c.ty)
    return (t, c) if t else (None, None)


def run_acccopy(chk, prog, rule, hooks, unit_filter, exempt_units=()):
    acc = accumulating_fields(prog, unit_filter)
    by_struct = {}
    for (s_, n_), st in acc.items():
        by_struct.setdefault(s_, []).append((n_, st))
    hookset = set(hooks)
    seen = set()
    n = 0
    for h in hooks:
        h.build()
        cl, _e, _u = prog.reachable_from([h], stop=lambda g: g in hookset and g is not h)
        clset = set(cl)
        for g in sorted(cl, key=lambda g: g.qname):
            if g.decl or not unit_filter(g.unit.src) or g.unit.src in exempt_units:
                continue
            # container helpers live in lib/util; anything else reached through a function-pointer slot of those
            # containers (hash / compare callbacks of other objects) is not part of this copy
            if g.unit is not h.unit and not g.unit.src.startswith("lib/util/"):
                continue
            g.build()
            for c in g.calls():
                nm = norm_callee(c.callee)
                if nm not in ALLOC_FNS or nm == "realloc":
                    continue
                t, val = _alloc_struct(g, c)
                if not t or t not in by_struct:
                    continue
                key = (h.qname, g.qname, c.line)
                if key in seen:
                    continue
                seen.add(key)
                n += 1
                chk.analysed(g)
                inst = "%s:%s@%d" % (h.name, g.name, c.line)
                whole = False
                for m in g.calls():
                    if norm_callee(m.callee) in ("memcpy", "memmove"):
                        db = strip_casts(resolve_ptr(prog, m.ops[0], g.unit)[0])
                        if (db is c or db is val) and resolve_ptr(prog, m.ops[0], g.unit)[1] == 0:
                            sb = strip_casts(resolve_ptr(prog, m.ops[1], g.unit)[0])
                            if sb is not c and sb is not val:
                                whole = True
                missing = []
                if not whole:
                    for (fld, st) in by_struct[t]:
                        # state that the rebuild itself re-creates (the function that accumulates it is part of this copy,
                        # e.g. the element count of a container filled by re-inserting) is not lost
                        if st.bb.fn in clset:
                            continue
                        got = False
                        for i in g.insts():
                            if i.op == "load":
                                fl = _field_of_ptr(i.ops[0])
                                if fl and fl[1] == fld and fl[0] == t:
                                    b = strip_casts(resolve_ptr(prog, i.ops[0], g.unit)[0])
                                    if b is not c and b is not val:
                                        got = True
                        if not got:
                            missing.append((fld, st))
                if not missing:
                    chk.ok(rule, inst, c, "the node allocated for the copy takes over the accumulated fields of %s (%s)" % (
                        t.replace("struct.", ""), "whole-node copy" if whole else "field-wise"))
                else:
                    fld, st = missing[0]
                    chk.violation(rule, inst, c, "%s builds the copy's %s nodes afresh: field '%s', which %s accumulates over the "
                                  "object's life (line %d), is not taken over from the original, so the copy does not behave like it" % (
                                      h.name, t.replace("struct.", ""), fld, st.bb.fn.name, st.line))
    return n


def mutable_scalar_fields(prog, sname, unit_filter, skip_fns):
    """{field: store} scalar fields of struct sname that code outside its constructors / copy / destroy functions
    writes: state the object acquires while it is used"""
    out = {}
    for f in prog.functions():
        if f.decl or not unit_filter(f.unit.src) or f in skip_fns:
            continue
        f.build()
        # constructors: functions that allocate the struct themselves
        if any(norm_callee(c.callee) in ALLOC_FNS and (_alloc_struct(f, c)[0] == sname) for c in f.calls()):
            continue
        for i in f.insts():
            if i.op != "store" or (getattr(i.ops[0], "ty", "") or i.x.get("vt", "")).endswith("*"):
                continue
            fl = _field_of_ptr(i.ops[1])
            if fl and fl[0] == sname and "." not in fl[1]:
                q = strip_casts(i.ops[1])
                # top-level scalar members only (embedded containers have their own copy routines)
                if len(q.fields() or []) == 1:
                    out.setdefault(fl[1], i)
    return out


def run_statecopy(chk, prog, rule, hooks, unit_filter):
    """H7-state: a copy hook that does not duplicate its object wholesale (memcpy of the whole struct) takes over every
    scalar member that the library writes while the object is in use -- read from the source somewhere in the hook."""
    n = 0
    hookset = set(hooks)
    for h in hooks:
        h.build()
        if not h.params:
            continue
        src = h.params[0]
        allocs = [c for c in h.calls() if norm_callee(c.callee) in ALLOC_FNS and norm_callee(c.callee) != "realloc"]
        for c in allocs:
            t, val = _alloc_struct(h, c)
            if not t:
                continue
            # is it the object handed back?
            whole = False
            for m in h.calls():
                if norm_callee(m.callee) in ("memcpy", "memmove") and len(m.ops) >= 3:
                    db = strip_casts(resolve_ptr(prog, m.ops[0], h.unit)[0])
                    sb = strip_casts(resolve_ptr(prog, m.ops[1], h.unit)[0])
                    if (db is c or db is val) and resolve_ptr(prog, m.ops[0], h.unit)[1] == 0 and (sb is src or strip_casts(sb) is src):
                        whole = True
            srcty = None
            for u in h.uses.get(src, []):
                if u.op == "bitcast":
                    srcty = struct_of_type(u.ty) or srcty
            if srcty != t:
                continue
            n += 1
            chk.analysed(h)
            inst = "%s:%s" % (h.name, t.replace("struct.", ""))
            if whole:
                chk.ok(rule, inst, c, "the object is duplicated wholesale before its members are replaced")
                continue
            state = mutable_scalar_fields(prog, t, unit_filter, hookset)
            missing = []
            for fld, st in sorted(state.items()):
                got = False
                for i in h.insts():
                    if i.op == "load":
                        fl = _field_of_ptr(i.ops[0])
                        if fl and fl[0] == t and fl[1] == fld:
                            b = strip_casts(resolve_ptr(prog, i.ops[0], h.unit)[0])
                            if b is src or strip_casts(b) is src:
                                got = True
                if not got:
                    missing.append((fld, st))
            if not missing:
                chk.ok(rule, inst, c, "built member by member; every scalar the library writes during use (%s) is read from the original"
                       % ", ".join(sorted(state)))
            else:
                fld, st = missing[0]
                chk.violation(rule, inst, c, "the copy is built member by member and '%s' is not taken over: %s writes it while the "
                              "object is in use (line %d), so a copy taken at that moment starts from a different state than "
                              "the original" % (fld, st.bb.fn.name, st.line))
    return n
