"""K5: error-discipline facts (which functions can fail for fault-model reasons, who drops results)."""
from .ir import strip_casts, norm_callee, ExternFn
from .effects import Effects, slot_call

ALLOC_EXT = {"malloc", "calloc", "realloc", "strdup", "strndup", "reallocarray"}
ALLOC_PROJECT = {"alloc_flex", "alloc_array"}
IO_EXT = {"read", "write", "pread", "pwrite", "pread64", "pwrite64", "open", "open64", "openat", "openat64", "lseek",
          "lseek64", "ftruncate", "ftruncate64", "fstat", "fstat64", "stat", "lstat", "fstatat", "mkdir", "symlink",
          "mknod", "chdir", "unlink", "opendir", "fdopendir", "readdir", "readlink", "readlinkat", "getxattr",
          "lgetxattr", "llistxattr", "lsetxattr", "fchownat", "fchmodat", "utimensat", "dup", "fopen", "fread",
          "pthread_create", "pthread_mutex_init", "pthread_cond_init", "close", "fclose", "__xstat", "__lxstat",
          "__fxstat", "getline", "fgets"}
FAULT_SLOTS_STRUCTS = ("struct.sqfs_file_t", "struct.sqfs_istream_t", "struct.sqfs_ostream_t")


def is_fault_source(i):
    if i.op != "call":
        return False
    n = norm_callee(i.callee)
    if n in ALLOC_EXT or n in IO_EXT:
        return True
    sc = slot_call(i)
    return sc is not None and sc[0] in FAULT_SLOTS_STRUCTS


def ret_values(f):
    """leaf values that may be returned (through phis/selects)"""
    out = []
    seen = set()
    stack = [r.ops[0] for r in f.rets() if r.ops]
    while stack:
        v = stack.pop()
        if id(v) in seen:
            continue
        seen.add(id(v))
        if v.is_inst and v.op == "phi":
            stack.extend(v.ops)
        elif v.is_inst and v.op == "select":
            stack.extend(v.ops[1:])
        else:
            out.append(v)
    return out


def may_return_nonzero(f):
    if f.ret not in ("i32", "i64", "i16"):
        return False
    for v in ret_values(f):
        if v.is_const:
            if v.is_int and v.sval != 0:
                return True
        else:
            return True
    return False


class ErrModel:
    def __init__(self, prog):
        self.prog = prog
        self.eff = Effects(prog)
        self.fault_reach = self.eff.closure("fault", is_fault_source)
        self.err = {f for f in self.fault_reach if may_return_nonzero(f)}

    def call_is_err(self, c):
        """call whose int result can signal a fault-originated failure"""
        if c.op != "call" or c.ty not in ("i32", "i64", "i16"):
            return False
        sc = slot_call(c)
        if sc is not None and sc[0] in FAULT_SLOTS_STRUCTS:
            return True
        ts, ok = self.prog.call_targets(c)
        return any((not isinstance(t, ExternFn)) and t in self.err for t in ts)


def ret_sources(f):
    """[(leaf value, block that selects it)] for everything the function may return (nested phis expanded)"""
    out = []
    for r in f.rets():
        if not r.ops:
            continue
        seen = set()
        stack = [(r.ops[0], r.bb)]
        while stack:
            v, b = stack.pop()
            if (id(v), id(b)) in seen:
                continue
            seen.add((id(v), id(b)))
            w = v
            while w.is_inst and w.op in ("trunc", "zext", "sext") and w.ops[0].is_inst and w.ops[0].op in ("phi", "trunc", "zext", "sext"):
                w = w.ops[0]
            if w.is_inst and w.op == "phi":
                for val, pred in zip(w.ops, w.x["inc"]):
                    stack.append((val, pred))
            elif w.is_inst and w.op == "select":
                stack.append((w.ops[1], b))
                stack.append((w.ops[2], b))
            elif w.is_inst and w.op == "call" and w.callee and _passthrough(f, w) is not None:
                # `return cleanup_and_fail(x, y, err);` with a static helper that hands one of its parameters back
                stack.append((w.ops[_passthrough(f, w)], b))
            else:
                out.append((v, b))
    return out


_PT = {}


def _passthrough(f, call):
    """index of the parameter a same-unit helper returns unchanged on every path, else None"""
    prog = f.unit.program
    h = prog.fn(call.callee, f.unit)
    if h is None or h.decl or h.unit is not f.unit or h is f:
        return None
    if h in _PT:
        return _PT[h]
    _PT[h] = None
    h.build()
    ks = set()
    for r in h.rets():
        if not r.ops:
            return None
        seen, st = set(), [r.ops[0]]
        while st:
            v = st.pop()
            if id(v) in seen:
                continue
            seen.add(id(v))
            while v.is_inst and v.op in ("trunc", "zext", "sext", "bitcast"):
                v = v.ops[0]
            if v.is_inst and v.op == "phi":
                st.extend(v.ops)
            elif v.is_arg:
                ks.add(v.idx)
            else:
                return None
    if len(ks) == 1 and next(iter(ks)) < len(call.ops):
        _PT[h] = next(iter(ks))
    return _PT[h]


def consistent_reach(f, start, value, fact, targets):
    """blocks in `targets` reachable from block `start` when SSA `value` is known to satisfy fact
    ('nonzero' | 'negative' | 'null'); branches that test the same SSA value are followed only on the consistent side"""
    hit = set()
    seen, stack = set(), [start]
    while stack:
        b = stack.pop()
        if b in seen:
            continue
        seen.add(b)
        if b in targets:
            hit.add(b)
        t = b.term
        nxt = list(b.succs)
        if t.op == "br" and len(t.x["succ"]) == 2:
            c = t.ops[0]
            if c.is_inst and c.op == "icmp" and strip_casts(c.ops[0]) is value and c.ops[1].is_const and \
                    (c.ops[1].is_null or (c.ops[1].is_int and c.ops[1].sval == 0)):
                p = c.pred
                truth = None
                if fact in ("nonzero", "negative"):
                    if p == "eq":
                        truth = False
                    elif p == "ne":
                        truth = True
                if fact == "negative":
                    if p in ("slt", "sle"):
                        truth = True
                    elif p in ("sgt", "sge"):
                        truth = False
                if fact == "null":
                    if p == "eq":
                        truth = True
                    elif p == "ne":
                        truth = False
                if truth is True:
                    nxt = [t.x["succ"][0]]
                elif truth is False:
                    nxt = [t.x["succ"][1]]
        stack.extend(nxt)
    return hit


def failure_edges(f, call, pointer=False):
    """[(successor block, fact)] edges on which the result of `call` is known to signal failure"""
    out = []
    for u in f.uses.get(call, []):
        if u.op != "icmp":
            continue
        z = u.ops[1]
        if not (z.is_const and (z.is_null or (z.is_int and z.sval == 0))) or strip_casts(u.ops[0]) is not call:
            continue
        for br in f.uses.get(u, []):
            if br.op != "br" or len(br.x["succ"]) != 2:
                continue
            s0, s1 = br.x["succ"]
            if pointer:
                if u.pred == "eq":
                    out.append((s0, "null"))
                elif u.pred == "ne":
                    out.append((s1, "null"))
            else:
                if u.pred == "ne":
                    out.append((s0, "nonzero"))
                elif u.pred == "eq":
                    out.append((s1, "nonzero"))
                elif u.pred == "slt":
                    out.append((s0, "negative"))
                elif u.pred == "sge":
                    out.append((s1, "negative"))
    return out
