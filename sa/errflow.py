"""K5: error-discipline facts (which functions can fail for fault-model reasons, who drops results)."""
from .ir import strip_casts, norm_callee, ExternFn
from .effects import Effects, slot_call

ALLOC_EXT = {"malloc", "calloc", "realloc", "strdup", "strndup", "reallocarray"}
ALLOC_PROJECT = {"alloc_flex", "alloc_array"}
IO_EXT = {"read", "write", "pread", "pwrite", "pread64", "pwrite64", "open", "open64", "openat", "openat64", "lseek",
          "lseek64", "ftruncate", "ftruncate64", "fstat", "fstat64", "stat", "lstat", "fstatat", "mkdir", "symlink",
          "mknod", "chdir", "unlink", "opendir", "fdopendir", "readdir", "readlink", "readlinkat", "getxattr",
          "lgetxattr", "llistxattr", "lsetxattr", "fchownat", "fchmodat", "utimensat", "dup", "fopen", "fread",
          "pthread_create", "pthread_mutex_init", "pthread_cond_init", "close", "fclose", "__xstat", "__lxstat",
          "__fxstat", "getline", "fgets"}
FAULT_SLOTS_STRUCTS = ("struct.sqfs_file_t", "struct.sqfs_istream_t", "struct.sqfs_ostream_t")


def is_fault_source(i):
    if i.op != "call":
        return False
    n = norm_callee(i.callee)
    if n in ALLOC_EXT or n in IO_EXT:
        return True
    sc = slot_call(i)
    return sc is not None and sc[0] in FAULT_SLOTS_STRUCTS


def ret_values(f):
    """leaf values that may be returned (through phis/selects)"""
    out = []
    seen = set()
    stack = [r.ops[0] for r in f.rets() if r.ops]
    while stack:
        v = stack.pop()
        if id(v) in seen:
            continue
        seen.add(id(v))
        if v.is_inst and v.op == "phi":
            stack.extend(v.ops)
        elif v.is_inst and v.op == "select":
            stack.extend(v.ops[1:])
        else:
            out.append(v)
    return out


def may_return_nonzero(f):
    if not f.ret.startswith("i") or f.ret == "i1":
        return False
    for v in ret_values(f):
        if v.is_const:
            if v.is_int and v.sval != 0:
                return True
        else:
            return True
    return False


class ErrModel:
    def __init__(self, prog):
        self.prog = prog
        self.eff = Effects(prog)
        self.fault_reach = self.eff.closure("fault", is_fault_source)
        self.err = {f for f in self.fault_reach if may_return_nonzero(f)}

    def call_is_err(self, c):
        """call whose int result can signal a fault-originated failure"""
        if c.op != "call" or not (c.ty.startswith("i") and c.ty not in ("i1", "i8")):
            return False
        sc = slot_call(c)
        if sc is not None and sc[0] in FAULT_SLOTS_STRUCTS:
            return True
        ts, ok = self.prog.call_targets(c)
        return any((not isinstance(t, ExternFn)) and t in self.err for t in ts)
