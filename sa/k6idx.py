"""K6 (indexed form): a store through base[idx] where base is a table handed in by the caller (pointer parameter) and
idx is a counter that only grows must be dominated by an upper-bound test of the counter (the table's size is the
caller's knowledge; an untested counter can run past it)."""
from .ir import strip_casts, norm_callee
from .util import resolve_ptr, backward_slice, const_int
from .bounds import _uncast

SCOPE = ("lib/sqfs/src/", "lib/common/src/writer/", "lib/fstree/src/", "lib/util/src/", "bin/gensquashfs/src/", "bin/tar2sqfs/src/")


def _is_counter(v):
    """v belongs to a web of phis that is fed by  member + positive constant  (a counter that only grows)"""
    v = _uncast(v)
    if not (v.is_inst and v.op == "phi"):
        return False
    web, stack = [], [v]
    while stack:
        x = stack.pop()
        if any(x is w for w in web):
            continue
        web.append(x)
        for o in x.ops:
            o = _uncast(o)
            if o.is_inst and o.op == "phi":
                stack.append(o)
    for x in web:
        for o in x.ops:
            o = _uncast(o)
            steps = 0
            # member + c1 + c2 + ...  (count++ several times per round)
            while o.is_inst and o.op == "add" and o.ops[1].is_const and o.ops[1].sval > 0 and steps < 8:
                o = _uncast(o.ops[0])
                steps += 1
                if any(o is w for w in web):
                    return True
    return False


def run_k6idx(chk, prog, rule="K6-index", files=None):
    n = 0
    for f in prog.functions():
        if "/test/" in f.unit.src or (files is None and not f.unit.src.startswith(SCOPE)) or \
                (files is not None and f.unit.src not in files):
            continue
        for i in f.insts():
            if i.op != "store":
                continue
            p = strip_casts(i.ops[1])
            if not (p.is_inst and p.op == "getelementptr"):
                continue
            path = p.x["gep"]
            if len(path) != 1 or path[0][0] != "*":
                continue       # base[idx] on a plain pointer only
            idx = path[0][1]
            if idx.is_const:
                continue
            # idx or idx-1 / idx+k where idx is a counter
            cnt = None
            for x in backward_slice(idx, phi_control=False):
                if _is_counter(x):
                    cnt = _uncast(x)
                    break
            if cnt is None:
                continue
            base = strip_casts(p.ops[0])
            b0 = strip_casts(resolve_ptr(prog, base, f.unit)[0])
            if not b0.is_arg:
                continue       # caller-provided table: its element count is not visible here unless it is tested
            n += 1
            chk.analysed(f)
            inst = "%s:[%s]@%d" % (f.name, cnt.name or "i", i.line)
            ok = False
            for cond, outcome, br in f.guards_at(i.bb):
                if not (cond.is_inst and cond.op == "icmp"):
                    continue
                a, b = cond.ops
                pa = any(x is cnt for x in backward_slice(a, phi_control=False))
                pb = any(x is cnt for x in backward_slice(b, phi_control=False))
                pr = cond.pred
                if pa and not pb:
                    if (pr in ("ult", "ule", "slt", "sle") and outcome is True) or (pr in ("uge", "ugt", "sge", "sgt", "eq") and outcome is False and pr != "eq"):
                        ok = True
                    if pr == "ne" and outcome is True:
                        ok = True      # i != n as loop bound
                if pb and not pa:
                    if (pr in ("ugt", "uge", "sgt", "sge") and outcome is True) or (pr in ("ule", "ult", "sle", "slt") and outcome is False):
                        ok = True
            if ok:
                chk.ok(rule, inst, i, "the counter is tested against an upper bound on every path to the store")
            else:
                chk.violation(rule, inst, i, "store through a pointer indexed by the counter '%s', which is incremented without ever "
                              "being compared with the size of the block it indexes: one element too many overruns the heap" % (cnt.name or "i"))
    return n
