"""K6 (indexed form): a store through base[idx] where base is a table handed in by the caller (pointer parameter) and
idx is a counter that only grows must be dominated by an upper-bound test of the counter (the table's size is the
caller's knowledge; an untested counter can run past it)."""
from .ir import strip_casts, norm_callee
from .util import resolve_ptr, backward_slice, const_int
from .bounds import _uncast

SCOPE = ("lib/sqfs/src/", "lib/common/src/writer/", "lib/fstree/src/", "lib/util/src/", "bin/gensquashfs/src/", "bin/tar2sqfs/src/")


def _is_counter(v):
    """v belongs to a web of phis that is fed by  member + positive constant  (a counter that only grows)"""
    v = _uncast(v)
    if not (v.is_inst and v.op == "phi"):
        return False
    web, stack = [], [v]
    while stack:
        x = stack.pop()
        if any(x is w for w in web):
            continue
        web.append(x)
        for o in x.ops:
            o = _uncast(o)
            if o.is_inst and o.op == "phi":
                stack.append(o)
    for x in web:
        for o in x.ops:
            o = _uncast(o)
            steps = 0
            # member + c1 + c2 + ...  (count++ several times per round)
            while o.is_inst and o.op == "add" and o.ops[1].is_const and o.ops[1].sval > 0 and steps < 8:
                o = _uncast(o.ops[0])
                steps += 1
                if any(o is w for w in web):
                    return True
    return False


def _web_of(v):
    v = _uncast(v)
    web, stack = [], [v]
    while stack:
        x = stack.pop()
        if any(x is w for w in web):
            continue
        web.append(x)
        for o in x.ops:
            o = _uncast(o)
            if o.is_inst and o.op == "phi":
                stack.append(o)
            elif o.is_inst and o.op == "add" and o.ops[1].is_const:
                b = _uncast(o.ops[0])
                if b.is_inst and b.op == "phi":
                    stack.append(b)
    return [w for w in web if w.is_inst and w.op == "phi"]


def _web_incs(web):
    """(add instruction, step) for every `member + c` that flows back into the web; other values that flow in"""
    incs, inits = [], []
    for x in web:
        for o in x.ops:
            o = _uncast(o)
            if any(o is w for w in web):
                continue
            y, step, k = o, 0, 0
            while y.is_inst and y.op == "add" and y.ops[1].is_const and k < 8:
                step += y.ops[1].sval
                y = _uncast(y.ops[0])
                k += 1
                if any(y is w for w in web):
                    break
            if any(y is w for w in web) and o.is_inst:
                incs.append((o, step))
            else:
                inits.append(o)
    return incs, inits


def _inplace(prog, f, st, cnt, b0):
    """the store goes into the very buffer the function scans as a NUL terminated string (in-place rewriting).  Returns
    None (it is not that), "proved" (the write index never passes the read index: every advance of the write index is
    matched by an advance of the read index on the way to it, both start at the same place) or "undecided"."""
    W = _web_of(cnt)
    reads = []
    for ld in f.insts():
        if ld.op != "load" or ld.ty != "i8":
            continue
        q = strip_casts(ld.ops[0])
        if not (q.is_inst and q.op == "getelementptr"):
            continue
        if strip_casts(resolve_ptr(prog, q.ops[0], f.unit)[0]) is not b0:
            continue
        for x in backward_slice(q, phi_control=False):
            if _is_counter(x) and not any(_uncast(x) is w for w in W):
                # the scan stops at the terminator: the byte read is compared with 0 somewhere
                work, seen, nul = [ld], set(), False
                while work and not nul:
                    v = work.pop()
                    if id(v) in seen:
                        continue
                    seen.add(id(v))
                    for u in f.uses.get(v, []):
                        if u.op in ("zext", "sext", "trunc"):
                            work.append(u)
                        elif u.op == "icmp" and any(o.is_const and o.is_int and o.sval == 0 for o in u.ops):
                            nul = True
                if nul:
                    reads.append(_uncast(x))
                break
    if not reads:
        return None
    R = _web_of(reads[0])
    w_incs, w_inits = _web_incs(W)
    r_incs, r_inits = _web_incs(R)
    if any(step <= 0 for (_a, step) in r_incs) or any(step != 1 for (_a, step) in w_incs):
        return "undecided"
    if not all(o.is_const and o.is_int and o.sval == 0 for o in w_inits):
        return "undecided"
    if not all((o.is_const and o.is_int and o.sval >= 0) for o in r_inits):
        return "undecided"          # the read index is set from something else (a helper's answer): not followed
    rblocks = {a.bb for (a, _s) in r_incs}
    wblocks = {a.bb for (a, _s) in w_incs}
    # every way from the entry or from an advance of the write index to (the next) advance of the write index passes an
    # advance of the read index
    for start in [None] + list(wblocks):
        seen, work = set(), ([f.blocks[0]] if start is None else list(start.succs))
        while work:
            b = work.pop()
            if b in seen:
                continue
            seen.add(b)
            if b in rblocks:
                continue
            if b in wblocks:
                return "undecided"
            work.extend(b.succs)
    return "proved"


def _always_own_allocation(prog, f, par):
    """every call of the static function f passes, for this parameter, a block its caller allocated itself"""
    k = next((i for i, a in enumerate(f.params) if a is par), None)
    cs = prog.callers_of(f)
    if k is None or not cs:
        return False
    for c in cs:
        g = c.fn
        g.build()
        if k >= len(c.ops):
            return False
        v = strip_casts(c.ops[k])
        srcs, seen, work = [], set(), [v]
        while work:
            x = strip_casts(work.pop())
            if id(x) in seen:
                continue
            seen.add(id(x))
            if x.is_inst and x.op == "phi":
                work.extend(x.ops)
            else:
                srcs.append(x)
        if not srcs or not all(x.is_inst and x.op == "call" and norm_callee(x.callee) in ("malloc", "calloc", "alloc_array", "alloc_flex")
                               for x in srcs):
            return False
    return True


def run_k6idx(chk, prog, rule="K6-index", files=None):
    n = 0
    for f in prog.functions():
        if "/test/" in f.unit.src or (files is None and not f.unit.src.startswith(SCOPE)) or \
                (files is not None and f.unit.src not in files):
            continue
        for i in f.insts():
            if i.op != "store":
                continue
            p = strip_casts(i.ops[1])
            if not (p.is_inst and p.op == "getelementptr"):
                continue
            path = p.x["gep"]
            if len(path) != 1 or path[0][0] != "*":
                continue       # base[idx] on a plain pointer only
            idx = path[0][1]
            if idx.is_const:
                continue
            # idx or idx-1 / idx+k where idx is a counter
            cnt = None
            for x in backward_slice(idx, phi_control=False):
                if _is_counter(x):
                    cnt = _uncast(x)
                    break
            if cnt is None:
                continue
            base = strip_casts(p.ops[0])
            b0 = strip_casts(resolve_ptr(prog, base, f.unit)[0])
            if not b0.is_arg:
                continue       # caller-provided table: its element count is not visible here unless it is tested
            if f.internal and _always_own_allocation(prog, f, b0):
                continue       # a static helper of the function that allocated the table: as if the loop were inlined there
            n += 1
            chk.analysed(f)
            inst = "%s:[%s]@%d" % (f.name, cnt.name or "i", i.line)
            ok = False
            for cond, outcome, br in f.guards_at(i.bb):
                if not (cond.is_inst and cond.op == "icmp"):
                    continue
                a, b = cond.ops
                pa = any(x is cnt for x in backward_slice(a, phi_control=False))
                pb = any(x is cnt for x in backward_slice(b, phi_control=False))
                pr = cond.pred
                if pa and not pb:
                    if (pr in ("ult", "ule", "slt", "sle") and outcome is True) or (pr in ("uge", "ugt", "sge", "sgt", "eq") and outcome is False and pr != "eq"):
                        ok = True
                    if pr == "ne" and outcome is True:
                        ok = True      # i != n as loop bound
                if pb and not pa:
                    if (pr in ("ugt", "uge", "sgt", "sge") and outcome is True) or (pr in ("ule", "ult", "sle", "slt") and outcome is False):
                        ok = True
            inpl = None if ok else _inplace(prog, f, i, cnt, b0)
            if ok:
                chk.ok(rule, inst, i, "the counter is tested against an upper bound on every path to the store")
            elif inpl == "proved":
                chk.ok(rule, inst, i, "in-place rewriting of the string the function scans: the write index starts where the read "
                       "index starts and every advance of it is matched by an advance of the read index, so each store lands on a "
                       "byte the scan has already read")
            elif inpl == "undecided":
                # the bound of an in-place rewrite is the terminator the scan stops at, not a size the counter could be
                # compared with; where write index <= read index is not evident the rule has no verdict (the pointer-cursor
                # form of the same code is not decided by any rule either, see DESIGN 8.5)
                chk.note("%s: %s: in-place rewrite of a scanned string, write index <= read index not evident: not decided" % (rule, inst))
            else:
                chk.violation(rule, inst, i, "store through a pointer indexed by the counter '%s', which is incremented without ever "
                              "being compared with the size of the block it indexes: one element too many overruns the heap" % (cnt.name or "i"))
    return n
