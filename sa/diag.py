"""E9 (C13): a failure that ends the run is reported.

Bottom-up summary  U(F) = "F can hand a fault-originated failure to its caller without anybody having printed a
diagnostic on the way"; a violation is a place in main where the failure of a call to a U function (or of a fault
source itself) leads to the exit without a reporting call on the path.  Library functions are U by design (they
return codes, the tools print); tool helpers either print themselves or are U and their callers print.
"""
from .ir import norm_callee, strip_casts, ExternFn
from .errflow import is_fault_source, ret_values
from .effects import slot_call

# name -> index of the FILE* operand (None: always the error stream)
REPORT_EXT = {"perror": None, "fprintf": 0, "vfprintf": 0, "fputs": 1, "fputc": 1, "putc": 1, "fwrite": 3,
              "fputs_unlocked": 1, "__fprintf_chk": 0, "__vfprintf_chk": 0}


def _to_stderr(i):
    nm = norm_callee(i.callee)
    k = REPORT_EXT.get(nm, -1)
    if k == -1:
        return False
    if k is None:
        return True
    if k >= len(i.ops):
        return False
    v = strip_casts(i.ops[k])
    if v.is_inst and v.op == "load":
        g = strip_casts(v.ops[0])
        return bool(g.is_const and g.gname == "stderr")
    return False
NEVER_REPORT = {"sqfs_drop", "free", "sqfs_free"}
ZERO_OR_MINUS1 = {"chdir", "mkdir", "unlink", "fstat", "stat", "lstat", "ftruncate", "close", "fclose", "symlink", "mknod",
                  "fchownat", "fchmodat", "utimensat", "lsetxattr", "pthread_create", "pthread_mutex_init",
                  "pthread_cond_init", "fchdir", "chroot"}


class Diag:
    def __init__(self, prog, em, tristate, walk, zero_known):
        self.prog, self.em = prog, em
        # functions that return counts or states next to negative error codes: only a negative result is a failure
        self.T = set(tristate)
        for f in prog.functions():
            if f.decl or f in self.T or f.ret not in ("i32", "i64"):
                continue
            f.build()
            neg = opaque = False
            for v in ret_values(f):
                w = v
                while w.is_inst and w.op in ("sext", "zext", "trunc"):
                    w = w.ops[0]
                if w.is_const:
                    neg = neg or bool(w.is_int and w.sval < 0)
                elif w.is_inst and w.op == "call":
                    neg = neg or em.call_is_err(w)
                else:
                    opaque = True
            if neg and opaque:
                self.T.add(f)
        self.walk, self.zero_known = walk, zero_known
        self.rep = self._may_report()
        self.U = {}
        self._solve()

    def _may_report(self):
        rep = set()
        changed = True
        while changed:
            changed = False
            for f in self.prog.functions():
                if f in rep or f.decl:
                    continue
                for c in f.calls():
                    nm = norm_callee(c.callee)
                    if nm in NEVER_REPORT:
                        continue
                    if _to_stderr(c):
                        rep.add(f)
                        changed = True
                        break
                    if c.callee is None:
                        continue          # slots: library objects do not print
                    t = self.prog.fn(c.callee, f.unit)
                    if t is not None and t in rep:
                        rep.add(f)
                        changed = True
                        break
        return rep

    def is_report(self, i):
        if i.op != "call":
            return False
        nm = norm_callee(i.callee)
        if nm in NEVER_REPORT:
            return False
        if _to_stderr(i):
            return True
        if i.callee is None:
            return False
        t = self.prog.fn(i.callee, i.fn.unit)
        return t is not None and t in self.rep

    # ---- which edges of a call's result mean "failed"
    def failure_edges(self, f, c):
        """[(branch inst, successor, neg-set, nz)]"""
        out = []
        ptr = c.ty.endswith("*")
        ts, _ok = self.prog.call_targets(c)
        defs = [t for t in ts if not isinstance(t, ExternFn)]
        tri = any(t in self.T for t in defs) or (not defs and not ptr and norm_callee(c.callee) not in (
            "chdir", "mkdir", "unlink", "fstat", "stat", "lstat", "ftruncate", "close", "fclose", "symlink", "mknod",
            "fchownat", "fchmodat", "utimensat", "lsetxattr", "pthread_create", "pthread_mutex_init", "pthread_cond_init"))
        vals = [c] + [u for u in f.uses.get(c, []) if u.op in ("sext", "zext", "trunc", "bitcast")]
        for v in vals:
            for u in f.uses.get(v, []):
                if u.op != "icmp":
                    continue
                z = u.ops[1]
                if not (z.is_const and (z.is_null or (z.is_int and z.sval == 0))):
                    continue
                for br in f.uses.get(u, []):
                    if br.op != "br" or len(br.x["succ"]) != 2:
                        continue
                    s0, s1 = br.x["succ"]
                    if ptr:
                        succ = {"eq": s0, "ne": s1}.get(u.pred)
                        if succ is not None:
                            out.append((br, succ, (), None))
                    else:
                        succ = {"slt": s0, "sge": s1}.get(u.pred)
                        if succ is not None:
                            out.append((br, succ, {id(c)}, None))
                        elif not tri:
                            succ = {"ne": s0, "eq": s1}.get(u.pred)
                            if succ is not None:
                                out.append((br, succ, ("nz", id(c)), None))
        return out

    def _origin(self, f, c):
        if is_fault_source(c):
            return "%s fails" % (norm_callee(c.callee) or ("%s.%s" % slot_call(c) if slot_call(c) else "a fault source"))
        ts, _ok = self.prog.call_targets(c)
        for t in ts:
            if not isinstance(t, ExternFn) and t in self.U:
                return "%s <- %s" % (t.name, self.U[t][1])
        return None

    def fact_of(self, f, c):
        """how a failure of c shows: 'null', ('nz', id) or {id} (negative); None if the result is not one"""
        if c.ty.endswith("*"):
            return "null"
        if c.ty not in ("i32", "i64", "i16"):
            return None
        ts, _ok = self.prog.call_targets(c)
        defs = [t for t in ts if not isinstance(t, ExternFn)]
        tri = any(t in self.T for t in defs) or (not defs and norm_callee(c.callee) not in ZERO_OR_MINUS1)
        if tri:
            return {id(c)}
        if defs and all(self.nonpositive(t) for t in defs):
            return {id(c)}              # never positive: 'failed' and 'negative' are the same thing
        return ("nz", id(c))

    def nonpositive(self, f, depth=0):
        memo = self.__dict__.setdefault("_np", {})
        if f in memo:
            return memo[f]
        memo[f] = True                  # optimistic for recursion
        ok = True
        if f.decl or depth > 8:
            ok = False
        else:
            f.build()
            for v in ret_values(f):
                w = v
                while w.is_inst and w.op in ("sext", "zext", "trunc"):
                    w = w.ops[0]
                if w.is_const:
                    if not (w.is_int and w.sval <= 0):
                        ok = False
                elif w.is_inst and w.op == "call":
                    ts, _ok = self.prog.call_targets(w)
                    ds = [t for t in ts if not isinstance(t, ExternFn)]
                    if not ds or not all(self.nonpositive(t, depth + 1) for t in ds):
                        ok = False
                else:
                    ok = False
                if not ok:
                    break
        memo[f] = ok
        return ok

    def unreported(self, f, c, to_exit=False):
        """a return instruction reached from the call under the assumption that it failed, with a possibly non-zero
        status (any status when to_exit) and no reporting call between the call and the return; or None"""
        fact = self.fact_of(f, c)
        if fact is None:
            return None

        class _B:
            pass
        start = _B()
        start.bb = c.bb
        zero = self.zero_known(f, c.bb) - {id(c)}
        aliases = []
        neg = ()
        if fact == "null":
            aliases = [c] + [u for u in f.uses.get(c, []) if u.op == "bitcast"]
            # reloads of the location the result was stored to
            for u in f.uses.get(c, []):
                if u.op == "store" and u.ops[0] is c:
                    for i in f.insts():
                        if i.op == "load" and strip_casts(i.ops[0]) is strip_casts(u.ops[1]) and f.inst_dominates(u, i):
                            aliases.append(i)
            tested = any(u.op == "icmp" for a in aliases for u in f.uses.get(a, []))
            if not tested:
                return None
        else:
            neg = fact
            vals = [c] + [u for u in f.uses.get(c, []) if u.op in ("sext", "zext", "trunc")]
            carriers = list(vals)
            k = 0
            while k < len(carriers):
                for u in f.uses.get(carriers[k], []):
                    if u.op in ("phi", "sext", "zext", "trunc") and u not in carriers:
                        carriers.append(u)
                k += 1
            if not any(u.op == "icmp" for v in carriers for u in f.uses.get(v, [])):
                return None
        for (v, r, path) in self.walk(self.prog, f, start, None, aliases, zero, neg):
            if not to_exit and ((v.is_const and v.is_int and v.sval == 0) or id(v) in zero):
                continue            # comes back as success: not this rule's business (E7)
            if not to_exit and v.is_const and v.is_null is False and False:
                continue
            rep = False
            for k, b in enumerate(path):
                insts = b.insts[c.pos + 1:] if (k == 0 and b is c.bb) else b.insts
                if any(self.is_report(i) for i in insts):
                    rep = True
                    break
            if rep:
                continue
            return r
        return None

    def _tested(self, f, c):
        carriers = [c]
        k = 0
        while k < len(carriers):
            for u in f.uses.get(carriers[k], []):
                if u.op in ("phi", "sext", "zext", "trunc", "bitcast") and u not in carriers:
                    carriers.append(u)
                elif u.op == "icmp":
                    return True
            k += 1
        return False

    def _solve(self):
        changed = True
        rounds = 0
        while changed and rounds < 8:
            changed = False
            rounds += 1
            for f in self.prog.functions():
                if f.decl or f in self.U or f.name == "main":
                    continue
                f.build()
                if f.ret == "void":
                    continue
                rv = set(id(strip_casts(v)) for v in ret_values(f))
                for c in f.calls():
                    org = self._origin(f, c)
                    if org is None:
                        continue
                    if id(c) in rv and not self._tested(f, c):
                        self.U[f] = (c, org)           # result handed on as it is, untested
                        changed = True
                        break
                    r = self.unreported(f, c)
                    if r is not None:
                        self.U[f] = (c, org)
                        changed = True
                        break


LIBRARY = ("lib/sqfs/", "lib/util/", "lib/compat/")


def run_diag(chk, prog, em, tool, tristate, walk, zero_known, rule="E9", exceptions=None, seen=None):
    """obligations: every place in tool-level code (everything outside libsquashfs / libutil, which return codes by
    design) where a fault source or a library function that can fail is called.  Holds if the failure is reported
    there, or on every way up to main's exit."""
    exceptions = exceptions or {}
    seen = seen if seen is not None else set()
    D = Diag(prog, em, tristate, walk, zero_known)
    memo = {}

    def silent_to_main(F, depth=0):
        """(main call site, chain text) if a failure that F hands to its callers can reach the exit unreported"""
        if F in memo:
            return memo[F]
        memo[F] = None
        if depth > 12:
            return None
        for cs in prog.callers_of(F):
            G = cs.fn
            G.build()
            if G.name == "main":
                if D.fact_of(G, cs) is not None:
                    r = D.unreported(G, cs, to_exit=True)
                    if r is not None:
                        memo[F] = (cs, "main:%d" % cs.line)
                        return memo[F]
                continue
            if G.unit.src.startswith(LIBRARY):
                continue
            hands_on = (D.fact_of(G, cs) is not None and D.unreported(G, cs) is not None) or not D._tested(G, cs)
            if hands_on:
                up = silent_to_main(G, depth + 1)
                if up is not None:
                    memo[F] = (up[0], "%s:%d <- %s" % (G.name, cs.line, up[1]))
                    return memo[F]
        return None

    n = 0
    for F in prog.functions():
        if F.decl or F.unit.src.startswith(LIBRARY) or "/test/" in F.unit.src:
            continue
        F.build()
        for c in F.calls():
            org = None
            if is_fault_source(c):
                org = norm_callee(c.callee) or ("%s.%s" % slot_call(c) if slot_call(c) else "fault source")
            else:
                ts, _ok = prog.call_targets(c)
                for t in ts:
                    if not isinstance(t, ExternFn) and t in D.U and t.unit.src.startswith(LIBRARY):
                        org = t.name
            if not org or D.fact_of(F, c) is None:
                continue
            key = (F.unit.src, F.name, c.line, c.col)
            if key in seen:
                continue
            inst = "%s->%s@%d" % (F.name, org, c.line)
            if F.name == "main":
                r = D.unreported(F, c, to_exit=True)
                chain = "main:%d" % c.line
            else:
                r = D.unreported(F, c)
                chain = None
                if r is not None:
                    up = silent_to_main(F)
                    if up is None:
                        r = None
                    else:
                        chain = up[1]
            if r is None and not D._tested(F, c) and F.name != "main":
                up = silent_to_main(F)
                if up is not None and F.ret != "void":
                    rv = set(id(strip_casts(v)) for v in ret_values(F))
                    if id(c) in rv:
                        r, chain = c, up[1]
            seen.add(key)
            n += 1
            chk.analysed(F)
            if r is None:
                chk.ok(rule, inst, c, "a failure is reported here or on every way up to main's exit")
            elif (F.name, org) in exceptions:
                chk.exception(rule, inst, c, exceptions[(F.name, org)])
            else:
                chk.violation(rule, inst, c, "when %s fails, %s gives up without a diagnostic and nobody up to the exit of main "
                              "prints one (%s): the tool ends with a non-zero status and no message" % (org, F.name, chain))
    return n
