"""K7-strtrunc: a length-limited string copy (strncpy / memcpy of strlen into a fixed field) never cuts the string.

strncpy(dst, src, n) silently drops everything beyond n bytes.  The rule derives an upper bound for strlen(src) from the
facts that hold where the copy is reached -- constant strings, local character arrays, guards of the form
strlen(s) >= C on the very same string, and, for parameters, the bound at every call site -- and demands bound <= n.
"""
from .ir import strip_casts, norm_callee, ExternFn
from .util import resolve_ptr
from .bounds import same_quantity


def _cstr_len(f, v):
    v = strip_casts(v)
    if v.is_inst and v.op == "getelementptr" and all((el[0] in ("*", "[]") and el[1].is_const and el[1].sval == 0) for el in v.x["gep"]):
        v = strip_casts(v.ops[0])
    if v.is_const and getattr(v, "gname", None):
        g = f.unit.globals.get(v.gname)
        if g and g.get("init") and g["init"][0] == "s":
            b = bytes(x & 0xFF for x in g["init"][1])
            return len(b.split(b"\0")[0])
    return None


def _facts(f, block, extra_edge=None):
    out = list(f.guards_at(block))
    if extra_edge is not None:
        out.append(extra_edge)
    return out


def _edge_fact(pred, succ):
    t = pred.term
    if t.op == "br" and len(t.x["succ"]) == 2 and t.x["succ"][0] is not t.x["succ"][1]:
        if t.x["succ"][0] is succ:
            return (t.ops[0], True, t)
        if t.x["succ"][1] is succ:
            return (t.ops[0], False, t)
    return None


def strlen_bound(prog, f, v, block, edge=None, depth=0, seen=None):
    """upper bound of strlen(v) at `block` (optionally on the edge given), or None"""
    seen = seen if seen is not None else set()
    v0 = strip_casts(v)
    if (id(v0), id(block)) in seen or depth > 6:
        return None
    seen.add((id(v0), id(block)))
    n = _cstr_len(f, v0)
    if n is not None:
        return n
    base = strip_casts(resolve_ptr(prog, v0, f.unit)[0])
    if base.is_inst and base.op == "alloca" and base.x.get("asz") and base.x.get("aty", "").startswith("["):
        pass
    if base.is_inst and base.op == "alloca":
        # a local character array: whatever it holds is shorter than the array
        import re
        m = re.match(r"\[(\d+) x i8\]", base.x.get("aty", "") or "")
        if m:
            return int(m.group(1)) - 1
    # guards on strlen of the same string
    best = None
    for (cond, outcome, br) in _facts(f, block, edge):
        if not (cond.is_inst and cond.op == "icmp"):
            continue
        a, b = cond.ops
        for x, y, pred in ((a, b, cond.pred), (b, a, {"ult": "ugt", "ugt": "ult", "ule": "uge", "uge": "ule", "eq": "eq", "ne": "ne",
                                                        "slt": "sgt", "sgt": "slt", "sle": "sge", "sge": "sle"}.get(cond.pred))):
            xs = strip_casts(x)
            while xs.is_inst and xs.op in ("zext", "sext", "trunc"):
                xs = xs.ops[0]
            if not (xs.is_inst and xs.op == "call" and norm_callee(xs.callee) == "strlen"):
                continue
            if not (y.is_const and y.is_int):
                continue
            s_arg = xs.ops[0]
            if not (strip_casts(s_arg) is v0 or same_quantity(prog, f, s_arg, v0)):
                continue
            C = y.uval
            ub = None
            if pred in ("uge", "sge") and outcome is False:
                ub = C - 1
            elif pred in ("ugt", "sgt") and outcome is False:
                ub = C
            elif pred in ("ult", "slt") and outcome is True:
                ub = C - 1
            elif pred in ("ule", "sle") and outcome is True:
                ub = C
            elif pred == "eq" and outcome is True:
                ub = C
            if ub is not None and (best is None or ub < best):
                best = ub
    if best is not None:
        return best
    if v0.is_inst and v0.op == "phi":
        worst = 0
        for val, pred in zip(v0.ops, v0.x["inc"]):
            b = strlen_bound(prog, f, val, pred, _edge_fact(pred, v0.bb), depth + 1, seen)
            if b is None:
                return None
            worst = max(worst, b)
        return worst
    if v0.is_inst and v0.op == "select":
        a = strlen_bound(prog, f, v0.ops[1], block, edge, depth + 1, seen)
        b = strlen_bound(prog, f, v0.ops[2], block, edge, depth + 1, seen)
        return None if a is None or b is None else max(a, b)
    if not v0.is_inst and not v0.is_const:
        callers = prog.callers_of(f)
        if not callers:
            return None
        worst = 0
        for c in callers:
            g = c.bb.fn
            g.build()
            b = strlen_bound(prog, g, c.ops[v0.idx], c.bb, None, depth + 1, seen)
            if b is None:
                return None
            worst = max(worst, b)
        return worst
    return None


def run_strtrunc(chk, prog, rule, unit_filter):
    n = 0
    seen = set()
    for f in prog.functions():
        if f.decl or f.qname in seen or not unit_filter(f.unit.src):
            continue
        seen.add(f.qname)
        f.build()
        for c in f.calls():
            nm = norm_callee(c.callee)
            if nm not in ("strncpy", "strncat"):
                continue
            if not (c.ops[2].is_const and c.ops[2].is_int):
                continue
            n += 1
            chk.analysed(f)
            lim = c.ops[2].uval
            inst = "%s:%s@%d" % (f.name, nm, c.line)
            b = strlen_bound(prog, f, c.ops[1], c.bb)
            if b is not None and b <= lim:
                chk.ok(rule, inst, c, "the source is at most %d bytes long on every path (limit of the copy: %d)" % (b, lim))
            elif b is None:
                chk.violation(rule, inst, c, "%s copies at most %d bytes and no bound on the length of the source is established: a "
                              "longer string is silently cut" % (nm, lim))
            else:
                chk.violation(rule, inst, c, "%s copies at most %d bytes but the source can be %d bytes long on some path: the last "
                              "byte(s) are silently dropped" % (nm, lim, b))
    return n
