"""K6 engine: is the length of a copy/read into a buffer bounded by the buffer's capacity on every path?

For a sink (destination d, length n) in function f one of these must hold:
  C  n is a constant that fits the statically known object d points into
  A  d is an allocation made for this fill: its size expression contains n (or the value n was clamped to)
  G  a dominating guard bounds n (or a value n is derived from monotonically) from above; the bound's source is
     recorded and compared with the capacity the sink is pinned to
  M  n is a clamp/min, masked, a remainder, or zero-extended from a narrow type, with the implied bound fitting
  F  forwarded: d and n are parameters passed on unchanged (the obligation is the caller's)
  X  none of the above: unbounded
"""
import re

from .ir import strip_casts, norm_callee
from .util import resolve_ptr, backward_slice, const_int
from .effects import slot_call

ALLOC_FNS = {"malloc": (0,), "calloc": (0, 1), "realloc": (1,), "alloc_flex": (0, 1, 2), "alloc_array": (0, 1),
             "strdup": (), "strndup": (1,), "alloca": (0,)}


def widen_chain(v):
    """v and the values it is a monotone, non-increasing image of (zext/trunc are treated as identity when the
    guard was on the wider value; sub-const and 'and' only shrink)"""
    out = [v]
    seen = set()
    stack = [v]
    while stack:
        x = stack.pop()
        if id(x) in seen:
            continue
        seen.add(id(x))
        if x.is_inst and x.op in ("zext", "sext", "trunc", "bitcast"):
            out.append(x.ops[0])
            stack.append(x.ops[0])
        elif x.is_inst and x.op == "sub" and x.ops[1].is_const:
            out.append(x.ops[0])
            stack.append(x.ops[0])
        elif x.is_inst and x.op == "and":
            for o in x.ops:
                if not o.is_const:
                    out.append(o)
                    stack.append(o)
        elif x.is_inst and x.op in ("lshr", "udiv") and x.ops[1].is_const:
            out.append(x.ops[0])
            stack.append(x.ops[0])
    return out


def _uncast(v):
    while v.is_inst and v.op in ("zext", "sext", "trunc", "bitcast"):
        v = v.ops[0]
    return v


def lin(prog, f, v, _d=0):
    """(symbol Value or None, constant) with v == symbol + constant (casts ignored)"""
    v = _uncast(v)
    if v.is_const and v.is_int:
        return (None, v.sval)
    if v.is_inst and v.op in ("add", "sub") and _d < 6:
        a, b = v.ops
        la, lb = lin(prog, f, a, _d + 1), lin(prog, f, b, _d + 1)
        if v.op == "add":
            if la[0] is None:
                return (lb[0], la[1] + lb[1])
            if lb[0] is None:
                return (la[0], la[1] + lb[1])
        else:
            if lb[0] is None:
                return (la[0], la[1] - lb[1])
    return (v, 0)


def lin_le(prog, f, a, b):
    """provably a <= b for two linear forms over the same symbol"""
    la, lb = lin(prog, f, a), lin(prog, f, b)
    if la[0] is None and lb[0] is None:
        return la[1] <= lb[1]
    if la[0] is not None and lb[0] is not None and same_quantity(prog, f, la[0], lb[0]):
        return la[1] <= lb[1]
    return False


def describe(prog, f, v, _d=0):
    """stable description of a bound's source"""
    v = strip_casts(v)
    if _d > 4:
        return "..."
    if v.is_const:
        if v.is_int:
            return "const %d" % v.uval
        return "const"
    if v.is_arg:
        return "param %s" % (v.name or v.idx)
    if v.is_inst and v.op in ("zext", "sext", "trunc"):
        return describe(prog, f, v.ops[0], _d + 1)
    if v.is_inst and v.op == "load":
        p = strip_casts(v.ops[0])
        if p.is_inst and p.op == "getelementptr" and p.field():
            s, n = p.field()
            return "field %s.%s" % (s.replace("struct.", ""), n)
        if p.is_inst and p.op == "alloca":
            return "local %s" % (p.name or "tmp")
        if p.is_arg:
            return "*param %s" % (p.name or p.idx)
    if v.is_inst and v.op in ("add", "sub", "mul", "shl", "lshr", "and", "udiv", "urem"):
        return "(%s %s %s)" % (describe(prog, f, v.ops[0], _d + 1), v.op, describe(prog, f, v.ops[1], _d + 1))
    if v.is_inst and v.op == "call":
        return "result of %s" % (norm_callee(v.callee) or "indirect")
    if v.is_inst and v.op in ("phi", "select"):
        ops = v.ops[1:] if v.op == "select" else v.ops
        return "min/phi(" + ", ".join(sorted({describe(prog, f, o, _d + 1) for o in ops if o is not v})) + ")"
    return v.op if v.is_inst else "?"


def upper_bounds(prog, f, sink, n):
    """[(kind, bound Value or int, strict, description)] facts n <= bound / n < bound that hold at the sink"""
    out = []
    n0 = n
    if n.is_const and n.is_int:
        return [("const", n.uval, False, "const %d" % n.uval)]
    chain = widen_chain(n)
    ids = {id(x) for x in chain}
    for cond, outcome, br in f.guards_at(sink.bb):
        if not (cond.is_inst and cond.op == "icmp"):
            continue
        a, b = cond.ops
        p = cond.pred
        # normalise to  lhs <rel> rhs  holding on this edge
        rel = {"ult": "<", "ule": "<=", "ugt": ">", "uge": ">=", "slt": "<", "sle": "<=", "sgt": ">", "sge": ">=",
               "eq": "==", "ne": "!="}[p]
        if outcome is False:
            rel = {"<": ">=", "<=": ">", ">": "<=", ">=": "<", "==": "!=", "!=": "=="}[rel]
        elif outcome is not True:
            continue
        for (x, y, r) in ((a, b, rel), (b, a, {"<": ">", "<=": ">=", ">": "<", ">=": "<=", "==": "==", "!=": "!="}[rel])):
            if id(x) in ids or id(_uncast(x)) in ids:
                if r in ("<", "<=", "=="):
                    out.append(("guard", y, r == "<", describe(prog, f, y)))
    # callee contract: a compressor's do_block never returns more than the output capacity it was given
    for x in chain:
        if x.is_inst and x.op == "call" and slot_call(x) == ("struct.sqfs_compressor_t", "do_block") and len(x.ops) >= 5:
            out.append(("contract", x.ops[4], False, "do_block output capacity " + describe(prog, f, x.ops[4])))
    # structural bounds on n itself
    for x in chain:
        if x.is_inst and x.op == "and":
            for o in x.ops:
                if o.is_const and o.is_int:
                    out.append(("mask", o.uval, False, "mask %d" % o.uval))
        if x.is_inst and x.op == "urem" and x.ops[1].is_const:
            out.append(("mask", x.ops[1].uval - 1, False, "remainder"))
        if x.is_inst and x.op == "zext":
            m = re.match(r"i(\d+)$", x.x.get("st", ""))
            if m and int(m.group(1)) <= 16:
                out.append(("width", (1 << int(m.group(1))) - 1, False, "zero-extended from i%s" % m.group(1)))
        if x.is_inst and x.op in ("phi", "select"):
            # clamp: every incoming value is itself bounded by the same thing: min(x, cap)
            ops = x.ops[1:] if x.op == "select" else x.ops
            blocks = x.x.get("inc") if x.op == "phi" else None
            if x.op == "select":
                c = x.ops[0]
                if c.is_inst and c.op == "icmp":
                    # select (a < b) ? a : b  => min
                    a, b = c.ops
                    t, e = x.ops[1], x.ops[2]
                    if {id(strip_casts(a)), id(strip_casts(b))} == {id(strip_casts(t)), id(strip_casts(e))}:
                        lo_first = c.pred in ("ult", "ule", "slt", "sle")
                        picks_first = strip_casts(t) is strip_casts(a)
                        if lo_first == picks_first:
                            for o in (a, b):
                                out.append(("clamp", o, False, describe(prog, f, o)))
            else:
                # phi clamp:  if (n > cap) n = cap;   incoming cap from the block guarded by n0 > cap
                for val, pred in zip(x.ops, blocks):
                    others = [o for o in x.ops if o is not val]
                    for cond, outcome, br in f.guards_at(pred):
                        if cond.is_inst and cond.op == "icmp":
                            a, b = cond.ops
                            for (u, w) in ((a, b), (b, a)):
                                if strip_casts(w) is strip_casts(val) and any(strip_casts(u) is strip_casts(o) or
                                                                              id(u) in {id(z) for z in widen_chain(o)} for o in others):
                                    out.append(("clamp", val, False, describe(prog, f, val)))
    return out


def dest_capacity(prog, f, d):
    """('static', bytes, what) | ('alloc', call, size values) | ('param', arg) | ('unknown', desc)"""
    base, off, exact = resolve_ptr(prog, d, f.unit)
    b = strip_casts(base)
    # innermost addressed struct field / array
    g = strip_casts(d)
    if b.is_inst and b.op == "alloca":
        total = b.x.get("asz", 0)
        cnt = const_int(b.ops[0]) if b.ops else 1
        if cnt is not None and exact:
            return ("static", total * cnt - off, "local %s" % (b.name or "buffer"))
        if cnt is None:
            return ("alloc", b, [b.ops[0]])
    if b.is_const and b.gname:
        gl = f.unit.globals.get(b.gname)
        if gl:
            m = re.match(r"^\[(\d+) x i8\]$", gl["t"])
            if m and exact:
                return ("static", int(m.group(1)) - off, "global %s" % b.gname)
    # field of a struct reached through an unknown base pointer
    x = g
    intra = 0
    ok = True
    while x.is_inst and x.op in ("getelementptr", "bitcast"):
        if x.op == "bitcast":
            x = x.ops[0]
            continue
        path = x.x["gep"]
        # walk from the end: array steps with constant index, then a struct step
        k = len(path) - 1
        while k >= 0 and path[k][0] == "[]":
            idx = path[k][1]
            if idx.is_const and idx.is_int:
                intra += idx.sval * path[k][3]
            else:
                ok = False
            k -= 1
        if k >= 0 and path[k][0] not in ("*", "[]", "?"):
            s = prog.struct(path[k][0], f.unit)
            if s is not None and ok:
                e = s["elems"][path[k][1]]
                if e["sz"] > 0:
                    return ("static", e["sz"] - intra, "field %s.%s" % (path[k][0].replace("struct.", ""), e.get("n") or path[k][1]))
                else:
                    return ("flex", x, "flexible member %s.%s" % (path[k][0].replace("struct.", ""), e.get("n")))
            break
        if k >= 0 and path[k][0] == "*":
            idx = path[k][1]
            if idx.is_const and idx.is_int and idx.sval == 0:
                x = x.ops[0]
                continue
            ok = False
        break
    if b.is_inst and b.op == "call":
        nm = norm_callee(b.callee)
        if nm in ALLOC_FNS:
            return ("alloc", b, [b.ops[i] for i in ALLOC_FNS[nm] if i < len(b.ops)])
    if b.is_inst and b.op == "load":
        # pointer loaded from a location: was an allocation stored there in this function?
        loc = strip_casts(b.ops[0])
        for i in f.insts():
            if i.op == "store" and _same_loc(prog, f, i.ops[1], loc) and f.inst_dominates(i, b):
                v = strip_casts(i.ops[0])
                if v.is_inst and v.op == "call" and norm_callee(v.callee) in ALLOC_FNS:
                    nm = norm_callee(v.callee)
                    return ("alloc", v, [v.ops[k] for k in ALLOC_FNS[nm] if k < len(v.ops)])
        return ("loaded", b, describe(prog, f, b))
    if b.is_arg:
        return ("param", b, "param %s" % (b.name or b.idx))
    if b.is_inst and b.op == "phi":
        return ("unknown", b, "phi")
    return ("unknown", b, describe(prog, f, b))


def _same_loc(prog, f, p, q):
    p, q = strip_casts(p), strip_casts(q)
    if p is q:
        return True
    a, b = resolve_ptr(prog, p, f.unit), resolve_ptr(prog, q, f.unit)
    if a[0] is b[0] and a[1] == b[1] and a[2] and b[2]:
        return True
    if a[0].is_inst and b[0].is_inst and a[0].op == "load" and b[0].op == "load" and a[1] == b[1] and a[2] and b[2]:
        return _same_loc(prog, f, a[0].ops[0], b[0].ops[0])
    return False


def same_quantity(prog, f, a, b):
    a, b = strip_casts(a), strip_casts(b)
    if a is b:
        return True
    if a.is_const and b.is_const and a.is_int and b.is_int:
        return a.uval == b.uval
    for x in (a, b):
        pass
    while a.is_inst and a.op in ("zext", "sext", "trunc"):
        a = a.ops[0]
    while b.is_inst and b.op in ("zext", "sext", "trunc"):
        b = b.ops[0]
    if a is b:
        return True
    if a.is_inst and b.is_inst and a.op == "load" and b.op == "load":
        if not _same_loc(prog, f, a.ops[0], b.ops[0]):
            return False
        if a.fn is b.fn:
            from .memver import written_between
            if written_between(prog, a.fn, a, b):
                import os
                if os.environ.get("VERIF_MEMVER_LOG"):
                    with open(os.environ["VERIF_MEMVER_LOG"], "a") as fh:
                        fh.write("%s %s:%d %s:%d\n" % (a.fn.name, a.fn.unit.src, a.line, b.fn.unit.src, b.line))
                if not os.environ.get("VERIF_MEMVER_OFF"):
                    return False
        return True
    if a.is_inst and b.is_inst and a.op == "call" and b.op == "call" and norm_callee(a.callee) == "strlen" and \
            norm_callee(b.callee) == "strlen":
        return same_quantity(prog, f, a.ops[0], b.ops[0]) or _same_ptr(prog, f, a.ops[0], b.ops[0])
    return False


def _same_ptr(prog, f, p, q):
    a, b = resolve_ptr(prog, p, f.unit), resolve_ptr(prog, q, f.unit)
    if a[2] and b[2] and a[1] == b[1]:
        x, y = strip_casts(a[0]), strip_casts(b[0])
        if x is y:
            return True
        if x.is_inst and y.is_inst and x.op == "load" and y.op == "load":
            return _same_loc(prog, f, x.ops[0], y.ops[0])
    return False


def _same_expr(prog, f, a, b, depth=0):
    a, b = _uncast(a), _uncast(b)
    if same_quantity(prog, f, a, b):
        return True
    if depth > 5 or not (a.is_inst and b.is_inst) or a.op != b.op:
        return False
    if a.op in ("add", "mul", "sub", "shl", "and", "or", "lshr", "ashr", "udiv", "urem", "xor") and len(a.ops) == len(b.ops):
        if all(_same_expr(prog, f, x, y, depth + 1) for x, y in zip(a.ops, b.ops)):
            return True
        if a.op in ("add", "mul", "and", "or") and len(a.ops) == 2:
            return _same_expr(prog, f, a.ops[0], b.ops[1], depth + 1) and _same_expr(prog, f, a.ops[1], b.ops[0], depth + 1)
    if a.op == "extractvalue" and a.x.get("idx") == b.x.get("idx"):
        return _same_expr(prog, f, a.ops[0], b.ops[0], depth + 1)
    if a.op == "call" and a.callee == b.callee and (a.callee or "").startswith("llvm.") and len(a.ops) == len(b.ops):
        return all(_same_expr(prog, f, x, y, depth + 1) for x, y in zip(a.ops, b.ops))
    return False



def _alloc_of(prog, f, base, _seen=None):
    """allocation call that produced pointer `base` (directly, or stored to the location base was loaded from)"""
    b = strip_casts(base)
    _seen = _seen if _seen is not None else set()
    if id(b) in _seen:
        return None
    _seen.add(id(b))
    if b.is_inst and b.op == "call" and norm_callee(b.callee) in ALLOC_FNS:
        return b
    if b.is_inst and b.op == "alloca" and b.ops and not b.ops[0].is_const:
        return b
    if b.is_inst and b.op == "load":
        loc = strip_casts(b.ops[0])
        best = None
        for i in f.insts():
            if i.op == "store" and _same_loc(prog, f, i.ops[1], loc) and f.inst_dominates(i, b):
                v = strip_casts(i.ops[0])
                if v.is_inst and v.op == "call" and norm_callee(v.callee) in ALLOC_FNS:
                    best = v
                elif v.is_inst and v.op == "phi":
                    for o in v.ops:
                        o = strip_casts(o)
                        if o.is_inst and o.op == "call" and norm_callee(o.callee) in ALLOC_FNS:
                            best = o
        return best
    if b.is_inst and b.op == "phi":
        for o in b.ops:
            r = _alloc_of(prog, f, o, _seen)
            if r is not None:
                return r
    return None


def capacities(prog, f, d):
    """[(kind, const bytes | None, symbolic size Value | None, scale, description)] capacities of the object region
    that destination d points into, measured from d"""
    out = []
    base, off, exact = resolve_ptr(prog, d, f.unit)
    b = strip_casts(base)
    g = strip_casts(d)
    # (1) static: alloca / global / struct field
    if b.is_inst and b.op == "alloca" and (not b.ops or b.ops[0].is_const) and exact:
        cnt = const_int(b.ops[0]) if b.ops else 1
        out.append(("static", b.x.get("asz", 0) * (cnt or 1) - off, None, 1, "local %s" % (b.name or "buffer")))
    if b.is_const and b.gname:
        gl = f.unit.globals.get(b.gname)
        if gl:
            m = re.match(r"^\[(\d+) x i8\]$", gl["t"])
            if m and exact:
                out.append(("static", int(m.group(1)) - off, None, 1, "global %s" % b.gname))
    x = g
    intra, ok = 0, True
    flex = None
    while x.is_inst and x.op in ("getelementptr", "bitcast"):
        if x.op == "bitcast":
            x = x.ops[0]
            continue
        path = x.x["gep"]
        k = len(path) - 1
        while k >= 0 and path[k][0] == "[]":
            idx = path[k][1]
            if idx.is_const and idx.is_int:
                intra += idx.sval * path[k][3]
            else:
                ok = False
            k -= 1
        if k >= 0 and path[k][0] not in ("*", "[]", "?"):
            st = prog.struct(path[k][0], f.unit)
            if st is not None:
                e = st["elems"][path[k][1]]
                nm = "%s.%s" % (path[k][0].replace("struct.", ""), e.get("n") or path[k][1])
                if e["sz"] > 0 and ok:
                    out.append(("static", e["sz"] - intra, None, 1, "field " + nm))
                elif e["sz"] == 0:
                    flex = (st["size"], nm, intra if ok else None)
            break
        if k >= 0 and path[k][0] == "*":
            idx = path[k][1]
            if idx.is_const and idx.is_int and idx.sval == 0:
                x = x.ops[0]
                continue
        break
    # (2) typed object: pointer to a struct (no field step): at least one object of that type
    if not out and flex is None and exact:
        t = getattr(g, "ty", "") or ""
        m = re.match(r"^%((?:struct|union)\.[\w.]+)\*$", t)
        if not m:
            t0 = getattr(b, "ty", "") or ""
            m = re.match(r"^%((?:struct|union)\.[\w.]+)\*$", t0)
        if m:
            st = prog.struct(m.group(1), f.unit)
            if st is not None and st.get("size"):
                out.append(("typed", st["size"] - off, None, 1, "object of type %s" % m.group(1).replace("struct.", "")))
    # (3) allocation
    al = _alloc_of(prog, f, base)
    if al is not None:
        nm = "alloca" if al.op == "alloca" else norm_callee(al.callee)
        args = al.ops
        if nm == "alloca":
            out.append(("alloc", None, args[0], al.x.get("asz", 1) if False else 1, "variable-size stack buffer"))
        elif nm == "malloc":
            out.append(("alloc", None, args[0], 1, "malloc"))
        elif nm == "realloc":
            out.append(("alloc", None, args[1], 1, "realloc"))
        elif nm == "strndup":
            out.append(("alloc", None, args[1], 1, "strndup"))
        elif nm in ("calloc", "alloc_array"):
            a0, a1 = args[0], args[1]
            if a0.is_const and a1.is_const:
                out.append(("alloc", a0.uval * a1.uval - (off if exact else 0), None, 1, nm))
            elif a0.is_const:
                out.append(("alloc", None, a1, a0.uval, nm))
            elif a1.is_const:
                out.append(("alloc", None, a0, a1.uval, nm))
        elif nm == "alloc_flex":
            basesz, item, cnt = args[0], args[1], args[2]
            if flex is not None or (basesz.is_const and exact and off >= basesz.uval):
                if item.is_const:
                    out.append(("alloc-flex", None, cnt, item.uval, "flexible part of alloc_flex"))
            elif basesz.is_const and exact:
                out.append(("alloc", basesz.uval - off, None, 1, "fixed part of alloc_flex"))
    return out, (flex, off if exact else None)


def classify(prog, f, sink, d, n, extra_ok=None):
    """-> (class letter, bound description, capacity description, detail)"""
    caps, (flex, off) = capacities(prog, f, d)
    ubs = upper_bounds(prog, f, sink, n)
    base = strip_casts(resolve_ptr(prog, d, f.unit)[0])
    nb = _uncast(n)
    capd = "; ".join(c[4] for c in caps) or ("param %s" % (base.name or base.idx) if base.is_arg else describe(prog, f, base))
    # candidate length forms: n itself and every upper bound on it
    forms = [("len", n, False, describe(prog, f, n))] + [(k, bv, st, ds) for (k, bv, st, ds) in ubs]
    for (kind, cconst, csym, scale, cdesc) in caps:
        for (k, bv, strict, ds) in forms:
            # constant bound
            val = bv if isinstance(bv, int) else (bv.uval if (bv.is_const and bv.is_int) else None)
            if val is not None and cconst is not None:
                lim = val - 1 if strict else val
                if lim <= cconst:
                    cls = "C" if k in ("len", "const") else ("M" if k in ("mask", "width") else "G")
                    return (cls, ds, "%s (%d bytes)" % (cdesc, cconst), "length <= %d fits %d bytes" % (lim, cconst))
            if csym is not None and not isinstance(bv, int):
                # symbolic: bound <= count (*scale >= 1)
                adj = 0 if not off or kind == "alloc-flex" else off
                if scale >= 1 and adj == 0 and (same_quantity(prog, f, bv, csym) or lin_le(prog, f, bv, csym)):
                    cls = "A" if k == "len" else "G"
                    return (cls, ds, cdesc + " sized " + describe(prog, f, csym), "length is bounded by the allocation size")
                # size expression contains the length as a summand / factor: malloc(a + n + 1), alloc(n * 2)
                if k == "len" and adj == 0:
                    sl = {id(x) for x in backward_slice(csym)}
                    if id(nb) in sl and _monotone_contains(csym, nb):
                        return ("A", ds, cdesc + " sized " + describe(prog, f, csym), "allocation size is computed from this length")
    if base.is_arg and (nb.is_arg or nb.is_const) and not caps:
        return ("F", describe(prog, f, n), capd, "destination is a parameter: the capacity is the caller's obligation")
    if ubs:
        return ("G?", " & ".join(sorted({u[3] for u in ubs})), capd, "bounded, but the bound could not be related to the capacity")
    return ("X", "-", capd, "no upper bound on the length found")


def _monotone_contains(expr, sym):
    """sym occurs in expr only through add / mul / zext / shl (so expr >= sym)"""
    e = _uncast(expr)
    if e is sym:
        return True
    if e.is_inst and e.op in ("add", "mul", "shl", "or"):
        return any(_monotone_contains(o, sym) for o in e.ops)
    if e.is_inst and e.op in ("phi", "select"):
        ops = e.ops[1:] if e.op == "select" else e.ops
        return all(_monotone_contains(o, sym) for o in ops)
    if e.is_inst and e.op == "extractvalue":
        # SZ_ADD_OV / SZ_MUL_OV: {sum, overflow} = llvm.uadd.with.overflow(a, b)
        c = e.ops[0]
        if c.is_inst and c.op == "call" and (c.callee or "").startswith(("llvm.uadd.with.overflow", "llvm.umul.with.overflow")):
            return any(_monotone_contains(o, sym) for o in c.ops)
    if e.is_inst and e.op == "load":
        return False
    return False


def sinks_of(prog, f):
    """[(inst, what, dest Value, length Value)]"""
    out = []
    for c in f.calls():
        nm = norm_callee(c.callee)
        if nm in ("memcpy", "memmove") and len(c.ops) >= 3:
            out.append((c, nm, c.ops[0], c.ops[2]))
        elif nm in ("strcpy", "strcat") and len(c.ops) >= 2:
            out.append((c, nm, c.ops[0], c.ops[1]))
        elif nm == "memset" and len(c.ops) >= 3:
            out.append((c, nm, c.ops[0], c.ops[2]))
        elif nm in ("sqfs_meta_reader_read", "sqfs_istream_read") and len(c.ops) >= 3:
            out.append((c, nm, c.ops[1], c.ops[2]))
        else:
            sc = slot_call(c)
            if sc == ("struct.sqfs_file_t", "read_at") and len(c.ops) >= 4:
                out.append((c, "read_at", c.ops[2], c.ops[3]))
            elif sc == ("struct.sqfs_compressor_t", "do_block") and len(c.ops) >= 5:
                out.append((c, "do_block:out", c.ops[3], c.ops[4]))
    return out
