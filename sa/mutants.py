"""Thorough tier: the checker is tested against the corpus of independently seeded changes (/verif/seeded).

For every kept change whose meta.json expects this property's check to report it, a scratch copy of the *current*
working tree of /repo is made outside /repo and /verif, the patch is applied, the same check is run on the copy (as a
sub-process with VERIF_REPO pointing at it; no evidence is written for those runs) and the copy is removed.  A change
that applies cleanly and is not reported means the checker lost power: analysis broken (exit 2), never a pass.  A patch
that no longer applies to the current tree is skipped and noted.  Nothing of /repo is executed."""
import json
import os
import shutil
import subprocess
import tempfile
from concurrent.futures import ThreadPoolExecutor

from .build import VERIF, repo_root


def _expects(meta, pid):
    exp = meta.get("expect")
    if exp:
        return pid in exp
    d = meta.get("detected_by", "")
    if d.startswith("NOT DETECTED"):
        return False
    return meta.get("property") == pid


def _one(pid, name, patch, benign=False):
    tmp = tempfile.mkdtemp(prefix="verif-mutant-%s-" % name, dir=os.environ.get("TMPDIR", "/tmp"))
    try:
        r = subprocess.run(["rsync", "-a", "--exclude", ".git", "--exclude", "*.o", "--exclude", "*.lo", "--exclude", ".libs",
                            "--exclude", "*.a", "--exclude", "*.la", repo_root() + "/", tmp + "/"], capture_output=True, text=True)
        if r.returncode != 0:
            return (name, "error", "rsync: " + r.stderr[-200:])
        r = subprocess.run(["patch", "-p1", "-s", "--no-backup-if-mismatch", "-f", "-i", patch], cwd=tmp, capture_output=True, text=True)
        if r.returncode != 0:
            return (name, "skipped", "patch does not apply to the current tree")
        env = dict(os.environ, VERIF_REPO=tmp, VERIF_MUTANT_RUN=name)
        r = subprocess.run([os.path.join(VERIF, "check"), pid, "--tier", "quick"], env=env, capture_output=True, text=True, cwd=VERIF)
        lines = [l.strip() for l in r.stdout.splitlines() if l.startswith("   ") and "note:" not in l and "exception:" not in l]
        if benign:
            return (name, {0: "silent", 1: "FALSE ALARM", 2: "broken"}.get(r.returncode, "error"),
                    (lines[0][:200] if lines else r.stdout[-200:]) if r.returncode else "")
        return (name, {1: "reported", 0: "MISSED", 2: "broken"}.get(r.returncode, "error"), (lines[0][:200] if lines else r.stdout[-200:]))
    finally:
        shutil.rmtree(tmp, ignore_errors=True)
        shutil.rmtree(os.path.join(VERIF, "out", pid + "-mutant-" + name), ignore_errors=True)


def self_test(chk, pid):
    root = os.path.join(VERIF, "seeded")
    jobs = []
    for name in sorted(os.listdir(root)):
        mp = os.path.join(root, name, "meta.json")
        pp = os.path.join(root, name, "patch.diff")
        if not (os.path.exists(mp) and os.path.exists(pp)):
            continue
        meta = json.load(open(mp))
        if _expects(meta, pid):
            jobs.append((name, pp))
    res = []
    with ThreadPoolExecutor(max_workers=4) as ex:
        for r in ex.map(lambda j: _one(pid, j[0], j[1]), jobs):
            res.append(r)
    chk.extra["mutant_self_test"] = [{"seed": n, "result": st, "first_report": d} for (n, st, d) in res]
    # behaviour-preserving refactorings on which this check once raised a false alarm: silence expected
    bidx = os.path.join(VERIF, "benign", "index.json")
    if os.path.exists(bidx):
        idx = json.load(open(bidx))
        bjobs = [(k.replace("/", "-"), os.path.join(VERIF, "benign", k)) for k, v in idx.items() if isinstance(v, list) and pid in v]
        bres = [_one(pid, n, p, benign=True) for (n, p) in bjobs]
        chk.extra["benign_self_test"] = [{"patch": n, "result": st, "report": d} for (n, st, d) in bres]
        for (n, st, d) in bres:
            if st == "skipped":
                chk.note("benign/%s: %s" % (n, d))
            else:
                chk.control("benign/" + n, st == "silent", "behaviour-preserving refactoring must not be reported" +
                            ("" if st == "silent" else ": " + d))
    for (n, st, d) in res:
        if st == "reported":
            chk.control("seeded/" + n, True, "independently seeded change is reported: " + d)
        elif st == "skipped":
            chk.note("seeded/%s: %s" % (n, d))
        else:
            chk.control("seeded/" + n, False, "seeded change applied cleanly but the check answered '%s'" % st)
