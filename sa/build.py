"""Build substrate: compilation database from the repo's own Makefile, LLVM IR
for every unit of the *current* working tree, JSON dump per unit.

Nothing here is an analysis result: the caches hold (a) the list of compile /
archive / link commands, keyed by the content of Makefile + config.h + all
Makemodule.am, and (b) IR dumps keyed by the hash of the preprocessed unit and
its flags, so a changed source always yields a fresh dump.
"""
import hashlib
import json
import os
import re
import shlex
import subprocess
import sys
import fcntl
from concurrent.futures import ThreadPoolExecutor

VERIF = os.path.dirname(os.path.dirname(os.path.abspath(__file__)))
CACHE = os.path.join(VERIF, ".cache")
IRDUMP = os.path.join(VERIF, "tools", "irdump")
FALLBACK_DB = os.path.join(VERIF, "build", "compdb.fallback.json")
CLANG = "clang-14"
OPT = "opt-14"


class AnalysisBroken(Exception):
    """exit code 2: the analysis itself could not be carried out."""


def repo_root():
    return os.environ.get("VERIF_REPO", "/repo")


def _sha(*parts):
    h = hashlib.sha256()
    for p in parts:
        if isinstance(p, str):
            p = p.encode()
        h.update(p)
        h.update(b"\0")
    return h.hexdigest()


def _read(path):
    with open(path, "rb") as f:
        return f.read()


def ensure_tools():
    src = os.path.join(VERIF, "tools", "irdump.cc")
    if os.path.exists(IRDUMP) and os.path.getmtime(IRDUMP) >= os.path.getmtime(src):
        return
    os.makedirs(CACHE, exist_ok=True)
    with open(os.path.join(CACHE, "tools.lock"), "w") as lk:
        fcntl.flock(lk, fcntl.LOCK_EX)
        if os.path.exists(IRDUMP) and os.path.getmtime(IRDUMP) >= os.path.getmtime(src):
            return
        cxx = subprocess.check_output(["llvm-config-14", "--cxxflags"], text=True).split()
        cmd = ["clang++"] + cxx + ["-O1", "-fno-rtti", src, "-o", IRDUMP + ".tmp",
                                   "/usr/lib/llvm-14/lib/libLLVM-14.so"]
        r = subprocess.run(cmd, capture_output=True, text=True)
        if r.returncode != 0:
            raise AnalysisBroken("cannot build irdump: " + r.stderr[-2000:])
        os.replace(IRDUMP + ".tmp", IRDUMP)


# ----------------------------------------------------------------------------
# compilation database

def _makefile_key(root):
    parts = []
    for rel in ("Makefile", "config.h"):
        p = os.path.join(root, rel)
        parts.append(_read(p) if os.path.exists(p) else b"<absent>")
    mods = []
    for d, _, fs in os.walk(root):
        if "/.git" in d:
            continue
        for f in fs:
            if f == "Makemodule.am":
                mods.append(os.path.join(d, f))
    for p in sorted(mods):
        parts.append(os.path.relpath(p, root))
        parts.append(_read(p))
    return _sha(*parts)


_KEEP = re.compile(r"^(-D|-U|-I|-std=|-pthread$|-f(no-)?(signed|unsigned)-char|-include$)")


def _parse_make_output(text):
    text = text.replace("\\\n", " ")
    units, archives, links = {}, {}, {}
    for line in text.splitlines():
        if " -c -o " in line and not line.startswith("checking"):
            m = re.search(r"-c -o (\S+) (?:`[^`]*`)?(\S+\.c)\b", line)
            if not m:
                continue
            obj, src = m.group(1), m.group(2)
            if src.startswith("./"):
                src = src[2:]
            seg = line
            if "--mode=compile" in seg:
                seg = seg.split("--mode=compile", 1)[1]
            else:
                seg = re.split(r"(?:^|[;\s])cc\s", seg, 1)[-1]
            seg = seg.split(" -MT ", 1)[0]
            seg = re.sub(r"`[^`]*`", "", seg)
            try:
                toks = shlex.split(seg)
            except ValueError:
                toks = seg.split()
            flags = []
            i = 0
            while i < len(toks):
                t = toks[i]
                if t in ("-D", "-U", "-I", "-include") and i + 1 < len(toks):
                    flags += [t + toks[i + 1]] if t != "-include" else [t, toks[i + 1]]
                    i += 2
                    continue
                if _KEEP.match(t):
                    flags.append(t)
                i += 1
            units[obj] = {"src": src, "flags": flags}
        m = re.search(r"\bar cru? (\S+\.a) (.*)$", line)
        if m:
            archives[m.group(1)] = m.group(2).split()
            continue
        if "--mode=link" in line:
            m = re.search(r" -o (\S+) (.*)$", line.split("--mode=link", 1)[1])
            if not m:
                continue
            out = m.group(1)
            toks = [t for t in m.group(2).split()
                    if t.endswith((".o", ".lo", ".a", ".la"))]
            links[out] = toks
    return {"units": units, "archives": archives, "links": links}


def _refresh_makefile(root):
    """the build description (Makefile.am / Makemodule.am / configure.ac) is newer than the generated Makefile: let the
    tree's own rule regenerate it (automake + config.status), exactly what the next plain `make` would do first"""
    mk = os.path.join(root, "Makefile")
    try:
        t = os.path.getmtime(mk)
    except OSError:
        return
    newer = False
    for d, dirs, fs in os.walk(root):
        if "/.git" in d or d.endswith("/.git"):
            continue
        for f in fs:
            if f in ("Makemodule.am", "Makefile.am", "configure.ac") and os.path.getmtime(os.path.join(d, f)) > t:
                newer = True
    if not newer:
        return
    r = subprocess.run(["make", "Makefile"], cwd=root, capture_output=True, text=True)
    if r.returncode != 0:
        raise AnalysisBroken("the build description changed and `make Makefile` failed: " + r.stderr[-800:])


def compdb(root=None):
    root = root or repo_root()
    os.makedirs(CACHE, exist_ok=True)
    if not os.path.exists(os.path.join(root, "Makefile")):
        if os.path.exists(FALLBACK_DB):
            db = json.load(open(FALLBACK_DB))
            db["source"] = "fallback table (no Makefile in tree)"
            return db
        raise AnalysisBroken("no Makefile in %s and no fallback table" % root)
    with open(os.path.join(CACHE, "compdb.lock"), "w") as lk:
        fcntl.flock(lk, fcntl.LOCK_EX)
        _refresh_makefile(root)
        key = _makefile_key(root)
        path = os.path.join(CACHE, "compdb-%s.json" % key[:24])
        if os.path.exists(path):
            db = json.load(open(path))
            db["source"] = "make -n -B all-am (cached command list)"
            return db
        # the generated prerequisites are declared old (-o): GNU make would
        # otherwise *execute* the Makefile-regeneration rules even under -n
        cmd = ["make", "-n", "-B"]
        for o in ("Makefile", "config.status", "configure", "Makefile.in", "aclocal.m4", "config.h",
                  "stamp-h1", "config.h.in"):
            cmd += ["-o", o]
        r = subprocess.run(cmd + ["all-am"], cwd=root, capture_output=True, text=True)
        if r.returncode != 0:
            raise AnalysisBroken("make -n -B all failed: " + r.stderr[-1500:])
        db = _parse_make_output(r.stdout)
        if len(db["units"]) < 100:
            raise AnalysisBroken("compile database has only %d units" % len(db["units"]))
        with open(path + ".tmp", "w") as f:
            json.dump(db, f)
        os.replace(path + ".tmp", path)
        db["source"] = "make -n -B all-am"
        return db


def artefact_objects(db, name):
    """objects (keys of db['units']) linked into artefact `name`, following
    archives and libsquashfs.la."""
    seen, out = set(), []

    def add(item):
        if item in seen:
            return
        seen.add(item)
        if item in db["units"]:
            out.append(item)
        elif item in db["archives"]:
            for o in db["archives"][item]:
                add(o)
        elif item in db["links"]:
            for o in db["links"][item]:
                add(o)
        # system libraries / unknown: ignored
    if name not in db["links"] and name not in db["archives"]:
        raise AnalysisBroken("artefact %s not in the build" % name)
    add(name)
    return out


# ----------------------------------------------------------------------------
# IR build

BASE_FLAGS = ["-O0", "-g", "-Xclang", "-disable-llvm-passes", "-Xclang", "-disable-O0-optnone",
              "-std=gnu17", "-w", "-fno-discard-value-names"]


def _build_unit(root, obj, unit, extra_flags):
    src = unit["src"]
    flags = list(unit["flags"]) + list(extra_flags)
    pp = subprocess.run([CLANG, "-E", "-std=gnu17", "-w"] + flags + [src], cwd=root,
                        capture_output=True)
    if pp.returncode != 0:
        raise AnalysisBroken("preprocess failed for %s: %s" % (src, pp.stderr.decode()[-1500:]))
    tool_stamp = str(os.path.getmtime(IRDUMP))
    key = _sha(pp.stdout, " ".join(flags), src, "v3", tool_stamp)
    d = os.path.join(CACHE, "ir", key[:2])
    out = os.path.join(d, key[2:40] + ".json")
    if os.path.exists(out):
        try:
            os.utime(out, None)         # a unit in use is a young file: prune_cache() leaves it alone
        except OSError:
            pass
        return obj, out, True
    os.makedirs(d, exist_ok=True)
    tmpbase = os.path.join(d, key[2:40] + ".%d" % os.getpid())
    ll, mll = tmpbase + ".ll", tmpbase + ".m.ll"
    try:
        r = subprocess.run([CLANG] + BASE_FLAGS + flags + ["-S", "-emit-llvm", src, "-o", ll], cwd=root,
                           capture_output=True, text=True)
        if r.returncode != 0:
            raise AnalysisBroken("compile to IR failed for %s: %s" % (src, r.stderr[-1500:]))
        r = subprocess.run([OPT, "-passes=mem2reg", "-S", ll, "-o", mll], capture_output=True, text=True)
        if r.returncode != 0:
            raise AnalysisBroken("opt failed for %s: %s" % (src, r.stderr[-1500:]))
        with open(tmpbase + ".json", "wb") as f:
            r = subprocess.run([IRDUMP, mll], stdout=f, stderr=subprocess.PIPE)
        if r.returncode != 0:
            raise AnalysisBroken("irdump failed for %s: %s" % (src, r.stderr.decode()[-1500:]))
        os.replace(tmpbase + ".json", out)
    finally:
        for p in (ll, mll, tmpbase + ".json"):
            if os.path.exists(p):
                os.unlink(p)
    return obj, out, False


def build_ir(objs=None, root=None, extra_flags=(), db=None):
    """returns {obj: path of JSON dump} for the given objects (default: all)"""
    root = root or repo_root()
    ensure_tools()
    db = db or compdb(root)
    if objs is None:
        objs = list(db["units"].keys())
    res = {}
    with ThreadPoolExecutor(max_workers=16) as ex:
        futs = [ex.submit(_build_unit, root, o, db["units"][o], extra_flags) for o in objs]
        for f in futs:
            obj, path, _hit = f.result()
            res[obj] = path
    return res


def prune_cache(max_files=20000, min_age=6 * 3600):
    """drop the oldest IR files when the cache has grown large.  Never while analysing a scratch tree (those runs go on in
    parallel), and never a file that was produced or used in the last hours: a check that runs next to this one may be about
    to read it."""
    if os.environ.get("VERIF_MUTANT_RUN") or os.environ.get("VERIF_REPO"):
        return
    import time as _t
    now = _t.time()
    d = os.path.join(CACHE, "ir")
    files = []
    for dp, _, fs in os.walk(d):
        for f in fs:
            p = os.path.join(dp, f)
            try:
                files.append((os.path.getmtime(p), p))
            except OSError:
                pass
    if len(files) <= max_files:
        return
    files.sort()
    for mt, p in files[: len(files) - max_files]:
        if now - mt < min_age:
            continue
        try:
            os.unlink(p)
        except OSError:
            pass


if __name__ == "__main__":
    import time
    t = time.time()
    db = compdb()
    print("units", len(db["units"]), "archives", list(db["archives"]), "links", list(db["links"]))
    print("compdb %.1fs" % (time.time() - t))
    t = time.time()
    r = build_ir(db=db)
    print("ir for", len(r), "units %.1fs" % (time.time() - t))
