"""Fill-level / cursor invariants: an object with a fixed array member A (K bytes), an integer member L that says where
in A the next copy goes to (or comes from), and -- optionally -- a member G that says how much of A is valid (K itself
if there is none).  Decided by a forward must-dataflow per function, edge sensitive (phis and branch conditions are
judged on the edge they are taken on):

  slack = G - L     (never negative: L <= G <= K is the invariant)
  LE     SSA values known  <= slack  now
  LEG    SSA values known  <= G      now            (constants <= K when there is no G)
  LZ     L is known to be 0 now                     (then everything <= G is <= slack)
  CUR    loads of L that are still current; CURG the same for G
  PZ     calls of functions with the post-condition "answers 0 only with L == 0", not yet overtaken by another write

Obligations
  inv    every store to L:  0, something <= G now, or  L_current + d  with  d <= slack;
         every store to G is <= K (bound engine), and L is re-established before the function can answer success
  copy   a copy to or from  A + L_current  of n bytes has  n <= slack
The invariant is assumed at function entry and proved at every store in the program; objects are created zeroed.
Nothing is assumed about what calls that may write L or G (mod summaries of memver.py) leave behind, except PZ.
"""
from .ir import strip_casts, norm_callee, ExternFn, strip_suffix
from .memver import mod_of


def _uncast(v):
    while v.is_inst and v.op in ("zext", "sext", "trunc", "bitcast"):
        v = v.ops[0]
    return v


def _field(p):
    p = strip_casts(p)
    if p.is_inst and p.op == "getelementptr":
        fs = p.fields()
        if fs:
            return (strip_suffix(fs[-1][0]), fs[-1][1])
    return None


class State:
    __slots__ = ("le", "leg", "lz", "cur", "curg", "pz", "pl", "stale")

    def __init__(self):
        self.le = self.leg = self.cur = self.curg = self.pz = self.pl = frozenset()
        self.lz = False
        self.stale = False          # G was rewritten and L not re-established yet

    def key(self):
        return (self.le, self.leg, self.lz, self.cur, self.curg, self.pz, self.pl, self.stale)

    def meet(self, o):
        n = State()
        n.le, n.leg, n.cur, n.curg, n.pz = self.le & o.le, self.leg & o.leg, self.cur & o.cur, self.curg & o.curg, self.pz & o.pz
        n.pl = self.pl & o.pl
        n.lz = self.lz and o.lz
        n.stale = self.stale or o.stale
        return n

    def copy(self):
        n = State()
        n.le, n.leg, n.lz, n.cur, n.curg, n.pz, n.stale = self.le, self.leg, self.lz, self.cur, self.curg, self.pz, self.stale
        n.pl = self.pl
        return n


class Slack:
    def __init__(self, prog, struct, A, L, K, G=None):
        self.prog, self.struct, self.A, self.L, self.K, self.G = prog, struct, A, L, K, G
        self.key = (struct, L)
        self.gkey = (struct, G) if G else None
        self.pz_cache = {}
        self._zp = set()
        self._stale_ret = []
        self._post_leg = set()
        self._call_leg = {}

    def is_L(self, p):
        return _field(p) == self.key

    def is_G(self, p):
        return self.gkey is not None and _field(p) == self.gkey

    def call_writes(self, i):
        nm = norm_callee(i.callee) if i.callee else None
        if nm and nm.startswith("llvm."):
            return False
        M = mod_of(self.prog)
        return M.call_may_write(i, self.key, []) or (self.gkey is not None and M.call_may_write(i, self.gkey, []))

    # v <= G now
    def leg(self, v, st):
        u = _uncast(v)
        if u.is_const:
            return bool(u.is_int and (u.uval == 0 or (self.G is None and u.uval <= self.K)))
        return id(u) in st.leg or id(v) in st.leg or id(u) in st.curg

    @staticmethod
    def _sig(u):
        if u.is_inst and u.op in ("sub", "add", "and", "lshr", "udiv", "mul") and len(u.ops) == 2:
            a, b = _uncast(u.ops[0]), _uncast(u.ops[1])
            ka = ("c", a.uval) if (a.is_const and a.is_int) else id(a)
            kb = ("c", b.uval) if (b.is_const and b.is_int) else id(b)
            return ("sig", u.op, ka, kb)
        return None

    def _with_sig(self, vals):
        out = set()
        for v in vals:
            out.add(id(v))
            sg = self._sig(_uncast(v))
            if sg:
                out.add(sg)
        return out

    # v <= slack now
    def le(self, v, st):
        u = _uncast(v)
        if u.is_const and u.is_int and u.uval == 0:
            return True
        if id(u) in st.le or id(v) in st.le:
            return True
        sg = self._sig(u)
        if sg is not None and sg in st.le:
            return True            # the same expression over the same values, computed a second time
        return st.lz and self.leg(v, st)

    def run(self, f, want_post=False, zero_params=()):
        """-> ({store: bad?}, {copy: proven?}, post)"""
        f.build()
        self._zp = set(zero_params)
        instate = {f.blocks[0]: State()}
        work = [f.blocks[0]]
        outedge = {}
        bad_stores, sinks = {}, {}
        rounds = 0
        while work and rounds < 6000:
            rounds += 1
            b = work.pop(0)
            st = instate[b].copy()
            for i in b.insts:
                st = self.transfer(f, i, st, bad_stores, sinks)
            for s in b.succs:
                outedge[(b, s)] = self.edge(f, b, s, st)
                seen = [outedge[(p, s)] for p in s.preds if (p, s) in outedge]
                new = seen[0]
                for o in seen[1:]:
                    new = new.meet(o)
                old = instate.get(s)
                if old is None or new.key() != old.key():
                    instate[s] = new
                    if s not in work:
                        work.append(s)

        def known_nonzero(v, b):
            w = strip_casts(v)
            if w.is_const:
                return bool(w.is_int and w.sval != 0)
            for cond, outcome, br in f.guards_at(b):
                if cond.is_inst and cond.op == "icmp" and _uncast(cond.ops[0]) is _uncast(v) and cond.ops[1].is_const and \
                        cond.ops[1].is_int and cond.ops[1].sval == 0:
                    if (cond.pred == "ne" and outcome) or (cond.pred == "eq" and not outcome) or \
                            (cond.pred == "slt" and outcome) or (cond.pred == "sgt" and outcome):
                        return True
            return False

        def end_state(b):
            stb = instate.get(b)
            if stb is None:
                return None
            stb = stb.copy()
            for i_ in b.insts:
                stb = self.transfer(f, i_, stb, {}, {})
            return stb
        post = True
        stale_ret = []
        post_leg = None
        for r in f.rets():
            states = []
            if r.ops:
                v = r.ops[0]
                ph = strip_casts(v)
                if ph.is_inst and ph.op == "phi" and ph.bb is r.bb:
                    for val, pr in zip(ph.ops, ph.x["inc"]):
                        if known_nonzero(val, pr):
                            continue
                        stp = end_state(pr)
                        if stp is None:
                            continue
                        ste = self.edge(f, pr, r.bb, stp)
                        for i_ in r.bb.insts:
                            ste = self.transfer(f, i_, ste, {}, {})
                        states.append(ste)
                elif not known_nonzero(v, r.bb):
                    ste = end_state(r.bb)
                    if ste is not None:
                        states.append(ste)
            else:
                ste = end_state(r.bb)
                if ste is not None:
                    states.append(ste)
            for ste in states:
                if not ste.lz:
                    post = False
                if ste.stale:
                    stale_ret.append(r)
                ok_params = {p_.idx for p_ in f.params if not (p_.ty or "").endswith("*") and self.leg(p_, ste)}
                post_leg = ok_params if post_leg is None else (post_leg & ok_params)
        self._stale_ret = stale_ret
        self._post_leg = post_leg or set()
        return bad_stores, sinks, (post if want_post else None)

    def transfer(self, f, i, st, bad_stores, sinks):
        K = self.K
        if i.op == "load":
            if self.is_L(i.ops[0]):
                st.cur = st.cur | {id(i)}
            elif self.is_G(i.ops[0]):
                st.curg = st.curg | {id(i)}
            return st
        if i.op in ("zext", "sext", "trunc") and i.ops[0].is_inst:
            u = _uncast(i)
            if id(u) in st.le:
                st.le = st.le | {id(i)}
            if id(u) in st.leg:
                st.leg = st.leg | {id(i)}
            return st
        if i.op == "sub":
            a, b = _uncast(i.ops[0]), _uncast(i.ops[1])
            top = (a.is_const and a.is_int and a.uval == K) if self.G is None else (id(a) in st.curg)
            if top and id(b) in st.cur:
                st.le = st.le | {id(i)}            # G - L is the slack itself
            return st
        if i.op == "select":
            c, x, y = i.ops
            if self.le(x, st) and self.le(y, st):
                st.le = st.le | {id(i)}
            elif c.is_inst and c.op == "icmp" and c.pred in ("ult", "ule", "ugt", "uge"):
                a0, a1 = _uncast(c.ops[0]), _uncast(c.ops[1])
                xs, ys = _uncast(x), _uncast(y)
                lt = c.pred in ("ult", "ule")
                small_first = (xs is a0 and ys is a1) if lt else (xs is a1 and ys is a0)
                if small_first and (self.le(x, st) or self.le(y, st)):
                    st.le = st.le | {id(i)}
            return st
        if i.op == "store" and self.is_L(i.ops[1]):
            v0 = i.ops[0]
            v = _uncast(v0)
            ok = False
            lz = False
            if v.is_const and v.is_int and v.uval == 0:
                ok, lz = True, True
            elif v.is_arg and v.idx in self._zp:
                ok, lz = True, True
            elif self.leg(v0, st):
                ok = True
            elif v.is_inst and v.op == "add":
                a, b = v.ops
                for (x, d) in ((a, b), (b, a)):
                    if id(_uncast(x)) in st.cur and self.le(d, st):
                        ok = True
            elif v.is_inst and v.op == "sub" and id(_uncast(v.ops[0])) in st.cur:
                ok = True            # shrinking keeps L <= G; a wrap is the reading side's business (guards on L - d)
            bad_stores[i] = bad_stores.get(i, False) or not ok
            st.le, st.cur, st.pz, st.lz = frozenset(), frozenset(), frozenset(), lz
            if ok:
                st.stale = False
            return st
        if i.op == "store" and self.is_G(i.ops[1]):
            from .bounds2 import Bounder, Cap
            v0 = i.ops[0]
            okg = Bounder(self.prog, f).bounded(v0, i, Cap(const=K, desc="size of the array member"))
            bad_stores[i] = bad_stores.get(i, False) or not okg
            st.le, st.leg, st.curg, st.pz, st.pl = frozenset(), frozenset(), frozenset(), frozenset(), frozenset()
            st.stale = True
            return st
        if i.op == "call":
            nm = norm_callee(i.callee) if i.callee else None
            if nm and nm.startswith("llvm."):
                return st
            if nm in ("memcpy", "memmove", "memset") and len(i.ops) >= 3:
                for k in ((0, 1) if nm != "memset" else (0,)):
                    tgt = self.sink_index(strip_casts(i.ops[k]))
                    if tgt is None or tgt[1]:
                        continue
                    fresh = id(_uncast(tgt[0])) in st.cur
                    proven = fresh and self.le(i.ops[2], st)
                    sinks[i] = sinks.get(i, True) and proven
                return st
            if self.call_writes(i):
                st.le, st.leg, st.cur, st.curg, st.lz = frozenset(), frozenset(), frozenset(), frozenset(), False
                st.pz = frozenset()
                # a function with external linkage answers for its own returns; what a static helper leaves open is the
                # caller's to finish
                st.stale = self.helper_stale(i)
                st.pl = frozenset()
                if self.post_zero(i):
                    st.pz = frozenset([id(i)])
                args = self.post_leg_args(i)
                if args:
                    self._call_leg[id(i)] = args
                    st.pl = frozenset([id(i)])
            return st
        return st

    def sink_index(self, d):
        """pointer into A of this struct: (index value, False) for A + idx, (None, True) for A itself, else None"""
        p = d
        hops = 0
        idx = None
        while p.is_inst and p.op == "getelementptr" and hops < 4:
            if p.field():
                if (strip_suffix(p.field()[0]), p.field()[1]) == (self.struct, self.A):
                    var = [el[1] for el in p.x["gep"] if el[0] in ("*", "[]") and not el[1].is_const]
                    if var and idx is None:
                        idx = var[0]
                    if idx is None:
                        nz = [el[1] for el in p.x["gep"] if el[0] in ("*", "[]") and el[1].is_const and el[1].sval != 0]
                        if nz:
                            return None
                        return (None, True)
                    return (idx, False)
                return None
            var = [el[1] for el in p.x["gep"] if el[0] in ("*", "[]") and not el[1].is_const]
            if var:
                if idx is not None:
                    return None
                idx = var[0]
            p = strip_casts(p.ops[0])
            hops += 1
        return None

    def edge(self, f, b, s, st):
        st = st.copy()
        t = b.term
        if t.op == "br" and len(t.x["succ"]) == 2 and t.x["succ"][0] is not t.x["succ"][1]:
            cond = t.ops[0]
            outcome = s is t.x["succ"][0]
            if cond.is_inst and cond.op == "icmp":
                a, c = cond.ops
                pred = cond.pred
                if not outcome:
                    pred = {"eq": "ne", "ne": "eq", "ult": "uge", "uge": "ult", "ugt": "ule", "ule": "ugt",
                            "slt": "sge", "sge": "slt", "sgt": "sle", "sle": "sgt"}.get(pred)
                ua, uc = _uncast(a), _uncast(c)
                if pred in ("ult", "ule", "eq"):            # a <= c
                    if self.le(c, st) and not ua.is_const:
                        st.le = st.le | frozenset(self._with_sig([ua, a]))
                    if self.leg(c, st) and not ua.is_const:
                        st.leg = st.leg | {id(ua), id(a)}
                if pred in ("ugt", "uge", "eq"):            # c <= a
                    if self.le(a, st) and not uc.is_const:
                        st.le = st.le | frozenset(self._with_sig([uc, c]))
                    if self.leg(a, st) and not uc.is_const:
                        st.leg = st.leg | {id(uc), id(c)}
                if pred == "eq":
                    for (x, z) in ((ua, uc), (uc, ua)):
                        if z.is_const and z.is_int and z.uval == 0 and (id(x) in st.cur or id(x) in st.pz):
                            st.lz = True
                        if z.is_const and z.is_int and z.uval == 0 and id(x) in st.pl:
                            # the helper answered 0: what it compared with G on every such return is <= G here
                            add = set()
                            for a_ in self._call_leg.get(id(x), ()):
                                add |= {id(a_), id(_uncast(a_))}
                            st.leg = st.leg | frozenset(add)
        add_le, add_leg = set(), set()
        for ph in s.insts:
            if ph.op != "phi":
                break
            for val, pr in zip(ph.ops, ph.x["inc"]):
                if pr is b:
                    if self.le(val, st):
                        add_le.add(id(ph))
                    if self.leg(val, st):
                        add_leg.add(id(ph))
        dead = {id(i) for i in s.insts}
        st.le = frozenset({x for x in st.le if not (isinstance(x, tuple) and (x[2] in dead or x[3] in dead))})
        st.le = frozenset((set(st.le) - dead) | add_le)
        st.leg = frozenset((set(st.leg) - dead) | add_leg)
        st.cur = frozenset(set(st.cur) - dead)
        st.curg = frozenset(set(st.curg) - dead)
        st.pz = frozenset(set(st.pz) - dead)
        st.pl = frozenset(set(st.pl) - dead)
        return st

    def helper_stale(self, call):
        ts, ok = self.prog.call_targets(call)
        if not ok:
            return False
        res = False
        for t in ts:
            if isinstance(t, ExternFn) or t.decl or not t.internal:
                continue
            key = (t, "stale")
            if key not in self.pz_cache:
                self.pz_cache[key] = False
                sub = Slack(self.prog, self.struct, self.A, self.L, self.K, self.G)
                sub.pz_cache = self.pz_cache
                sub.run(t.build())
                self.pz_cache[key] = bool(sub._stale_ret)
            res = res or self.pz_cache[key]
        return res

    def post_leg_args(self, call):
        """arguments of the call that a static helper has compared with G on every return that can answer 0"""
        ts, ok = self.prog.call_targets(call)
        if not ok or len(ts) != 1:
            return []
        t = next(iter(ts))
        if isinstance(t, ExternFn) or t.decl or not t.internal:
            return []
        key = (t, "pleg")
        if key not in self.pz_cache:
            self.pz_cache[key] = set()
            sub = Slack(self.prog, self.struct, self.A, self.L, self.K, self.G)
            sub.pz_cache = self.pz_cache
            sub.run(t.build())
            self.pz_cache[key] = set(sub._post_leg)
        return [call.ops[k] for k in sorted(self.pz_cache[key]) if k < len(call.ops) and not call.ops[k].is_const]

    def post_zero(self, call):
        """the callee answers 0 only with L == 0 (given the constant-zero arguments of this call)"""
        ts, ok = self.prog.call_targets(call)
        if not ok or not ts:
            return False
        zp = tuple(k for k, o in enumerate(call.ops) if o.is_const and getattr(o, "is_int", False) and o.uval == 0)
        for t in ts:
            if isinstance(t, ExternFn) or t.decl:
                return False
            key = (t, zp)
            if key not in self.pz_cache:
                self.pz_cache[key] = False
                sub = Slack(self.prog, self.struct, self.A, self.L, self.K, self.G)
                sub.pz_cache = self.pz_cache
                bad, _s, post = sub.run(t.build(), want_post=True, zero_params=zp)
                self.pz_cache[key] = bool(post) and not any(bad.values())
            if not self.pz_cache[key]:
                return False
        return True


_RESULTS = {}


def fill_levels(prog):
    """{(struct, A, L, G): K}: fixed byte array members that are copied to / from at an index loaded from a sibling member L;
    G is the sibling member L is subtracted from (`G - L`), if there is exactly one"""
    out = {}
    subs = {}
    for f in prog.functions():
        if f.decl:
            continue
        for i in f.build().insts():
            if i.op == "sub":
                a, b = _uncast(i.ops[0]), _uncast(i.ops[1])
                if a.is_inst and b.is_inst and a.op == "load" and b.op == "load":
                    fa, fb = _field(a.ops[0]), _field(b.ops[0])
                    if fa and fb and fa[0] == fb[0] and fa != fb:
                        subs.setdefault((fb[0], fb[1]), set()).add(fa[1])
    for f in prog.functions():
        if f.decl:
            continue
        for i in f.insts():
            if i.op != "call" or norm_callee(i.callee) not in ("memcpy", "memmove", "memset"):
                continue
            for k in ((0, 1) if norm_callee(i.callee) != "memset" else (0,)):
                p = strip_casts(i.ops[k])
                hops, idx = 0, None
                while p.is_inst and p.op == "getelementptr" and hops < 4:
                    var = [el[1] for el in p.x["gep"] if el[0] in ("*", "[]") and not el[1].is_const]
                    if var and idx is None:
                        idx = var[0]
                    if p.field():
                        fa = (strip_suffix(p.field()[0]), p.field()[1])
                        if idx is not None:
                            x = _uncast(idx)
                            if x.is_inst and x.op == "load":
                                fl = _field(x.ops[0])
                                if fl and fl[0] == fa[0]:
                                    st = prog.struct(fa[0], f.unit)
                                    el = [e for e in (st or {}).get("elems", []) if e.get("n") == fa[1]]
                                    if el and el[0].get("sz") and str(el[0].get("t", "")).startswith("[") and \
                                            str(el[0]["t"]).endswith("x i8]"):
                                        gs = sorted(subs.get((fl[0], fl[1]), ()))
                                        out[(fa[0], fa[1], fl[1], gs[0] if len(gs) == 1 else None)] = el[0]["sz"]
                        break
                    p = strip_casts(p.ops[0])
                    hops += 1
    return out


def _fresh_object_only(prog, f, S):
    """constructors and copy hooks write a freshly allocated object: its members are set up, not maintained"""
    from .util import resolve_ptr
    stores = [i for i in f.insts() if i.op == "store" and (S.is_L(i.ops[1]) or S.is_G(i.ops[1]))]
    if not stores:
        return False
    for i in stores:
        b = strip_casts(resolve_ptr(prog, i.ops[1], f.unit)[0])
        seen, st, fresh = set(), [b], False
        while st:
            x = strip_casts(st.pop())
            if id(x) in seen:
                continue
            seen.add(id(x))
            if x.is_inst and x.op == "phi":
                st.extend(x.ops)
            elif x.is_inst and x.op == "call" and norm_callee(x.callee) in ("calloc", "malloc", "alloc_flex", "alloc_array"):
                fresh = True
            else:
                return False
        if not fresh:
            return False
    return True


def analyse(prog, struct, A, L, K, G=None):
    """-> (failing [(function, store)], {copy call: proven}, [(function, ret)] returns that leave L unvalidated after G changed)"""
    key = (id(prog), struct, A, L, G)
    if key in _RESULTS:
        return _RESULTS[key]
    S = Slack(prog, struct, A, L, K, G)
    failing, sinks, stale = [], {}, []
    for f in prog.functions():
        if f.decl:
            continue
        touches = False
        for i in f.build().insts():
            if i.op == "store" and (S.is_L(i.ops[1]) or S.is_G(i.ops[1])):
                touches = True
            elif i.op == "call" and norm_callee(i.callee) in ("memcpy", "memmove", "memset"):
                for o in i.ops[:2]:
                    t = S.sink_index(strip_casts(o))
                    if t is not None and not t[1]:
                        touches = True
        if not touches or _fresh_object_only(prog, f, S):
            continue
        bad, sk, _p = S.run(f)
        for st_, isbad in bad.items():
            if isbad:
                failing.append((f, st_))
        for c, ok in sk.items():
            sinks[c] = ok
        if not f.internal:
            for r in S._stale_ret:
                stale.append((f, r))
    res = (failing, sinks, stale)
    _RESULTS[key] = res
    return res


def run_fill(chk, prog, rule="K6-fill", only_structs=None):
    """obligations of the fill-level / cursor invariant for every (array member, level) pair of the program"""
    n = 0
    for (struct, A, L, G), K in sorted(fill_levels(prog).items(), key=lambda kv: tuple(str(x) for x in kv[0])):
        if only_structs is not None and struct not in only_structs:
            continue
        failing, sinks, stale = analyse(prog, struct, A, L, K, G)
        S = Slack(prog, struct, A, L, K, G)
        name = "%s.%s[%s]" % (struct.replace("struct.", ""), A, L)
        top = G if G else str(K)
        bad = {id(st_) for (_f, st_) in failing}
        for f in prog.functions():
            if f.decl:
                continue
            sts = [i for i in f.build().insts() if i.op == "store" and (S.is_L(i.ops[1]) or S.is_G(i.ops[1]))]
            if not sts or _fresh_object_only(prog, f, S):
                continue
            for i in sts:
                n += 1
                chk.analysed(f)
                which = L if S.is_L(i.ops[1]) else G
                inst = "%s:%s=@%d" % (f.name, which, i.line)
                if id(i) in bad:
                    if which == L:
                        chk.violation(rule, inst, i, "the position '%s' of %s is set to a value that is not shown to stay within '%s' (neither 0, "
                                      "nor compared with it, nor the current position plus an amount that was compared with the room "
                                      "left): the next copy at that position runs past the valid part of '%s'" % (L, name, top, A))
                    else:
                        chk.violation(rule, inst, i, "the fill '%s' of %s is set to a value that is not bounded by the %d bytes of '%s'"
                                      % (G, name, K, A))
                else:
                    chk.ok(rule, inst, i, "%s stays <= %s" % (which, top if which == L else K))
        for c, ok in sorted(sinks.items(), key=lambda kv: (kv[0].fn.name, kv[0].line)):
            n += 1
            chk.analysed(c.fn)
            inst = "%s:%s@%d" % (c.fn.name, norm_callee(c.callee), c.line)
            if ok:
                chk.ok(rule, inst, c, "copy at the current position of %s, length at most the room left (%s - %s) on every path, also "
                       "behind a call that leaves the position at 0" % (name, top, L))
            else:
                chk.violation(rule, inst, c, "a copy at the position of %s whose length is not bounded by the room that is left "
                              "(%s - %s) on every path: it runs over the end of '%s'" % (name, top, L, A))
        for (f, r) in stale:
            n += 1
            chk.violation(rule, "%s:return@%d" % (f.name, r.line), r, "'%s' was rewritten and the function can answer success without "
                          "'%s' having been compared with it again" % (G, L))
    return n
