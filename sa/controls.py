"""Positive controls: small C units under /verif/controls compiled through the
same clang -> opt -> irdump pipeline on every run."""
import hashlib
import json
import os
import subprocess

from . import build
from .build import AnalysisBroken, VERIF, CACHE
from .ir import Program

CTRL_FLAGS = ["-I" + os.path.join(VERIF, "controls")]


def control_program(*files, flags=()):
    build.ensure_tools()
    db = {"units": {}, "archives": {}, "links": {}}
    dumps = {}
    root = os.path.join(VERIF, "controls")
    for f in files:
        obj = f + ".o"
        unit = {"src": f, "flags": list(CTRL_FLAGS) + list(flags)}
        db["units"][obj] = unit
        _o, path, _hit = build._build_unit(root, obj, unit, ())
        dumps[obj] = path
    p = Program("controls", db, dumps, list(db["units"]))
    p.db_source = "controls"
    return p
