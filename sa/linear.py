"""Linear forms over SSA values: prove  offset + length <= allocation size  coefficient-wise.

A form is {key: coefficient} with key None for the constant term; other keys index into a list of representative
symbols (values compared with same_quantity, i.e. identical modulo casts or loads of the same location).
All symbols denote unsigned quantities, so a form with only non-negative coefficients is >= 0.
Overflow of the size computation itself is the business of the SZ_*_OV checks (rule C05-e), not of this module.
"""
from .ir import strip_casts, norm_callee
from .util import resolve_ptr, const_int
from .bounds import _uncast, same_quantity, _same_loc, ALLOC_FNS, _alloc_of


class Lin:
    def __init__(self, prog, f):
        self.prog, self.f = prog, f
        self.syms = []

    def key(self, v):
        for k, s in enumerate(self.syms):
            if same_quantity(self.prog, self.f, s, v):
                return k
        self.syms.append(v)
        return len(self.syms) - 1

    def const(self, c):
        return {None: c}

    def add(self, a, b, sign=1):
        out = dict(a)
        for k, c in b.items():
            out[k] = out.get(k, 0) + sign * c
        return {k: c for k, c in out.items() if c != 0}

    def scale(self, a, m):
        return {k: c * m for k, c in a.items()}

    def is_const(self, a):
        return all(k is None for k in a)

    def form(self, v, depth=0):
        v = _uncast(v)
        if v.is_const:
            if v.is_int:
                c = v.sval if v.bits and v.bits < 64 else (v.uval if v.uval < (1 << 63) else v.sval)
                return {None: c} if c else {}
            return {}
        if depth > 10:
            return {self.key(v): 1}
        if v.is_inst:
            op = v.op
            if op == "add":
                return self.add(self.form(v.ops[0], depth + 1), self.form(v.ops[1], depth + 1))
            if op == "sub":
                return self.add(self.form(v.ops[0], depth + 1), self.form(v.ops[1], depth + 1), -1)
            if op == "mul":
                a, b = self.form(v.ops[0], depth + 1), self.form(v.ops[1], depth + 1)
                if self.is_const(a):
                    return self.scale(b, a.get(None, 0))
                if self.is_const(b):
                    return self.scale(a, b.get(None, 0))
            if op == "shl" and v.ops[1].is_const:
                return self.scale(self.form(v.ops[0], depth + 1), 1 << v.ops[1].uval)
            if op == "extractvalue" and v.x.get("idx") == [0]:
                c = v.ops[0]
                if c.is_inst and c.op == "call":
                    nm = c.callee or ""
                    if nm.startswith("llvm.uadd.with.overflow") or nm.startswith("llvm.sadd.with.overflow"):
                        return self.add(self.form(c.ops[0], depth + 1), self.form(c.ops[1], depth + 1))
                    if nm.startswith("llvm.umul.with.overflow"):
                        a, b = self.form(c.ops[0], depth + 1), self.form(c.ops[1], depth + 1)
                        if self.is_const(a):
                            return self.scale(b, a.get(None, 0))
                        if self.is_const(b):
                            return self.scale(a, b.get(None, 0))
            if op == "load":
                p = strip_casts(v.ops[0])
                if p.is_inst and p.op == "alloca":
                    st = self._forward(p, v)
                    if st is not None:
                        return self.form(st.ops[0], depth + 1)
        return {self.key(v): 1}

    def _forward(self, alloca, load):
        """the unique store to a local that dominates the load with no other store in between"""
        stores = [u for u in self.f.uses.get(alloca, []) if u.op == "store" and strip_casts(u.ops[1]) is alloca]
        doms = [s for s in stores if self.f.inst_dominates(s, load)]
        if not doms:
            return None
        last = doms[0]
        for s in doms:
            if self.f.inst_dominates(last, s):
                last = s
        for s in stores:
            if s is last:
                continue
            # another store that may execute between last and load
            if self.f.inst_dominates(last, s) and (self.f.inst_dominates(s, load) or self.f.reaches(s.bb, load.bb)):
                return None
        # an escaping call between (the local's address passed to a callee) could also write it
        for u in self.f.uses.get(alloca, []):
            if u.op == "call" and self.f.inst_dominates(last, u) and (self.f.inst_dominates(u, load)):
                return None
        return last

    def _forward_ptr(self, load):
        loc = load.ops[0]
        stores = [i for i in self.f.insts() if i.op == "store" and i.x.get("vt", "").endswith("*") and
                  _same_loc(self.prog, self.f, i.ops[1], loc)] if True else []
        doms = [s for s in stores if self.f.inst_dominates(s, load)]
        if len(stores) != 1 or len(doms) != 1:
            return None
        v = strip_casts(doms[0].ops[0])
        if v.is_inst and v.op in ("getelementptr", "bitcast"):
            return doms[0]
        return None

    def offset_form(self, d):
        """(base value, linear byte offset of pointer d from base)"""
        off = {}
        v = d
        while True:
            if v.is_inst and v.op in ("bitcast", "addrspacecast"):
                v = v.ops[0]
                continue
            if v.is_inst and v.op == "getelementptr":
                for el in v.x["gep"]:
                    if el[0] == "*":
                        off = self.add(off, self.scale(self.form(el[1]), el[2]))
                    elif el[0] == "[]":
                        off = self.add(off, self.scale(self.form(el[1]), el[3]))
                    elif el[0] == "?":
                        return v, None
                    else:
                        s = self.prog.struct(el[0], self.f.unit)
                        if s is None:
                            return v, None
                        off = self.add(off, {None: s["elems"][el[1]]["off"]})
                v = v.ops[0]
                continue
            if v.is_inst and v.op == "load":
                # pointer forwarded through a location written just before:  n->name = n->payload; memcpy(n->name, ..)
                st = self._forward_ptr(v)
                if st is not None:
                    v = st.ops[0]
                    continue
            return v, off

    def alloc_form(self, al, lower=True):
        if not lower:
            saved = self.lower
            self.lower = self.form
            try:
                return self.alloc_form(al, True)
            finally:
                self.lower = saved
        return self._alloc_form(al)

    def _alloc_form(self, al):
        nm = "alloca" if al.op == "alloca" else norm_callee(al.callee)
        a = al.ops
        if nm == "alloca":
            return self.scale(self.form(a[0]), al.x.get("asz", 1))
        if nm == "malloc":
            return self.lower(a[0])
        if nm == "realloc":
            return self.form(a[1])
        if nm in ("calloc", "alloc_array"):
            x, y = self.lower(a[0]), self.lower(a[1])
            if self.is_const(x):
                return self.scale(y, x.get(None, 0))
            if self.is_const(y):
                return self.scale(x, y.get(None, 0))
            return None
        if nm == "alloc_flex":
            b, it, cnt = self.form(a[0]), self.form(a[1]), self.form(a[2])
            if self.is_const(it):
                return self.add(b, self.scale(cnt, it.get(None, 0)))
            if self.is_const(cnt):
                return self.add(b, self.scale(it, cnt.get(None, 0)))
            return None
        if nm == "strndup":
            return self.add(self.form(a[1]), {None: 1})
        return None

    def lower(self, v):
        """a linear lower bound of v: for a phi/select the incoming form that is <= all others"""
        u = _uncast(v)
        if u.is_inst and u.op in ("phi", "select"):
            ops = u.ops[1:] if u.op == "select" else [o for o in u.ops if o is not u]
            if u.op == "phi" and getattr(self, "at", None) is not None:
                # drop incoming values that arrive over an edge whose condition contradicts what is known at the sink
                # (the size was enlarged under 'extra != NULL', the copy happens under 'extra != NULL')
                keep = []
                for val, pred in zip(u.ops, u.x["inc"]):
                    if val is u:
                        continue
                    if not self._edge_contradicts(pred, u.bb):
                        keep.append(val)
                if keep:
                    ops = keep
            forms = [self.lower(o) for o in ops]
            for cand in forms:
                if all(self.nonneg(self.add(o, cand, -1)) for o in forms):
                    return cand
        if u.is_inst and u.op == "load":
            p = strip_casts(u.ops[0])
            if p.is_inst and p.op == "alloca":
                st = self._forward(p, u)
                if st is not None:
                    return self.lower(st.ops[0])
        return self.form(v)

    def _edge_contradicts(self, pred, succ):
        """the edge pred -> succ is only taken under a condition whose opposite holds at self.at"""
        def same_cond(c1, c2):
            if not (c1.is_inst and c2.is_inst and c1.op == "icmp" and c2.op == "icmp" and c1.pred == c2.pred):
                return False
            for a, b in zip(c1.ops, c2.ops):
                a, b = _uncast(a), _uncast(b)
                if a is b:
                    continue
                if a.is_const and b.is_const and ((a.is_null and b.is_null) or (a.is_int and b.is_int and a.uval == b.uval)):
                    continue
                return False
            return True
        here = list(self.f.guards_at(self.at))
        there = list(self.f.guards_at(pred))
        t = pred.term
        if t.op == "br" and len(t.x["succ"]) == 2 and t.x["succ"][0] is not t.x["succ"][1]:
            if t.x["succ"][0] is succ:
                there.append((t.ops[0], True, t))
            elif t.x["succ"][1] is succ:
                there.append((t.ops[0], False, t))
        for (c1, o1, _b1) in there:
            for (c2, o2, _b2) in here:
                if o1 in (True, False) and o2 in (True, False) and o1 != o2 and same_cond(c1, c2):
                    return True
        return False

    def nonneg(self, a):
        return a is not None and all(c >= 0 for c in a.values())

    def fits(self, d, n):
        """(True/False/None, text): offset(d) + n <= allocation size, None when no allocation is in sight"""
        base, off = self.offset_form(d)
        if off is None:
            return None, "non-linear address"
        al = _alloc_of(self.prog, self.f, base)
        if al is None:
            return None, "no allocation"
        N = self.form(n)
        res = None
        for lw in (False, True):
            A = self.alloc_form(al, lw)
            if A is None:
                continue
            D = self.add(self.add(A, off, -1), N, -1)
            res = (self.nonneg(D), "alloc %s - offset %s - length %s = %s" % (self.show(A), self.show(off), self.show(N), self.show(D)))
            if res[0]:
                return res
        if res is None:
            return None, "non-linear allocation size"
        return res

    def show(self, a):
        parts = []
        for k, c in a.items():
            if k is None:
                if c or len(a) == 1:
                    parts.append(str(c))
            else:
                s = self.syms[k]
                nm = getattr(s, "name", None) or ("v%d" % getattr(s, "id", 0))
                parts.append(("%d*%s" % (c, nm)) if c != 1 else nm)
        return "+".join(parts) or "0"
