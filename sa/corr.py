"""Correlated-branch pruning: reachability that does not follow paths on which one and the same memory cell,
unwritten in between, would have to answer a test differently at two branches.

A *fact* is (signature of a branch condition -> outcome).  The signature is structural: the condition's expression
tree with every load replaced by its location (base value + constant byte offset, recursively for loads of loads).
Facts that mention memory die at the first store or call passed (nothing is assumed about what those leave alone);
facts that mention an SSA value defined in a block die when that block is entered again (a new iteration computes a
new value).  This decides exactly the `if (x->flag) continue; ... while (x->flag || ...)` shape and remembered
booleans; anything it cannot express is simply not pruned (more paths, never fewer)."""
from .util import resolve_ptr

_PURE_OPS = ("icmp", "and", "or", "xor", "zext", "sext", "trunc", "bitcast", "add", "sub", "lshr", "shl", "ashr", "select")
_QUIET_CALLS = ("llvm.dbg.", "llvm.lifetime.")


def _writes(i):
    if i.op == "store":
        return True
    if i.op == "call":
        c = i.callee or ""
        return not any(c.startswith(q) for q in _QUIET_CALLS)
    return False


class _Sig:
    def __init__(self, prog, f):
        self.prog, self.f = prog, f
        self.memo = {}

    def of(self, v, depth=0):
        """-> (hashable signature, loads in it, blocks of its SSA leaves) or None"""
        if id(v) in self.memo:
            return self.memo[id(v)]
        r = self._of(v, depth)
        self.memo[id(v)] = r
        return r

    def _of(self, v, depth):
        if depth > 12:
            return None
        if v.is_const:
            if v.is_int:
                return (("c", v.sval), (), frozenset())
            if v.is_null:
                return (("null",), (), frozenset())
            return (("k", id(v)), (), frozenset())
        if v.is_arg:
            return (("a", v.idx), (), frozenset())
        if not v.is_inst:
            return (("g", id(v)), (), frozenset())
        if v.op == "load":
            base, off, exact = resolve_ptr(self.prog, v.ops[0], self.f.unit)
            if not exact:
                return None
            b = self.of(base, depth + 1)
            if b is None:
                return None
            return (("L", b[0], off, v.ty), b[1] + (v,), b[2])
        if v.op in _PURE_OPS:
            parts, loads, blocks = [], (), frozenset()
            for o in v.ops:
                s = self.of(o, depth + 1)
                if s is None:
                    return None
                parts.append(s[0])
                loads += s[1]
                blocks |= s[2]
            return ((v.op, getattr(v, "pred", None), tuple(parts)), loads, blocks)
        return (("v", id(v)), (), frozenset([v.bb]))


def reachable_avoiding(prog, f, target, banned, cap=40000):
    """can block `target` be reached from the entry of f without taking an edge in `banned` ((block, successor) pairs),
    on a path that no pair of correlated branches contradicts?  -> a witness path (list of blocks) or None"""
    f.build()
    S = _Sig(prog, f)
    ban = set((id(a), id(b)) for (a, b) in banned)
    first_write = {}
    last_write = {}
    for b in f.blocks:
        w = [i.pos for i in b.insts if _writes(i)]
        first_write[b] = min(w) if w else None
        last_write[b] = max(w) if w else None
    entry = f.blocks[0]
    start = (None, entry, frozenset())
    seen = {start}
    stack = [(entry, frozenset(), (entry,))]
    n = 0
    while stack:
        b, facts, path = stack.pop()
        n += 1
        if n > cap:
            return list(path)           # give up pruning: report reachable
        if b is target:
            return list(path)
        # facts on SSA values of this block die on (re-)entry
        live = frozenset(x for x in facts if b not in x[2])
        t = b.term
        succs = list(b.succs)
        new_fact = None
        if t.op == "br" and len(t.x["succ"]) == 2 and t.x["succ"][0] is not t.x["succ"][1]:
            s = S.of(t.ops[0])
            # a merged `a || b` / `a && b`: the constant that comes in over the edge just taken decides
            pv = t.ops[0]
            if pv.is_inst and pv.op == "phi" and pv.bb is b and len(path) > 1:
                for val, pr in zip(pv.ops, pv.x["inc"]):
                    if pr is path[-2] and val.is_const and val.is_int:
                        succs = [t.x["succ"][0] if val.uval != 0 else t.x["succ"][1]]
                        s = None
            if s is not None and (s[1] or s[2]):
                sig, loads, blocks = s
                here = all(ld.bb is b for ld in loads)
                usable = here and (first_write[b] is None or all(ld.pos < first_write[b] for ld in loads)) if loads else True
                if usable:
                    for (fs, out, _bl, _m) in live:
                        if fs == sig:
                            succs = [t.x["succ"][0] if out else t.x["succ"][1]]
                            break
                keeps = here and (last_write[b] is None or all(ld.pos > last_write[b] for ld in loads)) if loads else True
                if keeps:
                    new_fact = (sig, blocks, bool(loads))
        if first_write[b] is not None:
            live = frozenset(x for x in live if not x[3])
        for sx in succs:
            if (id(b), id(sx)) in ban:
                continue
            fx = live
            if new_fact is not None and len(succs) == 2:
                fx = frozenset(set(live) | {(new_fact[0], sx is t.x["succ"][0], new_fact[1], new_fact[2])})
            elif new_fact is not None:
                fx = live
            st = (b, sx, fx)
            if st in seen:
                continue
            seen.add(st)
            stack.append((sx, fx, path + (sx,)))
    return None


def outcome_edges(f, call, nonzero):
    """edges (block, successor) taken exactly when `call`'s result is non-zero (nonzero=True) or zero"""
    out = []
    for b in f.blocks:
        t = b.term
        if not (t.op == "br" and len(t.x["succ"]) == 2):
            continue
        v, pol = t.ops[0], True
        if v.is_inst and v.op == "icmp" and v.pred in ("eq", "ne") and v.ops[1].is_const and v.ops[1].is_int and v.ops[1].sval == 0:
            pol = v.pred == "ne"
            v = v.ops[0]
        while v.is_inst and v.op in ("zext", "sext", "trunc"):
            v = v.ops[0]
        if v is call:
            out.append((b, t.x["succ"][0] if pol == nonzero else t.x["succ"][1]))
    return out
