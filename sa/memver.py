"""Memory versions: two loads of the same location denote the same quantity only if nothing that may write the
location lies between them.

mod(F)   the (struct, field) pairs a function may store to, directly or through anything it calls (slot calls: every
         implementation); a block copy into an object of struct S counts as ("*", S).  Library functions outside the
         program write only through the pointers they are handed.
killers  in the function at hand: stores to the same field (of any object of that struct type -- type-based aliasing),
         calls whose mod set contains it, calls that are handed the address of the field or of the local.
between  a killer k separates loads a and b if it can execute after the most recent a and before b (or the other way
         round): a path a -> k -> b that does not pass a again.
"""
from .ir import strip_casts, strip_suffix, norm_callee, ExternFn

_BLOCK_WRITERS = {"memcpy": 0, "memmove": 0, "memset": 0, "strcpy": 0, "strncpy": 0, "stpcpy": 0, "strcat": 0,
                  "strncat": 0, "sprintf": 0, "snprintf": 0, "vsnprintf": 0, "read": 1, "pread": 1, "fread": 0,
                  "getline": 0, "strtol": 1, "strtoul": 1, "strtoull": 1, "strtoll": 1}


def _field_key(p):
    """(struct, field) of the innermost field a pointer designates, None if it is not a field access"""
    p = strip_casts(p)
    if p.is_inst and p.op == "getelementptr":
        fs = p.fields()
        if fs:
            return (strip_suffix(fs[-1][0]), fs[-1][1])
    return None


def _pointee_struct(v):
    """struct S if v (before casts) is an S* value"""
    seen = 0
    while v.is_inst and v.op == "bitcast" and seen < 4:
        ty = getattr(v.ops[0], "ty", "") or ""
        if ty.startswith("%struct.") and ty.endswith("*") and not ty.endswith("**"):
            return strip_suffix(ty[1:-1])
        v = v.ops[0]
        seen += 1
    ty = getattr(v, "ty", "") or ""
    if ty.startswith("%struct.") and ty.endswith("*") and not ty.endswith("**"):
        return strip_suffix(ty[1:-1])
    return None


class Mod:
    def __init__(self, prog):
        self.prog = prog
        self.direct = {}
        self.full = {}

    def _direct(self, fn):
        if fn in self.direct:
            return self.direct[fn]
        out = set()
        fn.build()
        for i in fn.insts():
            if i.op == "store":
                k = _field_key(i.ops[1])
                if k and _local_root(self.prog, fn, i.ops[1]) is None:      # the function's own locals are nobody else's
                    out.add(k)
                    # a store of a whole (sub-)struct value writes every field of it
                elif _pointee_struct(i.ops[1]):
                    pass
            elif i.op == "call":
                nm = norm_callee(i.callee) if i.callee else None
                if nm in _BLOCK_WRITERS and len(i.ops) > _BLOCK_WRITERS[nm]:
                    d = i.ops[_BLOCK_WRITERS[nm]]
                    if _local_root(self.prog, fn, d) is not None:
                        continue
                    k = _field_key(d)
                    if k:
                        out.add(k)
                    s = _pointee_struct(strip_casts(d)) or _pointee_struct(d)
                    if s:
                        out.add(("*", s))
        self.direct[fn] = out
        return out

    def of(self, fn):
        """transitive mod set of a defined function"""
        if fn in self.full:
            return self.full[fn]
        seen, ext, _un = self.prog.reachable_from([fn])
        out = set()
        for g in seen:
            out |= self._direct(g)
        self.full[fn] = out
        return out

    def call_may_write(self, call, key, addr_roots):
        nm = norm_callee(call.callee) if call.callee else None
        if nm and (nm.startswith("llvm.dbg") or nm.startswith("llvm.lifetime")):
            return False
        # the address of the location itself is handed over
        for o in call.ops:
            o = strip_casts(o)
            if any(o is r for r in addr_roots):
                return True
            if key and _field_key(o) == key:
                return True
        if nm in _BLOCK_WRITERS:
            d = call.ops[_BLOCK_WRITERS[nm]] if len(call.ops) > _BLOCK_WRITERS[nm] else None
            if d is not None and key:
                if _field_key(d) == key:
                    return True
                s = _pointee_struct(strip_casts(d)) or _pointee_struct(d)
                if s and s == key[0]:
                    return True
            return False
        ts, ok = self.prog.call_targets(call)
        if not ok:
            return key is not None      # an unresolved indirect call: anything
        for t in ts:
            if isinstance(t, ExternFn):
                continue
            m = self.of(t.build())
            if key and (key in m or ("*", key[0]) in m):
                return True
        return False


_MODS = {}


def mod_of(prog):
    m = _MODS.get(id(prog))
    if m is None:
        m = _MODS[id(prog)] = Mod(prog)
    return m


def _path(f, x, y, avoid):
    """can execution go from just behind instruction x to instruction y without executing `avoid`"""
    def scan(bb, start):
        for i in bb.insts[start:]:
            if i is y:
                return True
            if i is avoid:
                return False
        return None
    r = scan(x.bb, x.pos + 1)
    if r is not None:
        return r
    seen, stack = set(), list(x.bb.succs)
    while stack:
        b = stack.pop()
        if b in seen:
            continue
        seen.add(b)
        r = scan(b, 0)
        if r is True:
            return True
        if r is None:
            stack.extend(b.succs)
    return False


def _param_root(prog, f, p):
    from .util import resolve_ptr
    b = strip_casts(resolve_ptr(prog, p, f.unit)[0])
    return b.idx if b.is_arg else None


_WA = {}


def _fn_writes_param(prog, g, idx, depth=0):
    """may the defined function g write through its idx-th parameter (or hand it to something that may)"""
    key = (id(g), idx)
    if key in _WA:
        return _WA[key]
    _WA[key] = True          # recursion: assume the worst
    g.build()
    res = False
    for i in g.insts():
        if i.op == "store":
            if _param_root(prog, g, i.ops[1]) == idx:
                res = True
            elif strip_casts(i.ops[0]).is_arg and strip_casts(i.ops[0]).idx == idx:
                res = True      # the pointer itself is kept somewhere
        elif i.op == "call":
            nm = norm_callee(i.callee) if i.callee else None
            if nm and (nm.startswith("llvm.dbg") or nm.startswith("llvm.lifetime")):
                continue
            for k_, o in enumerate(i.ops):
                if not (hasattr(o, "ty") and o.ty and o.ty.endswith("*")) or _param_root(prog, g, o) != idx:
                    continue
                if nm in _BLOCK_WRITERS:
                    if k_ == _BLOCK_WRITERS[nm]:
                        res = True
                elif depth >= 3 or _call_writes_arg(prog, i, k_, depth + 1):
                    res = True
        if res:
            break
    _WA[key] = res
    return res


_READ_ONLY_LIBC = {"strlen", "strcmp", "strncmp", "memcmp", "strchr", "strrchr", "fputs", "fprintf", "printf", "puts", "perror",
                   "fwrite", "write", "pwrite", "strdup", "strndup", "atoi", "strnlen", "memchr", "strstr", "fnmatch", "free"}


def _call_writes_arg(prog, call, k, depth=0):
    nm = norm_callee(call.callee) if call.callee else None
    if nm in _READ_ONLY_LIBC:
        return False
    ts, ok = prog.call_targets(call)
    if not ok or not ts:
        return True
    for t in ts:
        if isinstance(t, ExternFn):
            return True
        if k >= len(t.params) or _fn_writes_param(prog, t.build(), k, depth):
            return True
    return False


def _local_root(prog, f, p):
    """the alloca a pointer is derived from (constant or variable offsets into a local object), else None"""
    from .util import resolve_ptr
    b = strip_casts(resolve_ptr(prog, p, f.unit)[0])
    return b if (b.is_inst and b.op == "alloca") else None


def killers(prog, f, ld):
    """instructions of f that may write the location `ld` reads"""
    key = _field_key(ld.ops[0])
    root = _local_root(prog, f, ld.ops[0])
    if key is None and root is None:
        return None
    M = mod_of(prog)
    out = []
    for i in f.insts():
        if i.op == "store":
            q = strip_casts(i.ops[1])
            if root is not None:
                # a local object: only writes through pointers derived from it
                if _local_root(prog, f, q) is root and (key is None or _field_key(q) in (key, None)):
                    out.append(i)
            elif key and _field_key(q) == key and _local_root(prog, f, q) is None:
                out.append(i)
        elif i.op == "call":
            nm = norm_callee(i.callee) if i.callee else None
            if nm and (nm.startswith("llvm.dbg") or nm.startswith("llvm.lifetime")):
                continue
            if root is not None:
                if nm in _BLOCK_WRITERS:
                    k = _BLOCK_WRITERS[nm]
                    if len(i.ops) > k and _local_root(prog, f, i.ops[k]) is root:
                        out.append(i)
                else:
                    for k_, o in enumerate(i.ops):
                        if hasattr(o, "ty") and o.ty and o.ty.endswith("*") and _local_root(prog, f, o) is root:
                            if _call_writes_arg(prog, i, k_):
                                out.append(i)
                                break
            elif M.call_may_write(i, key, []):
                out.append(i)
    return out


USE_POINT = [None]


def written_between(prog, f, a, b):
    """loads a and b of one location whose values meet at the current use point: may the location have been written
    between the two executions that produced them?  The earlier of the two (x) is by definition not executed again
    before the later one (y), and neither is executed again before the use: a path  x -> k -> y -> use  that passes x
    only at its start and y only once, for a killer k, in either order.  Without a use point the last leg is dropped."""
    if a is b:
        return False
    ks = killers(prog, f, a)
    if ks is None:
        return False            # not a field or local: left to the callers' own treatment (unchanged behaviour)
    u = USE_POINT[0]
    if u is not None and getattr(u, "fn", None) is not f:
        u = None
    for (x, y) in ((a, b), (b, a)):
        if u is not None and u is not y and not _path2(f, y, u, x, y):
            continue
        for k in ks:
            if k is x:
                continue
            if _path(f, x, k, x) and _path(f, k, y, x):
                return True
    return False


def _path2(f, x, y, avoid1, avoid2):
    def scan(bb, start):
        for i in bb.insts[start:]:
            if i is y:
                return True
            if i is avoid1 or i is avoid2:
                return False
        return None
    r = scan(x.bb, x.pos + 1)
    if r is not None:
        return r
    seen, stack = set(), list(x.bb.succs)
    while stack:
        b = stack.pop()
        if b in seen:
            continue
        seen.add(b)
        r = scan(b, 0)
        if r is True:
            return True
        if r is None:
            stack.extend(b.succs)
    return False
