"""K8-dangling: a pointer that lives in memory the caller can still see (a struct field, *out-parameter, a global) is not
left behind after it was freed.

For every free(v) where v was loaded from such a location L and L still holds v at the time of the free, every path from
the free to a return must pass a *kill*: a store to L, a free / realloc / memset of the object that contains L, or a
call that hands &L to a function which stores to it before it can return.  Otherwise the next user of L (a destructor, an
error path of the caller, a retry) frees or dereferences released memory.

Not armed for local variables (the location dies with the frame) and for elements released in a loop whose container is
released afterwards (that is a kill of the container).
"""
from .ir import strip_casts, norm_callee, ExternFn
from .util import resolve_ptr

FREE = ("free", "sqfs_free")


def _same_loc(prog, f, p, q):
    a = resolve_ptr(prog, p, f.unit)
    b = resolve_ptr(prog, q, f.unit)
    if a[1] != b[1]:
        return False
    x, y = strip_casts(a[0]), strip_casts(b[0])
    if x is y:
        return True
    if x.is_const and y.is_const and getattr(x, "gname", None) and x.gname == getattr(y, "gname", None):
        return True
    if x.is_inst and y.is_inst and x.op == "load" and y.op == "load":
        return _same_loc(prog, f, x.ops[0], y.ops[0])
    return False


def _same_val(prog, f, a, b):
    a, b = strip_casts(a), strip_casts(b)
    if a is b:
        return True
    if a.is_inst and b.is_inst and a.op == "load" and b.op == "load":
        return _same_loc(prog, f, a.ops[0], b.ops[0])
    return False


def _callee_always_stores(prog, f, call, L):
    """the call passes &L and the callee stores through that parameter before any return"""
    t = prog.fn(call.callee, f.unit) if call.callee else None
    if t is None or isinstance(t, ExternFn) or t.decl:
        return False
    for k, a in enumerate(call.ops):
        if getattr(a, "ty", "").endswith("*") and _same_loc(prog, f, a, L) and k < len(t.params):
            t.build()
            par = t.params[k]
            stb = {i.bb for i in t.insts() if i.op == "store" and strip_casts(i.ops[1]) is par}
            if not stb:
                continue
            # no return reachable from the entry without passing a block that stores through the parameter
            seen, stack, leak = set(), [t.blocks[0]], False
            while stack:
                b = stack.pop()
                if b in seen or b in stb:
                    continue
                seen.add(b)
                if b.term.op == "ret":
                    leak = True
                    break
                stack.extend(b.succs)
            if not leak:
                return True
    return False


_FREEING = {}


def freeing_param(prog, g):
    """index of the parameter that the internal function g releases (the head of a list it walks and frees), or None"""
    if g.qname in _FREEING:
        return _FREEING[g.qname]
    res = None
    if not g.decl and len(g.params) >= 1:
        g.build()
        for c in g.calls():
            if norm_callee(c.callee) not in FREE:
                continue
            seen, stack = set(), [c.ops[0]]
            while stack and res is None:
                v = strip_casts(stack.pop())
                if id(v) in seen:
                    continue
                seen.add(id(v))
                if not v.is_inst and not v.is_const and v in g.params:
                    res = g.params.index(v)
                elif v.is_inst and v.op == "phi":
                    stack.extend(v.ops)
    _FREEING[g.qname] = res
    return res


def _freed_arg(prog, f, c):
    """the value released by call c: argument of free(), or of an internal helper that frees one of its parameters"""
    nm = norm_callee(c.callee)
    if nm in FREE:
        return c.ops[0]
    t = prog.fn(c.callee, f.unit) if c.callee else None
    if t is None or isinstance(t, ExternFn) or t is f:
        return None
    k = freeing_param(prog, t)
    if k is not None and k < len(c.ops):
        return c.ops[k]
    return None


def _is_teardown(prog, f):
    """a void function that does nothing but release things reachable from its parameter: the end of the object's life by
    convention (the caller does not use the object again); fields it leaves behind are not 'dangling'"""
    if f.ret != "void" or not f.params:
        return False
    n = 0
    for c in f.calls():
        nm = norm_callee(c.callee) or ""
        if nm.startswith("llvm."):
            continue
        n += 1
        if nm in FREE or nm in ("sqfs_drop", "closedir", "close", "fclose"):
            continue
        if _freed_arg(prog, f, c) is not None:
            continue
        t = prog.fn(c.callee, f.unit) if c.callee else None
        if t is not None and not isinstance(t, ExternFn) and t is not f and _is_teardown(prog, t):
            continue
        return False
    return n > 0 and not any(i.op == "store" and not (strip_casts(i.ops[1]).is_inst and strip_casts(i.ops[1]).op == "alloca")
                             for i in f.insts())


def candidates(prog, f):
    """[(free call, location pointer L, base object)]"""
    out = []
    if _is_teardown(prog, f):
        return out
    for c in f.calls():
        fa = _freed_arg(prog, f, c)
        if fa is None:
            continue
        v = strip_casts(fa)
        if not (v.is_inst and v.op == "load"):
            # the freed value itself was put into caller-visible memory earlier (linked into a list, stored in a field)
            for st in f.insts():
                # the store must dominate the free: inside a loop the same SSA name denotes a new object per iteration, and a
                # store that merely reaches the free belongs to an earlier object
                if st.op == "store" and strip_casts(st.ops[0]) is v and f.inst_dominates(st, c):
                    L2 = st.ops[1]
                    b2 = strip_casts(resolve_ptr(prog, L2, f.unit)[0])
                    if b2.is_inst and b2.op == "alloca":
                        continue
                    if b2 is v:
                        continue        # a field of the freed object itself
                    # overwritten again before the free?
                    if any(i.op == "store" and i is not st and _same_loc(prog, f, i.ops[1], L2) and f.inst_dominates(st, i) and
                           f.inst_dominates(i, c) for i in f.insts()):
                        continue
                    out.append((c, L2, b2))
            continue
        L = v.ops[0]
        base = strip_casts(resolve_ptr(prog, L, f.unit)[0])
        if base.is_inst and base.op == "alloca":
            # a local that holds the pointer: the same local's value may have been put into caller-visible memory before
            # (`obj->data = raw; ... fail: free(raw);`)
            writers = [i for i in f.insts() if (i.op == "store" and strip_casts(i.ops[1]) is base) or
                       (i.op == "call" and any(strip_casts(o) is base for o in i.ops))]
            for st in f.insts():
                if st.op != "store":
                    continue
                sv = strip_casts(st.ops[0])
                if not (sv.is_inst and sv.op == "load" and strip_casts(sv.ops[0]) is base) or not f.inst_dominates(st, c):
                    continue
                L2 = st.ops[1]
                b2 = strip_casts(resolve_ptr(prog, L2, f.unit)[0])
                if b2.is_inst and b2.op == "alloca":
                    continue
                # the local was not given another value between that store and the free
                if any((f.inst_dominates(sv, w) or f.reaches(sv.bb, w.bb)) and (f.inst_dominates(w, c) or f.reaches(w.bb, c.bb)) and
                       not f.inst_dominates(w, sv) for w in writers):
                    continue
                if any(i.op == "store" and i is not st and _same_loc(prog, f, i.ops[1], L2) and f.inst_dominates(st, i) and
                       f.inst_dominates(i, c) for i in f.insts()):
                    continue
                out.append((c, L2, b2))
            continue
        # L was given a new value between the load and the free: it no longer holds v
        if any(i.op == "store" and _same_loc(prog, f, i.ops[1], L) and (f.inst_dominates(v, i) or f.reaches(v.bb, i.bb)) and
               f.inst_dominates(i, c) for i in f.insts()):
            continue
        out.append((c, L, base))
    return out


def leak_path(prog, f, c, L, base):
    """a return block reachable from the free without a kill, or None"""
    def is_kill(i):
        if i.op == "store" and _same_loc(prog, f, i.ops[1], L):
            return True
        if i.op == "call":
            nm = norm_callee(i.callee)
            if nm in FREE + ("memset", "realloc") and i.ops:
                if strip_casts(resolve_ptr(prog, i.ops[0], f.unit)[0]) is base or _same_val(prog, f, i.ops[0], base):
                    return True
            if nm not in FREE and _callee_always_stores(prog, f, i, L):
                return True
        return False

    if any(is_kill(i) for i in c.bb.insts[c.pos + 1:]):
        return None
    if c.bb.term.op == "ret":
        return c.bb
    stack, vis = list(c.bb.succs), set()
    while stack:
        b = stack.pop()
        if b in vis:
            continue
        vis.add(b)
        if any(is_kill(i) for i in b.insts):
            continue
        if b.term.op == "ret":
            return b
        stack.extend(b.succs)
    return None


def run_dangling(chk, prog, rule, unit_filter, exceptions=None):
    exceptions = exceptions or {}
    seen = set()
    n = 0
    for f in prog.functions():
        if f.decl or f.qname in seen or not unit_filter(f.unit.src):
            continue
        seen.add(f.qname)
        f.build()
        for k, (c, L, base) in enumerate(candidates(prog, f)):
            n += 1
            chk.analysed(f)
            inst = "%s:free@%d" % (f.name, c.line)
            b = leak_path(prog, f, c, L, base)
            if b is None:
                chk.ok(rule, inst, c, "the location the freed pointer came from is overwritten, or its container released, before the function can return")
            elif (f.name, k) in exceptions:
                chk.exception(rule, inst, c, exceptions[(f.name, k)])
            else:
                chk.violation(rule, inst, c, "the pointer is freed but stays stored where the caller can see it, and the function can "
                              "return (line %d) without replacing it: the next release or use of that location hits freed memory" % (b.term.line or 0))
    return n


def run_free_stack(chk, prog, rule, scope):
    """K8-freestack: what is handed to free() was handed out by the allocator.  A pointer that on some way into the call
    names a local array (the small-buffer idiom: `p = n <= K ? small : malloc(n)`) is released only where the guards
    establish that it is not that array."""
    from .ir import strip_casts, norm_callee
    n = 0
    for f in prog.functions():
        if f.decl or not scope(f.unit.src):
            continue
        f.build()
        for c in f.calls():
            if norm_callee(c.callee) not in ("free", "realloc") or not c.ops:
                continue
            p = strip_casts(c.ops[0])
            leaves, seen, work = [], set(), [p]
            while work:
                v = strip_casts(work.pop())
                while v.is_inst and v.op == "getelementptr" and all(el[0] in ("*", "[]") and el[1].is_const and el[1].sval == 0
                                                                   for el in v.x["gep"] if el[0] in ("*", "[]")) and not v.field():
                    v = strip_casts(v.ops[0])
                if id(v) in seen:
                    continue
                seen.add(id(v))
                if v.is_inst and v.op == "phi":
                    work.extend(v.ops)
                elif v.is_inst and v.op == "select":
                    work.extend(v.ops[1:])
                else:
                    leaves.append(v)
            stack = [v for v in leaves if v.is_inst and v.op == "alloca"]
            if len(leaves) < 2 and not stack:
                continue
            n += 1
            chk.analysed(f)
            inst = "%s:%s@%d" % (f.name, norm_callee(c.callee), c.line)
            bad = None
            for a in stack:
                excluded = False
                for cond, outcome, br in f.guards_at(c.bb):
                    if cond.is_inst and cond.op == "icmp" and cond.pred in ("eq", "ne") and outcome == (cond.pred == "ne"):
                        xs = [strip_casts(o) for o in cond.ops]
                        roots = []
                        for x in xs:
                            while x.is_inst and x.op == "getelementptr" and not x.field():
                                x = strip_casts(x.ops[0])
                            roots.append(x)
                        if any(r is a for r in roots) and any(r is p for r in roots):
                            excluded = True
                if not excluded:
                    bad = a
            if bad is None:
                chk.ok(rule, inst, c, "every value that can reach the call came from the allocator (or the local buffer is excluded by "
                       "a test in front of it)", nontrivial=bool(stack))
            else:
                chk.violation(rule, inst, c, "the pointer released here can be the local array '%s': free() of stack memory aborts the "
                              "process (often on a path that only an earlier failure takes)" % (bad.name or "?"))
    return n
