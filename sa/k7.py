"""K7: guarded narrowing into on-disk / image-visible fields (writer path).

A *site* is a store into a field of an on-disk structure (or the image-visible fields of tree_node_t) whose value is an
implicit truncation of a wider value.  It must be (1) proven in range by the provenance engine (guards, clamps, masks,
bit widths, tag-mediated guards), or (2) covered by a *guard provider* that is re-verified on every run, or (3) be a
named exception with its reason.  Anything else -- including a site that is not in the table at all -- is a violation:
a value the format cannot hold would be stored wrapped instead of being refused.
"""
import re

from .ir import strip_casts, norm_callee
from .util import backward_slice, const_int
from .bounds import _uncast, describe
from .bounds2 import Bounder, Cap
from .effects import fields_in_slice

ONDISK = re.compile(r"^struct\.(sqfs_super_t|sqfs_inode_t|sqfs_inode_\w+_t|sqfs_dir_header_t|sqfs_dir_node_t|"
                    r"sqfs_dir_index_t|sqfs_fragment_t|sqfs_xattr_\w+_t|tree_node_t)$")
NOT_ONDISK_FIELDS = {"payload_bytes_used", "payload_bytes_available", "flags"}      # in-memory bookkeeping / bit sets
TREE_FIELDS = {"uid", "gid", "mod_time", "mode", "link_count", "inode_num", "xattr_idx"}
IDENTITY = {"__uint16_identity", "__uint32_identity", "__uint64_identity"}
SCOPE = ("lib/sqfs/src/dir_writer.c", "lib/sqfs/src/write_inode.c", "lib/sqfs/src/inode.c", "lib/sqfs/src/id_table.c",
         "lib/sqfs/src/frag_table.c", "lib/sqfs/src/super.c", "lib/sqfs/src/write_super.c", "lib/sqfs/src/meta_writer.c",
         "lib/sqfs/src/block_writer.c", "lib/sqfs/src/xattr/", "lib/sqfs/src/block_processor/", "lib/common/src/writer/",
         "lib/fstree/src/", "bin/gensquashfs/src/", "bin/tar2sqfs/src/", "lib/sqfs/src/write_table.c")


def sites(prog):
    out = []
    for f in prog.functions():
        if not f.unit.src.startswith(SCOPE):
            continue
        for i in f.insts():
            if i.op != "store":
                continue
            p = strip_casts(i.ops[1])
            if not (p.is_inst and p.op == "getelementptr" and p.field()):
                continue
            s_, fn_ = p.field()
            s_ = re.sub(r"\.\d+$", "", s_)
            if not ONDISK.match(s_) or fn_ in NOT_ONDISK_FIELDS:
                continue
            if s_ == "struct.tree_node_t" and fn_ not in TREE_FIELDS:
                continue
            v = i.ops[0]
            while v.is_inst and v.op == "call" and norm_callee(v.callee) in IDENTITY:
                v = v.ops[0]
            if not (v.is_inst and v.op == "trunc"):
                continue
            w = int(re.match(r"i(\d+)$", v.ty).group(1))
            out.append((f, i, "%s.%s" % (s_.replace("struct.", ""), fn_), w, v.ops[0]))
    return out


def escape_points(prog, f, store):
    """a store into a *local* object of an on-disk type only matters where that object leaves the function: copied
    into other memory (struct assignment = memcpy) or handed to a callee"""
    from .util import resolve_ptr
    base = strip_casts(resolve_ptr(prog, store.ops[1], f.unit)[0])
    if not (base.is_inst and base.op == "alloca"):
        return []
    pts = []
    seen, stack = set(), [base]
    while stack:
        v = stack.pop()
        if id(v) in seen:
            continue
        seen.add(id(v))
        for u in f.uses.get(v, []):
            if u.op in ("bitcast", "getelementptr") and u.ops[0] is v:
                stack.append(u)
            elif u.op == "call":
                nm = norm_callee(u.callee)
                if nm in ("memcpy", "memmove") and len(u.ops) > 1 and strip_casts(resolve_ptr(prog, u.ops[1], f.unit)[0]) is base:
                    pts.append(u)
                elif nm in ("memset",) or (nm or "").startswith("llvm."):
                    continue
                elif nm in ("memcpy", "memmove"):
                    continue
                else:
                    pts.append(u)
    # only escapes that can happen after the store
    return [p for p in pts if p is not store and (f.inst_dominates(store, p) or f.reaches(store.bb, p.bb))]


# ---- guard providers -------------------------------------------------------------------------------------------

def provider_run_limits(prog, what):
    """the function that determines how many directory entries share a header: (1) its result never exceeds
    SQFS_MAX_DIR_ENT (256) -- interval analysis of the returned value, whatever the loop looks like; (2) some exit of
    its loop depends on the inode number difference with the +-32767 limits (both signs) and (3) on the inode block
    (inode_ref); the conditions may sit in the loop or in a helper whose answer ends the loop."""
    from .interval import Intervals
    unit = prog.by_src.get("lib/sqfs/src/dir_writer.c")
    if unit is None:
        return False, "dir_writer.c missing"
    best = None
    for f in unit.functions.values():
        if f.decl:
            continue
        f.build()
        if not f.loops or not f.ret.startswith("i") or f.ret == "i1":
            continue
        # a count, not a status: nothing it returns is the result of a call or a negative constant
        from .errflow import ret_values
        leaves = ret_values(f)
        if not leaves or any((v.is_inst and v.op == "call") or (v.is_const and v.is_int and v.sval < 0) for v in
                             [strip_casts(x) for x in leaves]):
            continue
        # what the exits of the loops look at (helpers included)
        flds, consts = set(), []
        for header, body in f.loops:
            for b in body:
                if all(sx in body for sx in b.succs):
                    continue
                cond = b.term.ops[0] if b.term.ops else None
                if cond is None or not cond.is_inst:
                    continue
                work = [cond]
                sl = [cond] + list(backward_slice(cond, phi_control=False, limit=120))
                for x in sl:
                    if x.is_inst and x.op == "call" and x.callee:
                        t = prog.fn(x.callee, unit)
                        if t is not None and not t.decl and t.unit is unit:
                            t.build()
                            sl = sl + list(t.insts())
                for x in sl:
                    if not x.is_inst:
                        continue
                    if x.op == "load":
                        q = strip_casts(x.ops[0])
                        if q.is_inst and q.op == "getelementptr" and q.field():
                            flds.add(q.field()[1])
                    if x.op == "icmp":
                        consts += [o.sval for o in x.ops if o.is_const and o.is_int]
        if "inode_num" not in flds or "inode_ref" not in flds:
            continue
        lo_hi = Intervals(f).returned()
        best = (f, lo_hi, consts)
        if lo_hi[1] > 256:
            return False, "%s can let a header cover up to %s entries (limit is 256): the interval analysis of its result gives [%d, %s]" % (
                f.name, "an unbounded number of" if lo_hi[1] > (1 << 32) else str(lo_hi[1]), lo_hi[0],
                "unbounded" if lo_hi[1] > (1 << 32) else str(lo_hi[1]))
        n32767 = sum(1 for c in consts if abs(c) == 32767)
        if n32767 < 2:
            return False, "%s does not end a run on both signs of an inode number difference beyond 32767" % f.name
        return True, "%s: result within [%d, %d]; exits on |inode number difference| > 32767 (both signs) and on a different inode block" % (
            f.name, lo_hi[0], lo_hi[1])
    return False, "no run-length function (a loop over entries that looks at inode_num and inode_ref) found in dir_writer.c"


def _is_counter(v):
    v = _uncast(v)
    if not (v.is_inst and v.op == "phi"):
        return False
    zero = any(o.is_const and o.is_int and o.uval == 0 for o in v.ops)
    inc = any(o.is_inst and o.op == "add" and _uncast(o.ops[0]) is v and const_int(o.ops[1]) == 1 for o in v.ops)
    return zero and inc


def provider_id_limit(prog, what):
    """every growth of the id table is dominated by a test that keeps the number of ids representable in 16 bits"""
    f = prog.fn("sqfs_id_table_id_to_index")
    if f is None:
        return False, "sqfs_id_table_id_to_index missing"
    f.build()
    grows = [c for c in f.calls() if norm_callee(c.callee) in ("array_append", "array_set_capacity")]
    if not grows:
        return False, "no growth site found"
    for g in grows:
        ok = False
        for cond, outcome, br in f.guards_at(g.bb):
            if not (cond.is_inst and cond.op == "icmp"):
                continue
            flds = {n for (_s, n) in fields_in_slice(cond)}
            k = [o.uval for o in cond.ops if o.is_const and o.is_int]
            if "used" in flds and k:
                lim = k[0]
                p = cond.pred
                # used == K is false / used >= K false / used < K true ...   => used <= K-1 afterwards used+1 <= K
                if (p == "eq" and outcome is False) or (p in ("uge", "ugt") and outcome is False) or \
                        (p in ("ult", "ule", "ne") and outcome is True):
                    new_max = lim if p in ("eq", "uge", "ult", "ne") else lim + 1
                    if new_max <= 0xFFFF:
                        ok = True
        if not ok:
            return False, "an id can be appended when 65535 ids are already stored: the 16-bit id count wraps to 0"
    return True, "ids are appended only while fewer than 65535 are stored"


def provider_key_length(prog, what):
    """every key that enters the xattr writer's key table passed a length test that fits the 16-bit size field"""
    n = 0
    for f in prog.functions():
        for c in f.calls("str_table_get_index"):
            a = strip_casts(c.ops[0])
            if not (a.is_inst and a.op == "getelementptr" and a.field() and a.field()[1] == "keys"):
                continue
            n += 1
            key = c.ops[1]
            ok = False
            for cond, outcome, br in f.guards_at(c.bb):
                if not (cond.is_inst and cond.op == "icmp"):
                    continue
                for x in backward_slice(cond):
                    if x.is_inst and x.op == "call" and norm_callee(x.callee) == "strlen" and strip_casts(x.ops[0]) is strip_casts(key):
                        k = [o.uval for o in cond.ops if o.is_const and o.is_int]
                        if k and k[0] <= 0xFFFF and ((cond.pred in ("ugt", "uge") and outcome is False) or
                                                     (cond.pred in ("ule", "ult") and outcome is True)):
                            ok = True
            if not ok:
                return False, "%s adds a key to the key table without a length test against 65535" % f.name
    if n == 0:
        return False, "no insertion into the xattr key table found"
    return True, "keys enter the key table only after strlen(key) <= 65535 was established"


def provider_field_stores(sname, fname, maxval, vt=None):
    def prov(prog, what):
        n = 0
        for f in prog.functions():
            for i in f.insts():
                if i.op != "store":
                    continue
                p = strip_casts(i.ops[1])
                if not (p.is_inst and p.op == "getelementptr"):
                    continue
                names = [nm for (_s, nm) in p.fields()]
                structs = [re.sub(r"\.\d+$", "", s_) for (s_, _n) in p.fields()]
                if not names or sname not in structs:
                    continue
                if fname not in names[-1].split("|") and names[-1] != fname:
                    continue
                if i.x.get("vt") not in ("i64", "i32") or (vt is not None and i.x.get("vt") != vt):
                    continue
                n += 1
                B_ = Bounder(prog, f)
                if not B_.bounded(i.ops[0], i, Cap(const=maxval, desc="field limit")):
                    return False, "%s.%s is stored at %s:%d without a test against %d" % (sname, fname, i.file, i.line, maxval)
        if n == 0:
            return False, "no store to %s.%s found" % (sname, fname)
        return True, "every one of the %d stores to %s.%s is bounded by %d where it happens" % (n, sname, fname, maxval)
    return prov


def provider_clamp_before_call(callee, field, maxval):
    """at every call of `callee` the field <obj>-><field> of the object handed over is within [0, maxval] on every path:
    forward must-analysis with two states (narrow / possibly wide).  Narrow after a store of a value that needs no more
    bits than maxval, and on the edge where an unsigned comparison of the loaded field with a constant <= maxval says
    'not greater' (the clamp idiom  if ((u64)x > M) x = M  makes both arms narrow).  Wide at function entry, after
    any other store to the field, and whenever the pointer variable the object is reached through is re-assigned or
    handed to a callee (a new object arrives)."""
    def prov(prog, what):
        from .bounds2 import bits_needed
        g = prog.fn(callee)
        if g is None:
            cands = [f for f in prog.functions() if f.name == callee]
            g = cands[0] if cands else None
        if g is None:
            return False, "%s not found" % callee
        cs = prog.callers_of(g)
        if not cs:
            return False, "%s has no caller" % callee

        def is_field_ptr(p):
            p = strip_casts(p)
            return p.is_inst and p.op == "getelementptr" and p.field() and p.field()[1] == field

        for c in cs:
            f = c.fn
            f.build()
            # pointer variables (allocas) through which the object is reached
            pvars = set()
            for i in f.insts():
                if i.op in ("load", "store"):
                    p = i.ops[0] if i.op == "load" else i.ops[1]
                    if is_field_ptr(p):
                        base = strip_casts(strip_casts(p).ops[0])
                        if base.is_inst and base.op == "load":
                            a = strip_casts(base.ops[0])
                            if a.is_inst and a.op == "alloca":
                                pvars.add(id(a))

            def transfer(b, st, upto=None):
                for i in b.insts:
                    if upto is not None and i is upto:
                        break
                    if i.op == "store":
                        if is_field_ptr(i.ops[1]):
                            v = i.ops[0]
                            if v.is_const and v.is_int:
                                st = 0 <= v.sval <= maxval or v.uval <= maxval
                            else:
                                st = bits_needed(v) <= maxval.bit_length()
                        elif id(strip_casts(i.ops[1])) in pvars:
                            st = False
                    elif i.op == "call":
                        if any(id(strip_casts(o)) in pvars for o in i.ops):
                            st = False
                return st

            def edge(b, s_, st):
                t = b.term
                if t.op == "br" and len(t.x["succ"]) == 2 and t.x["succ"][0] is not t.x["succ"][1]:
                    cnd = t.ops[0]
                    if cnd.is_inst and cnd.op == "icmp":
                        x, k = cnd.ops
                        xv = x
                        while xv.is_inst and xv.op in ("zext", "sext", "bitcast"):
                            xv = xv.ops[0]
                        if xv.is_inst and xv.op == "load" and is_field_ptr(xv.ops[0]) and k.is_const and k.is_int and k.uval <= maxval \
                                and xv.bb is b and not any(j.op in ("store", "call") for j in b.insts[xv.pos + 1:]):
                            le_true = cnd.pred in ("ule", "ult")
                            le_false = cnd.pred in ("ugt", "uge") and (cnd.pred == "ugt" or k.uval >= 1)
                            if (le_true and s_ is t.x["succ"][0]) or (le_false and s_ is t.x["succ"][1]):
                                return True
                return st

            state_in = {b: True for b in f.blocks}
            state_in[f.blocks[0]] = False
            changed = True
            rounds = 0
            while changed and rounds < 50:
                changed = False
                rounds += 1
                for b in f.blocks:
                    if b is f.blocks[0]:
                        continue
                    preds = [p_ for p_ in f.blocks if b in p_.succs]
                    if not preds:
                        continue
                    new = all(edge(p_, b, transfer(p_, state_in[p_])) for p_ in preds)
                    if new != state_in[b]:
                        state_in[b] = new
                        changed = True
            if not transfer(c.bb, state_in[c.bb], upto=c):
                return False, "%s can reach the call of %s with %s not confined to [0, %d] (no clamp and no narrow store on some path)" % (
                    f.name, callee, field, maxval)
        return True, "at every call the field %s was clamped into [0, %d] or assigned a narrow value on every path" % (field, maxval)
    return prov


PROVIDERS = {
    ("tree_node_to_inode", "sqfs_inode_dev_t.devno"): provider_field_stores("struct.tree_node_t", "data", 0xFFFFFFFF, vt="i64"),
    ("sqfs_dir_writer_end", "sqfs_dir_node_t.size"): provider_field_stores("struct.sqfs_dir_entry_t", "name_len", 0x10000),
    ("write_key", "sqfs_xattr_entry_t.size"): provider_key_length,
    ("set_root_attribs", "tree_node_t.mod_time"): provider_clamp_before_call("set_root_attribs", "mtime", 0xFFFFFFFF),
    ("sqfs_dir_writer_end", "sqfs_dir_node_t.inode_diff"): provider_run_limits,
    ("add_header", "sqfs_dir_header_t.count"): provider_run_limits,
    ("sqfs_id_table_write", "sqfs_super_t.id_count"): provider_id_limit,
}

EXCEPTIONS = {
    ("write_id_table", "sqfs_xattr_id_t.count"): "would need 2^32 key/value pairs on one inode",
    ("write_id_table", "sqfs_xattr_id_t.size"): "would need 4 GiB of xattr data on one inode",
    ("write_location_table", "sqfs_xattr_id_table_t.xattr_ids"): "would need 2^32 distinct xattr sets",
    ("write_key", "sqfs_xattr_entry_t.type"): "prefix id 0..2 or'ed with the 0x0100 out-of-line flag",
    ("write_value", "sqfs_xattr_value_t.size"): "would need a 4 GiB xattr value in memory",
    ("tree_node_to_inode", "sqfs_inode_slink_t.target_size"): "would need a symlink target of 4 GiB held in memory",
    ("sqfs_writer_finish", "sqfs_super_t.inode_count"): "would need 2^32 tree nodes in memory",
    ("sqfs_super_init", "sqfs_super_t.compression_id"): "SQFS_COMPRESSOR enum, values 1..6",
    ("sqfs_super_init", "sqfs_super_t.block_log"): "counts the bits of block_size, which was range-checked (4 KiB..1 MiB) above",
    ("sqfs_dir_writer_create_inode", "sqfs_inode_dir_t.nlink"): "would need 2^32 directory entries in memory",
    ("sqfs_dir_writer_create_inode", "sqfs_inode_dir_ext_t.nlink"): "would need 2^32 directory entries in memory",
    ("sqfs_dir_writer_create_inode", "sqfs_inode_dir_ext_t.size"): "would need a 4 GiB directory listing in memory",
    ("sqfs_dir_writer_create_inode", "sqfs_inode_dir_ext_t.start_block"): "would need a directory table of 4 GiB (meta writer keeps it in memory)",
    ("sqfs_dir_writer_create_inode", "sqfs_dir_index_t.start_block"): "would need a directory table of 4 GiB (meta writer keeps it in memory)",
    ("sqfs_dir_writer_create_inode", "sqfs_dir_index_t.size"): "32-bit field; the name length itself is judged at the directory entry (sqfs_dir_node_t.size)",
    ("sqfs_dir_writer_create_inode", "sqfs_inode_dir_ext_t.inodex_count"): "one index entry per header; a 16-bit overflow needs 65536 headers = 16 M entries in one directory listing of at most 4 GiB",
    ("sqfs_inode_make_extended", "sqfs_inode_t.type"): "enum constant selected by the switch",
    ("sqfs_inode_make_basic", "sqfs_inode_t.type"): "enum constant selected by the switch",
    ("sqfs_frag_table_write", "sqfs_super_t.fragment_entry_count"): "would need 2^32 fragment blocks (each >= 4 KiB) = 16 TiB of fragment data",
    ("reorder_hard_links", "tree_node_t.inode_num"): "bounded by the number of nodes, which alloc_inode_num_dfs already counted with overflow checks",
    ("add_header", "sqfs_dir_header_t.start_block"): "inode table position / 8 KiB block start: would need a 4 GiB inode table",
    ("add_header", "sqfs_dir_header_t.inode_number"): "32-bit to 32-bit through a wider temporary",
}


def run_k7(chk, prog, rule="K7"):
    B = {}
    n = 0
    seen_keys = set()
    for (f, i, fld, w, src) in sites(prog):
        n += 1
        chk.analysed(f)
        key = (f.name, fld)
        inst = "%s:%s" % key
        bd = B.setdefault(f, Bounder(prog, f))
        points = escape_points(prog, f, i) or [i]
        if all(bd.bounded(src, pt, Cap(const=(1 << w) - 1, desc="%d-bit field" % w)) for pt in points):
            chk.ok(rule, inst, i, "value is derivably <= %d where it is stored (guards / clamps / masks / widths)" % ((1 << w) - 1))
            continue
        # providers and exceptions speak about what the *field* holds; the function named with them is where the store
        # sat when they were written -- a store of the same field that moved into a helper is judged the same way
        if key not in PROVIDERS and key not in EXCEPTIONS:
            alt = [k for k in list(PROVIDERS) + list(EXCEPTIONS) if k[1] == fld]
            if len({(k in PROVIDERS, PROVIDERS.get(k) or EXCEPTIONS.get(k)) for k in alt}) == 1:
                key = alt[0]
        if key in PROVIDERS:
            ok, txt = PROVIDERS[key](prog, fld)
            if ok:
                chk.ok(rule, inst, i, "guard provider verified: " + txt)
            else:
                chk.violation(rule, inst, i, "the %d-bit field %s receives a wider value and its guard provider does not hold: %s"
                              % (w, fld, txt))
            continue
        if key in EXCEPTIONS:
            if key not in seen_keys:
                chk.exception(rule, inst, i, EXCEPTIONS[key])
                seen_keys.add(key)
            else:
                chk.ok(rule, inst, i, "same exception as the sibling store", nontrivial=False)
            continue
        chk.violation(rule, inst, i, "a %s value (%s) is truncated into the %d-bit on-disk field %s with no range check on the "
                      "path: a value the format cannot hold is stored wrapped instead of being refused" % (
                          src.ty if hasattr(src, "ty") else "wider", describe(prog, f, src)[:80], w, fld))
    return n
