"""Effect summaries over the call graph with slot resolution."""
from .ir import strip_casts, norm_callee, ExternFn
from .util import backward_slice, resolve_ptr


def slot_call(i):
    """(struct, field) if instruction i is an indirect call through a function-pointer field"""
    if i.op != "call" or i.callee is not None:
        return None
    cv = strip_casts(i.callee_value)
    if cv.is_inst and cv.op == "load":
        p = strip_casts(cv.ops[0])
        if p.is_inst and p.op == "getelementptr":
            f = p.field()
            if f:
                import re
                return (re.sub(r"\.\d+$", "", f[0]), f[1])
    return None


OUTPUT_SLOTS = {("struct.sqfs_file_t", "write_at"), ("struct.sqfs_file_t", "truncate"),
                ("struct.sqfs_ostream_t", "append"), ("struct.sqfs_ostream_t", "flush")}


class Effects:
    def __init__(self, prog):
        self.prog = prog
        self._memo = {}

    def closure(self, key, direct):
        """set of defined functions that may (transitively) execute an instruction for which direct(i) holds"""
        if key in self._memo:
            return self._memo[key]
        prog = self.prog
        has = set()
        callers = {}
        fns = list(prog.functions())
        for f in fns:
            for i in f.insts():
                if i.op != "call":
                    continue
                if direct(i):
                    has.add(f)
                ts, ok = prog.call_targets(i)
                for t in ts:
                    if not isinstance(t, ExternFn):
                        callers.setdefault(t, set()).add(f)
        work = list(has)
        while work:
            g = work.pop()
            for c in callers.get(g, ()):
                if c not in has:
                    has.add(c)
                    work.append(c)
        self._memo[key] = has
        return has

    def may_write_output(self):
        return self.closure("out", lambda i: slot_call(i) in OUTPUT_SLOTS)

    def call_may(self, call, fset, direct=None):
        if direct is not None and direct(call):
            return True
        ts, ok = self.prog.call_targets(call)
        return any((not isinstance(t, ExternFn)) and t in fset for t in ts)


def fields_in_slice(v, sname=None):
    """(struct, field) of every load in the backward slice of v"""
    out = set()
    for x in backward_slice(v):
        if x.is_inst and x.op == "load":
            p = strip_casts(x.ops[0])
            while p.is_inst and p.op == "getelementptr":
                for (s, n) in p.fields():
                    if sname is None or s == sname or s.startswith(sname + "."):
                        out.add((s, n))
                p = strip_casts(p.ops[0])
    return out


def success_points(fn):
    """blocks from which the function returns constant 0 (phi incoming or direct)"""
    pts = []
    for r in fn.rets():
        if not r.ops:
            pts.append(r.bb)
            continue
        v = r.ops[0]
        if v.is_inst and v.op == "phi" and v.bb is r.bb:
            for val, pred in zip(v.ops, v.x["inc"]):
                if val.is_const and val.is_int and val.sval == 0:
                    pts.append(pred)
                elif not val.is_const:
                    pts.append(pred)
        elif v.is_const and v.is_int and v.sval == 0:
            pts.append(r.bb)
        elif not v.is_const:
            pts.append(r.bb)
    return pts


def reachable_after(fn, inst, avoid=()):
    """instructions that may execute after `inst` (same block later positions + reachable blocks)"""
    out = list(inst.bb.insts[inst.pos + 1:])
    seen = set()
    stack = list(inst.bb.succs)
    while stack:
        b = stack.pop()
        if b in seen or b in avoid:
            continue
        seen.add(b)
        out.extend(b.insts)
        stack.extend(b.succs)
    return out
