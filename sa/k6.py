"""K6 driver: classify every bounded-sink obligation of a set of units."""
import re

from .ir import strip_casts, norm_callee, strip_suffix
from .util import resolve_ptr, backward_slice, const_int
from .bounds import capacities, sinks_of, _uncast, _monotone_contains, describe, same_quantity, lin_le, _alloc_of, ALLOC_FNS
from .bounds2 import Bounder, Cap, field_capacity, flex_capacity, field_id
from .bounds import _alloc_of, _same_expr, ALLOC_FNS

_fcache = {}


def _field_cap(prog, s, n):
    k = ("f", s, n)
    if k not in _fcache:
        _fcache[k] = field_capacity(prog, s, n)
    return _fcache[k]


def _flex_cap(prog, s):
    k = ("x", s)
    if k not in _fcache:
        _fcache[k] = flex_capacity(prog, s)
    return _fcache[k]


def dest_cap(prog, f, d):
    """-> (Cap or None, kind)"""
    caps, (flex, off) = capacities(prog, f, d)
    base, boff, exact = resolve_ptr(prog, d, f.unit)
    b = strip_casts(base)
    consts = [c[1] for c in caps if c[1] is not None]
    syms = []
    descs = [c[4] for c in caps]
    for (kind, cconst, csym, scale, cdesc) in caps:
        if csym is not None and scale >= 1 and (not off or kind == "alloc-flex"):
            syms.append(csym)
    if consts or syms:
        cap = Cap(const=min(consts) if consts else None, syms=syms, desc="; ".join(descs))
        for s in syms:
            fid = field_id(s)
            if fid:
                cap.fields.add(fid)
        return cap, "local"
    # flexible member of an object allocated elsewhere
    if flex is not None:
        g = strip_casts(d)
        x = g
        sname = None
        while x.is_inst and x.op in ("getelementptr", "bitcast"):
            if x.op == "getelementptr":
                for (s, n) in x.fields():
                    st = prog.struct(s, f.unit)
                    if st and st["elems"] and st["elems"][-1]["sz"] == 0 and st["elems"][-1].get("n") == n:
                        sname = re.sub(r"\.\d+$", "", s)
            x = x.ops[0]
        if sname:
            c = _flex_cap(prog, sname)
            # the object is designated by a pointer member of another object: only the allocations that can end up in
            # that member count, and the access has to fit every one of them
            x = strip_casts(d)
            holder = None
            while x.is_inst and x.op in ("getelementptr", "bitcast"):
                x = x.ops[0]
            x = strip_casts(x)
            if x.is_inst and x.op == "load":
                q = strip_casts(x.ops[0])
                if q.is_inst and q.op == "getelementptr" and q.field():
                    holder = (re.sub(r"\.\d+$", "", q.field()[0]), q.field()[1])
            if holder is not None:
                from .bounds2 import flex_capacity_of_field
                k = ("xf", holder, sname)
                if k not in _fcache:
                    _fcache[k] = flex_capacity_of_field(prog, holder, sname)
                alts = _fcache[k]
                if alts is None:
                    # something of unknown origin is stored in that member: every allocation of the type may be behind it
                    from .bounds2 import flex_capacity_sites
                    alts = flex_capacity_sites(prog, sname)
                if alts:
                    if len(alts) == 1:
                        return alts[0], "flex"
                    allf = set()
                    for a in alts:
                        allf |= a.fields
                    return Cap(fields=allf, desc="flexible member of %s via %s.%s" % (sname.replace("struct.", ""),
                                                                                        holder[0].replace("struct.", ""), holder[1]),
                               alts=alts), "flex"
            if c is not None:
                return c, "flex"
    # pointer loaded from a field: capacity from the allocation sites of that field
    if b.is_inst and b.op == "load" and boff == 0 or (b.is_inst and b.op == "load"):
        p = strip_casts(b.ops[0])
        if p.is_inst and p.op == "getelementptr" and p.field():
            s, n = p.field()
            c = _field_cap(prog, re.sub(r"\.\d+$", "", s), n)
            if c is not None:
                return c, "field"
    if b.is_arg:
        return None, "param"
    return None, "unknown"


def classify2(prog, f, sink, what, d, n):
    """-> (class, capacity text, detail).  classes: C const fits, A alloc-then-fill, G guarded/clamped/contract,
    F forwarded to the caller, X unbounded"""
    from .linear import Lin
    dd = strip_casts(d)
    if dd.is_inst and dd.op in ("phi", "select") and (getattr(dd, "ty", "") or "").endswith("*") and not getattr(classify2, "_depth", 0):
        # `cond ? bufA : bufB`: one of several destinations, chosen at run time -- the copy has to fit each of them
        alts_ = [o for o in (dd.ops if dd.op == "phi" else dd.ops[1:]) if not (o.is_const and o.is_null)]
        if len(alts_) >= 2 and all(strip_casts(resolve_ptr(prog, o, f.unit)[0]) is not dd for o in alts_):
            classify2._depth = 1
            try:
                worst = None
                for o in alts_:
                    r = classify2(prog, f, sink, what, o, n)
                    if r[0] == "X":
                        return r
                    worst = worst or r
                return (worst[0], worst[1], worst[2] + " [for each of %d destinations]" % len(alts_))
            finally:
                classify2._depth = 0
    L = Lin(prog, f)
    L.at = sink.bb
    if what in ("strcpy", "strcat"):
        # length = strlen(source) + 1 (+ strlen(dest) for strcat): find the strlen of the same string
        src = n
        sl = [c for c in f.calls("strlen") if _same_str(prog, f, c.ops[0], src)]
        if not sl:
            return ("X", "-", "%s without a visible strlen of the source" % what)
        n = sl[0]
        ok, txt = L.fits(d, n)
        base, off = L.offset_form(d)
        al = _alloc_of(prog, f, base)
        if al is not None and off is not None:
            A = L.alloc_form(al)
            if A is not None:
                D = L.add(L.add(L.add(A, off, -1), L.form(n), -1), {None: 1}, -1)
                if L.nonneg(D):
                    return ("A", "allocation in this function", "offset + strlen(source) + 1 <= allocation size")
        return ("X", "-", "%s: destination not sized from strlen(source) + 1" % what)
    ok, txt = L.fits(d, n)
    if ok:
        return ("A", "allocation in this function", "offset + length <= allocation size: " + txt)
    r = _inplace_shift(prog, f, L, sink, what, d, n)
    if r:
        return r
    r = _cursor_loop(prog, f, L, sink, what, d, n)
    if r:
        return r
    r = _multi_alloc(prog, f, L, sink, d, n)
    if r:
        return r
    from .growth import growth_fits
    g = growth_fits(prog, f, L, d, n)
    if g is not None:
        if g[0]:
            return ("A", "buffer re-allocated in this function", g[1])
        return ("X", "buffer re-allocated in this function", g[1])
    cap, kind = dest_cap(prog, f, d)
    nb = _uncast(n)
    B = Bounder(prog, f)
    if cap is not None and getattr(cap, "alts", None):
        # several allocation sites of different size can provide the buffer: the access has to fit each of them
        worst = None
        for alt in cap.alts:
            r = _classify_cap(prog, f, sink, what, d, n, alt, kind, L, B, nb)
            if r[0] == "X":
                return ("X", repr(alt), r[2] + " [the buffer can come from the allocation at %s]" % alt.desc.split("@")[-1])
            worst = worst or r
        return (worst[0], repr(cap), worst[2] + " [for each of %d allocation sites]" % len(cap.alts))
    return _classify_cap(prog, f, sink, what, d, n, cap, kind, L, B, nb)


def _classify_cap(prog, f, sink, what, d, n, cap, kind, L, B, nb):
    if cap is not None and kind in ("field", "flex"):
        r = _offset_obligation(prog, f, L, B, sink, d, n, cap)
        if r is not None:
            return r
    if cap is not None:
        if nb.is_const and nb.is_int and cap.const is not None and nb.uval <= cap.const:
            return ("C", repr(cap), "constant length %d fits" % nb.uval)
        # alloc-then-fill: the allocation size is computed from the length
        for s in cap.syms:
            if same_quantity(prog, f, n, s) or lin_le(prog, f, n, s):
                return ("A", repr(cap), "destination allocated with (at least) this length")
            sl = {id(x) for x in backward_slice(s)}
            if id(nb) in sl and _monotone_contains(s, nb):
                return ("A", repr(cap), "allocation size is computed from this length")
            # both are the same expression over the same loads:  malloc(a->len + 1) ... read(dst, a->len + 1)
            if _same_expr(prog, f, n, s):
                return ("A", repr(cap), "allocation size is the same expression as the length")
        if B.bounded(n, sink, cap):
            return ("G", repr(cap), "length is bounded by the capacity on every path (guards / clamps / contracts)")
        return ("X", repr(cap), "no derivation of  length <= capacity")
    if kind == "param":
        # destination is a parameter: the obligation is the caller's if the length is a parameter too or bounded by one
        args = [a for a in f.params]
        if nb.is_arg or nb.is_const:
            return ("F", "caller's buffer", "destination and length are parameters")
        capq = Cap(syms=[a for a in args if not a.ty.endswith("*")], desc="a length parameter")
        if B.bounded(n, sink, capq):
            return ("F", "caller's buffer", "length is bounded by a length parameter")
        r = _param_window(prog, f, L, B, sink, d, n)
        if r is not None:
            return r
        # typed out-parameter
        return ("X", "parameter %s" % (strip_casts(resolve_ptr(prog, d, f.unit)[0]).name or "?"), "length not related to any parameter")
    return ("X", "unknown destination (%s)" % describe(prog, f, strip_casts(resolve_ptr(prog, d, f.unit)[0])), "capacity of the destination is unknown")


def _param_window(prog, f, L, B, sink, d, n):
    """destination  buf + done  in the caller's buffer, with  done = phi(0, done + n)  the sum of what was written so far and
    n <= total - done  for a length parameter `total`: by induction done <= total, so every write ends at or before
    buf + total (the caller's obligation is the usual one: buf holds `total` bytes)"""
    base, off = L.offset_form(d)
    if off is None or not strip_casts(base).is_arg:
        return None
    keys = [k for k in off if k is not None]
    if len(keys) != 1 or off.get(None, 0) != 0 or off[keys[0]] != 1:
        return None
    O = _uncast(L.syms[keys[0]])
    if not (O.is_inst and O.op == "phi"):
        return None
    loop = f.loop_of(O.bb)
    if loop is None or loop[0] is not O.bb:
        return None
    nb = _uncast(n)
    for val, pred in zip(O.ops, O.x["inc"]):
        if pred in loop[1]:
            v = _uncast(val)
            if not (v.is_inst and v.op == "add" and any(_uncast(x) is O for x in v.ops) and any(_uncast(x) is nb for x in v.ops)):
                return None
        elif not (val.is_const and val.is_int and val.uval == 0):
            return None
    for X in f.insts():
        if X.op != "sub" or _uncast(X.ops[1]) is not O:
            continue
        P = _uncast(X.ops[0])
        if not P.is_arg or P.ty.endswith("*"):
            continue
        if B.bounded(n, sink, Cap(syms=[X], desc="what is left of the caller's length")):
            return ("F", "caller's buffer", "window at the running total: the length is at most  %s - total so far, the total starts "
                    "at 0 and grows by exactly what is written" % (P.name or "length parameter"))
    return None


def _same_str(prog, f, a, b):
    from .bounds import _same_ptr
    if same_quantity(prog, f, a, b) or _same_ptr(prog, f, a, b):
        return True
    from .linear import Lin
    L = Lin(prog, f)
    b1, o1 = L.offset_form(a)
    b2, o2 = L.offset_form(b)
    if o1 is None or o2 is None:
        return False
    return (strip_casts(b1) is strip_casts(b2) or same_quantity(prog, f, b1, b2)) and o1 == o2


def _scanned_forward_from(f, src, dst):
    """every definition of pointer src leads back to dst through phis, non-negative constant steps and strchr-like searches"""
    dst = strip_casts(dst)
    seen = set()
    stack = [src]
    hit = False
    while stack:
        v = strip_casts(stack.pop())
        if id(v) in seen:
            continue
        seen.add(id(v))
        if v is dst:
            hit = True
            continue
        if not v.is_inst:
            return False
        if v.op == "phi":
            stack.extend(v.ops)
        elif v.op == "getelementptr":
            for el in v.x["gep"]:
                if not (el[0] in ("*", "[]") and el[1].is_const and el[1].is_int and el[1].sval >= 0):
                    return False
            stack.append(v.ops[0])
        elif v.op == "call" and norm_callee(v.callee) in ("strchr", "strrchr", "strstr", "memchr", "strpbrk"):
            stack.append(v.ops[0])
        else:
            return False
    return hit


def _inplace_shift(prog, f, L, sink, what, d, n):
    """memmove(s + a, s + b, strlen(s + b) + 1) with a <= b: a NUL-terminated string is shifted towards its start"""
    if what != "memmove":
        return None
    src = sink.ops[1]
    # the source was found by scanning forward from the destination inside the same NUL-terminated string
    # (strchr / ++ only) and the length is strlen(source) + 1
    if _scanned_forward_from(f, src, d):
        N = L.form(n)
        for c in f.calls("strlen"):
            if _same_str(prog, f, c.ops[0], src):
                D = L.add(L.add(L.form(c), {None: 1}), N, -1)
                if L.nonneg(D):
                    return ("S", "the string itself", "in-place shift towards the start: the source was reached from the destination "
                            "by strchr and increments only, so it lies at or behind it in the same string")
    b1, o1 = L.offset_form(d)
    b2, o2 = L.offset_form(src)
    if o1 is None or o2 is None:
        return None
    if not (strip_casts(b1) is strip_casts(b2) or same_quantity(prog, f, b1, b2)):
        return None
    if not L.nonneg(L.add(o2, o1, -1)):
        return None
    N = L.form(n)
    # N == strlen(src) + 1
    for c in f.calls("strlen"):
        if _same_str(prog, f, c.ops[0], src):
            D = L.add(L.add(L.form(c), {None: 1}), N, -1)
            if L.nonneg(D):
                return ("S", "the string itself", "in-place shift of a NUL-terminated string towards its start")
    return None


def _cursor_loop(prog, f, L, sink, what, d, n):
    """dest is a cursor  p = phi(start, p + k)  that advances by the amount k written per iteration, with a remaining
    counter  r = phi(total, r - k)  and  n <= r: the writes stay inside [start, start + total)"""
    base, off = L.offset_form(d)
    P = strip_casts(base)
    if not (P.is_inst and P.op == "phi") or off is None or any(k is not None for k in off) or off.get(None, 0) != 0:
        return None
    loop = f.loop_of(P.bb)
    if loop is None or loop[0] is not P.bb:
        return None
    header, body = loop
    starts, steps = [], []
    for val, pred in zip(P.ops, P.x["inc"]):
        if pred in body:
            b2, o2 = L.offset_form(val)
            if strip_casts(b2) is not P or o2 is None:
                return None
            steps.append(o2)
        else:
            starts.append(val)
    if len(starts) != 1 or not steps:
        return None
    # remaining counter
    for R in header.insts:
        if R.op != "phi" or R is P or R.ty.endswith("*"):
            continue
        tot, ok = None, True
        for val, pred in zip(R.ops, R.x["inc"]):
            if pred in body:
                fr = L.form(val)
                want = [L.add({L.key(R): 1}, st, -1) for st in steps]
                if not any(fr == w for w in want):
                    ok = False
            else:
                tot = val
        if not ok or tot is None:
            continue
        B = Bounder(prog, f)
        if not B.bounded(n, sink, Cap(syms=[R], desc="remaining counter")):
            continue
        s0 = strip_casts(starts[0])
        # capacity of the start pointer vs the total
        if s0.is_arg and (_uncast(tot).is_arg or True):
            if _uncast(tot).is_arg:
                return ("F", "caller's buffer", "cursor loop over the caller's buffer, bounded by the caller's length")
        al = _alloc_of(prog, f, s0)
        if al is not None:
            A = L.alloc_form(al)
            if A is not None and L.nonneg(L.add(A, L.form(tot), -1)):
                return ("A", "allocation in this function", "cursor loop: start allocated with the total, each step bounded by the remainder")
        if s0.is_arg:
            B2 = Bounder(prog, f)
            if B2.bounded(tot, sink, Cap(syms=[a for a in f.params if not a.ty.endswith("*")], desc="length parameter")):
                return ("F", "caller's buffer", "cursor loop over the caller's buffer, total bounded by a length parameter")
    return None


def run_k6(chk, prog, files, exceptions, rule="K6", known_fn=None):
    """evaluate every sink of the given source files; exceptions: {(function, what, ordinal): reason}"""
    n = 0
    stats = {}
    for f in prog.functions():
        if f.unit.src not in files:
            continue
        ordinal = {}
        for (c, what, d, n_) in sinks_of(prog, f):
            k = ordinal.get(what, 0)
            ordinal[what] = k + 1
            n += 1
            chk.analysed(f)
            from . import memver
            memver.USE_POINT[0] = c
            try:
                cls, capt, detail = classify2(prog, f, c, what, d, n_)
            finally:
                memver.USE_POINT[0] = None
            stats[cls] = stats.get(cls, 0) + 1
            inst = "%s:%s#%d" % (f.name, what, k)
            if cls == "X":
                key = (f.name, what, k)
                # an exception may also name the buffer (a fixed array member) instead of the function: a compaction of the
                # object's own buffer (source inside the same member) stays the same thing wherever the code is moved to
                fkey = None
                if what == "memmove" and capt.startswith("field "):
                    fld_ = capt.split()[1]
                    sp = strip_casts(c.ops[1])
                    while sp.is_inst and sp.op == "getelementptr":
                        if any("%s.%s" % (strip_suffix(s_).replace("struct.", ""), n_) == fld_ for (s_, n_) in sp.fields()):
                            fkey = ("field:" + fld_, what)
                            break
                        sp = strip_casts(sp.ops[0])
                if key in exceptions:
                    chk.exception(rule, inst, c, exceptions[key])
                elif fkey in exceptions:
                    chk.exception(rule, inst, c, exceptions[fkey])
                else:
                    chk.violation(rule, inst, c, "length of %s into %s is not bounded by the destination's capacity on "
                                  "every path (%s): bytes taken from the input can be written past the buffer" % (
                                      what, capt, detail))
            else:
                names = {"C": "constant fits", "A": "allocated for this length", "G": "guarded/clamped/contract",
                         "F": "caller's buffer and length", "S": "in-place shift"}
                chk.ok(rule, inst, c, "%s: %s [%s]" % (names.get(cls, cls), detail, capt), nontrivial=cls != "C")
    chk.note("%s sink classes: %s" % (rule, ", ".join("%s=%d" % kv for kv in sorted(stats.items()))))
    return n


def run_k6_src(chk, prog, files, exceptions, rule="K6-src"):
    """the reading side of copies: a memcpy/memmove whose *source* lies in a buffer that an object field designates
    (block caches, scratch buffers, tables) reads  offset + length <= capacity  bytes of it.  Sources of other kinds
    (objects copied whole, strings, caller memory) are not in the scope of this rule."""
    cnt = 0
    for f in prog.functions():
        if f.unit.src not in files:
            continue
        k = 0
        for c in f.calls():
            nm = norm_callee(c.callee)
            if nm not in ("memcpy", "memmove") or len(c.ops) < 3:
                continue
            src, n_ = c.ops[1], c.ops[2]
            cap, kind = dest_cap(prog, f, src)
            if cap is None or kind != "field":
                continue
            inst = "%s:%s-src#%d" % (f.name, nm, k)
            key = (f.name, nm, k)
            k += 1
            cnt += 1
            chk.analysed(f)
            cls, capt, detail = classify2(prog, f, c, nm, src, n_)
            if cls == "X":
                if key in exceptions:
                    chk.exception(rule, inst, c, exceptions[key])
                else:
                    chk.violation(rule, inst, c, "%s reads from %s and the end of the access is not bounded by the buffer's "
                                  "capacity on every path (%s): a value taken from the image moves the read outside the "
                                  "buffer" % (nm, capt, detail))
            else:
                chk.ok(rule, inst, c, "%s [%s]" % (detail, capt))
    return cnt


def _multi_alloc(prog, f, L, sink, d, n):
    """the destination pointer lives in a location that several branches fill with different allocations: the
    length must fit every one of them"""
    from .bounds import _same_loc
    base, off = L.offset_form(d)
    b = strip_casts(base)
    if not (b.is_inst and b.op == "load") or off is None:
        return None
    loc = b.ops[0]
    stores = [i for i in f.insts() if i.op == "store" and _same_loc(prog, f, i.ops[1], loc) and
              (f.inst_dominates(i, b) or f.reaches(i.bb, b.bb))]
    allocs = []
    for st in stores:
        v = strip_casts(st.ops[0])
        if v.is_const and v.is_null:
            continue
        if v.is_inst and v.op == "call" and norm_callee(v.callee) in ALLOC_FNS:
            allocs.append(v)
        else:
            return None
    if len(allocs) < 2:
        return None
    for al in allocs:
        A = L.alloc_form(al)
        N = L.form(n)
        if A is not None and L.nonneg(L.add(L.add(A, off, -1), N, -1)):
            continue
        nm = norm_callee(al.callee)
        sizes = [al.ops[k] for k in ALLOC_FNS[nm] if k < len(al.ops) and not al.ops[k].is_const]
        consts = [al.ops[k].uval for k in ALLOC_FNS[nm] if k < len(al.ops) and al.ops[k].is_const]
        if off:
            return ("X", "one of %d allocations" % len(allocs), "offset into a buffer with several allocation sites")
        if len(sizes) == 1 and all(c >= 1 for c in consts):
            B = Bounder(prog, f)
            if B.bounded(n, sink, Cap(syms=sizes, desc="allocation size")):
                continue
        return ("X", "allocation at %s:%d" % (al.file, al.line), "length does not fit one of the %d allocations that can "
                "provide the destination" % len(allocs))
    return ("A", "%d allocation sites" % len(allocs), "length fits every allocation that can provide the destination")


# ---------------------------------------------------------------------------------------------------------------
# offsets into a buffer that an object field designates:  offset + length <= capacity
# ---------------------------------------------------------------------------------------------------------------

def _buffer_offset(prog, f, L, d):
    """linear byte offset of pointer d from the start of the buffer it points into (the pointer loaded from a field,
    or the first byte of a flexible array member) -> form or None"""
    off = {}
    v = d
    while True:
        if v.is_inst and v.op in ("bitcast", "addrspacecast"):
            v = v.ops[0]
            continue
        if v.is_inst and v.op == "getelementptr":
            add = {}
            flex = False
            for el in v.x["gep"]:
                if el[0] == "*":
                    add = L.add(add, L.scale(L.form(el[1]), el[2]))
                elif el[0] == "[]":
                    add = L.add(add, L.scale(L.form(el[1]), el[3]))
                elif el[0] == "?":
                    return None
                else:
                    st = prog.struct(el[0], f.unit)
                    if st is None:
                        return None
                    e = st["elems"][el[1]]
                    if e["sz"] == 0 and el[1] == len(st["elems"]) - 1:
                        # start of a flexible member: offsets counted from here; whatever led to the object is not
                        # an offset into the buffer
                        add = {}
                        flex = True
                        continue
                    add = L.add(add, {None: e["off"]})
            off = L.add(off, add)
            if flex:
                return off
            v = v.ops[0]
            continue
        return off


def _machine_exact(v, depth=0):
    """every arithmetic node of v is 64 bits wide: its value is the ideal linear form modulo 2^64, like pointer
    arithmetic"""
    while v.is_inst and v.op in ("zext", "sext", "bitcast"):
        if v.op in ("zext", "sext"):
            # below an extension the arithmetic must not wrap at a smaller width: only leaves allowed
            x = v.ops[0]
            while x.is_inst and x.op in ("zext", "sext", "bitcast"):
                x = x.ops[0]
            return not (x.is_inst and x.op in ("add", "sub", "mul", "shl", "trunc"))
        v = v.ops[0]
    if v.is_inst and v.op == "trunc":
        return False
    if v.is_inst and v.op in ("add", "sub", "mul", "shl") and depth < 8:
        if getattr(v, "ty", "") != "i64":
            return False
        return all(_machine_exact(o, depth + 1) for o in v.ops)
    return True


def _offset_obligation(prog, f, L, B, sink, d, n, cap):
    """None if d points to the start of the buffer; otherwise a verdict for  offset + length <= capacity"""
    O = _buffer_offset(prog, f, L, d)
    if O is None:
        return ("X", repr(cap), "non-linear offset into the buffer")
    if not O:
        return None
    nb = _uncast(n)
    if L.is_const(O):
        c = O.get(None, 0)
        if c < 0:
            return ("X", repr(cap), "negative offset into the buffer")
        if cap.const is not None and cap.const >= c and B.bounded(n, sink, Cap(const=cap.const - c, desc=cap.desc)):
            return ("G", repr(cap), "constant offset %d + length <= capacity" % c)
        return ("X", repr(cap), "constant offset %d into the buffer: no derivation of offset + length <= capacity" % c)

    # the offset as it occurs in the pointer: one index (any width; comparisons on the same value talk about the
    # same number) or a sum that a 64 bit expression of the same linear form reproduces
    single = None
    v = d
    idxs = []
    while v.is_inst and v.op in ("bitcast", "getelementptr"):
        if v.op == "getelementptr":
            for el in v.x["gep"]:
                if el[0] in ("*", "[]") and not (el[1].is_const and el[1].is_int):
                    idxs.append((el[1], el[2] if el[0] == "*" else el[3]))
        v = v.ops[0]
    if len(idxs) == 1 and idxs[0][1] == 1 and O.get(None, 0) == 0:
        single = idxs[0][0]

    def is_off(y):
        if single is not None:
            a, b = _uncast(single), _uncast(y)
            if a is b or same_quantity(prog, f, a, b):
                return True
            if a.is_inst and b.is_inst and a.op == b.op and a.op not in ("load", "phi", "call") and _same_expr(prog, f, a, b):
                return True
        return _machine_exact(y) and L.form(y) == O

    def within(x):
        return B.is_cap(x, cap) or B.bounded(x, sink, cap)

    # P4  element of a container:  offset = size * index, length = size, index < (a field of the same object);
    #     capacity = count * size.  Relies on the container invariant  used <= count  (stated, not proven).
    if single is not None:
        m = _uncast(single)
        if m.is_inst and m.op == "mul":
            for S, I in ((m.ops[0], m.ops[1]), (m.ops[1], m.ops[0])):
                sf = field_id(_uncast(S))
                if not (sf and sf in cap.fields and same_quantity(prog, f, S, n)):
                    continue
                sp = strip_casts(_uncast(S).ops[0])
                for (b, strict) in B.rel_facts(sink.bb, _uncast(I)):
                    bu = _uncast(b)
                    if strict and bu.is_inst and bu.op == "load" and field_id(bu) and field_id(bu) != sf:
                        bp = strip_casts(bu.ops[0])
                        if bp.is_inst and bp.op == "getelementptr" and sp.is_inst and sp.op == "getelementptr" and \
                                strip_casts(bp.ops[0]) is strip_casts(sp.ops[0]):
                            return ("G", repr(cap), "element access: offset = size * index, length = size, index < %s "
                                    "(assumes the container invariant that this bound never exceeds the allocated "
                                    "element count)" % field_id(bu))
    def le(y, X):
        return B._le_guarded(y, X, sink) or _le_phi_cases(prog, f, y, X, sink)

    def p12(nv, block):
        """P1 / P2 for one (incoming) value of the length, with the guards that hold in `block`"""
        nu = _uncast(nv)
        # P1  length = X - offset, offset <= X, X <= capacity
        if nu.is_inst and nu.op == "sub":
            X, y = nu.ops
            if is_off(y) and le(y, X) and within(X):
                return "length is  X - offset  with offset <= X <= capacity"
        # P2  length <= C - offset, offset <= C, C <= capacity
        for (b, _strict) in B.rel_facts(block, nu):
            bu = _uncast(b)
            if bu.is_inst and bu.op == "sub":
                C, y = bu.ops
                if is_off(y) and le(y, C) and within(C):
                    return "guards: offset <= C, length <= C - offset, C <= capacity"
        return None

    r = p12(nb, sink.bb)
    if r:
        return ("G", repr(cap), r)
    if nb.is_inst and nb.op == "phi" and not any(o is nb for o in nb.ops):
        # min(a, b) written as  n = a; if (b < n) n = b;  -- each incoming value under the guards of its own block
        parts = [p12(val, pred) for val, pred in zip(nb.ops, nb.x["inc"])]
        if all(parts):
            return ("G", repr(cap), "every value the length can take: " + " / ".join(sorted(set(parts))))
    if nb.is_inst and nb.op == "select":
        parts = [p12(val, sink.bb) for val in nb.ops[1:]]
        if all(parts):
            return ("G", repr(cap), "every value the length can take: " + " / ".join(sorted(set(parts))))
    # P3  a 64 bit sum of the two, compared with the capacity
    N = L.form(n)
    want = L.add(O, N)
    for cond, outcome, br in B.guards(sink.bb):
        if not (cond.is_inst and cond.op == "icmp") or outcome not in (True, False):
            continue
        a, b2 = cond.ops
        p = cond.pred
        le = None
        if p in ("ugt", "sgt") and outcome is False:
            le = (a, b2)
        elif p in ("ule", "sle") and outcome is True:
            le = (a, b2)
        elif p in ("ult", "slt") and outcome is False:
            le = (b2, a)
        elif p in ("uge", "sge") and outcome is True:
            le = (b2, a)
        elif p in ("ult", "slt") and outcome is True:
            le = (a, b2)
        elif p in ("ugt", "sgt") and outcome is True:
            le = (b2, a)
        if le is None:
            continue
        sm, bound = le
        su = _uncast(sm)
        if su.is_inst and su.op == "add" and getattr(su, "ty", "") == "i64" and _machine_exact(sm) and \
                all(_narrow(o) for o in su.ops) and L.form(sm) == want and within(bound):
            return ("G", repr(cap), "64 bit sum  offset + length  compared with the capacity")
    return ("X", repr(cap), "offset into the buffer: no derivation of  offset + length <= capacity (a comparison of the "
            "length alone, or of a sum that can wrap, does not bound the end of the access)")


def _same_val(prog, f, a, b):
    a, b = _uncast(a), _uncast(b)
    return a is b or same_quantity(prog, f, a, b) or (a.is_const and b.is_const and a.is_int and b.is_int and a.uval == b.uval)


def _le_fact(prog, f, facts, y, X):
    """one of the facts (icmp, outcome) says  y <= X"""
    for (c, o) in facts:
        if not (c.is_inst and c.op == "icmp") or o not in (True, False):
            continue
        a, b = c.ops
        p = c.pred
        le = None
        if (p in ("ugt", "sgt") and o is False) or (p in ("ule", "sle", "ult", "slt") and o is True):
            le = (a, b)
        elif (p in ("ult", "slt") and o is False) or (p in ("uge", "sge", "ugt", "sgt") and o is True):
            le = (b, a)
        if le and _same_val(prog, f, le[0], y) and _same_val(prog, f, le[1], X):
            return True
    return False


def _le_phi_cases(prog, f, y, X, sink):
    """y <= X at the sink where y is a phi of a block that dominates the sink (a loop header): every incoming value
    is 0, or is <= X under the facts of its own edge.  Facts of an edge: the guards of the predecessor, the branch
    taken, and the guards of the sink with the header's phis replaced by what they receive over that edge (same
    iteration).  A short-circuit condition  a && b  known false together with b known true gives !a."""
    u = _uncast(y)
    if not (u.is_inst and u.op == "phi") or u.bb is sink.bb and False:
        return False
    first = u.bb.insts[0] if u.bb.insts else None
    if first is None or not (u.bb is sink.bb or f.inst_dominates(first, sink)):
        return False
    hdr = u.bb
    for val, pred in zip(u.ops, u.x["inc"]):
        if val is u:
            continue
        if val.is_const and val.is_int and val.uval == 0:
            continue
        facts = [(c, o) for (c, o, _b) in f.guards_at(pred) if o in (True, False)]
        t = pred.term
        if t.op == "br" and len(t.x["succ"]) == 2 and t.x["succ"][0] is not t.x["succ"][1]:
            facts.append((t.ops[0], t.x["succ"][0] is hdr))
        if _le_fact(prog, f, facts, val, X):
            continue
        # the sink's guards, with the header's phis seen through this edge
        subst = {}
        for ph in hdr.insts:
            if ph.op != "phi":
                break
            for v2, p2 in zip(ph.ops, ph.x["inc"]):
                if p2 is pred:
                    subst[id(ph)] = v2
        known = []
        for (c, o, _b) in f.guards_at(sink.bb):
            if c.is_inst and c.op == "icmp" and o in (True, False):
                ops = []
                for x in c.ops:
                    ux = _uncast(x)
                    ops.append(subst.get(id(ux), x))
                known.append((c.pred, ops[0], ops[1], o))

        def truth_of(b):
            """outcome of comparison b if the known facts settle it"""
            if not (b.is_inst and b.op == "icmp"):
                return None
            for (kp, k0, k1, ko) in known:
                if kp == b.pred and _same_val(prog, f, k0, b.ops[0]) and _same_val(prog, f, k1, b.ops[1]):
                    return ko
            return None
        more = []
        for (c, o) in facts:
            if not (c.is_inst and c.op == "phi" and c.ty == "i1"):
                continue
            consts = [(v3, p3) for v3, p3 in zip(c.ops, c.x["inc"]) if v3.is_const and v3.is_int]
            rest = [(v3, p3) for v3, p3 in zip(c.ops, c.x["inc"]) if not (v3.is_const and v3.is_int)]
            if len(consts) != 1 or len(rest) != 1 or bool(consts[0][0].sval) != o:
                continue
            tb = truth_of(rest[0][0])
            if tb is None or tb == o:
                continue
            # b would have given the other outcome: the short cut was taken
            pc = consts[0][1]
            tt = pc.term
            if tt.op == "br" and len(tt.x["succ"]) == 2 and tt.ops[0].is_inst:
                more.append((tt.ops[0], tt.x["succ"][0] is c.bb))
        if more and _le_fact(prog, f, facts + more, val, X):
            continue
        return False
    return True


def _narrow(v):
    """value extended from at most 32 bits (so a 64 bit sum of two of them cannot wrap)"""
    while v.is_inst and v.op == "bitcast":
        v = v.ops[0]
    if v.is_inst and v.op == "zext":
        return True
    if v.is_const and v.is_int:
        return v.uval < (1 << 32)
    return False
