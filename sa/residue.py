"""K13-recpad: a tar record takes up its payload rounded up to whole 512-byte records -- decided by evaluating the
arithmetic of the function over every residue of the size.

The functions that consume (or emit) "payload plus padding" are pure arithmetic in the payload size S between their
transfer calls: which calls are made and with which byte counts depends on S through +, -, |, &, %, comparisons.  All of
that is periodic in S mod 512, so the rule evaluates the function's control flow and the byte-count operands of its
transfer calls abstractly for every S = 512 q + r (r = 0..511, a few q), with the results of calls unknown (every branch on
an unknown value is taken both ways), and demands on every feasible way to success:

        S <= total < S + 512   and   total % 512 == 0

where total is the sum of the byte counts handed to the transfer calls (plus S itself where the payload was transferred
by the caller).  Nothing of the repository is executed: the evaluation is over the IR expressions, like the exhaustive
evaluation of comparators in cmpcheck.  What the transfer calls do with the counts is C12's business.
"""
from .ir import strip_casts, norm_callee
from .effects import slot_call

MASK = {"i1": 1, "i8": 0xFF, "i16": 0xFFFF, "i32": 0xFFFFFFFF, "i64": 0xFFFFFFFFFFFFFFFF}


def _acyclic_paths(f, cap=400):
    out = []

    def dfs(b, path, seen):
        if len(out) >= cap:
            return
        path = path + [b]
        if b.term.op == "ret":
            out.append(path)
            return
        for s in b.succs:
            if s not in seen:
                dfs(s, path, seen | {s})
    dfs(f.blocks[0], [], {f.blocks[0]})
    return out


class Eval:
    def __init__(self, f, path, env):
        self.f, self.path, self.env = f, path, env
        self.idx = {id(b): i for i, b in enumerate(path)}
        self.memo = {}

    def val(self, v):
        if v.is_const:
            if v.is_int:
                return v.uval if hasattr(v, "uval") else v.sval
            if getattr(v, "is_null", False):
                return 0
            return None
        if id(v) in self.env:
            return self.env[id(v)]
        if not v.is_inst:
            return None
        if id(v) in self.memo:
            return self.memo[id(v)]
        self.memo[id(v)] = None
        r = self._inst(v)
        self.memo[id(v)] = r
        return r

    def _inst(self, v):
        m = MASK.get(v.ty or "", None)
        op = v.op
        if op == "phi":
            i = self.idx.get(id(v.bb))
            if i is None or i == 0:
                return None
            pred = self.path[i - 1]
            for val, pb in zip(v.ops, v.x["inc"]):
                if pb is pred:
                    return self.val(val)
            return None
        if op in ("zext", "trunc", "bitcast"):
            a = self.val(v.ops[0])
            return None if a is None else (a & m if m else a)
        if op == "sext":
            a = self.val(v.ops[0])
            sm = MASK.get(getattr(v.ops[0], "ty", "") or "", None)
            if a is None or sm is None or m is None:
                return None
            sign = (sm + 1) >> 1
            return ((a - (sm + 1)) & m) if a & sign else a
        if op == "select":
            c = self.val(v.ops[0])
            if c is None:
                return None
            return self.val(v.ops[1] if c else v.ops[2])
        if op in ("add", "sub", "mul", "and", "or", "xor", "urem", "udiv", "shl", "lshr"):
            a, b = self.val(v.ops[0]), self.val(v.ops[1])
            if a is None or b is None or m is None:
                return None
            if op == "add":
                r = a + b
            elif op == "sub":
                r = a - b
            elif op == "mul":
                r = a * b
            elif op == "and":
                r = a & b
            elif op == "or":
                r = a | b
            elif op == "xor":
                r = a ^ b
            elif op == "urem":
                if b == 0:
                    return None
                r = a % b
            elif op == "udiv":
                if b == 0:
                    return None
                r = a // b
            elif op == "shl":
                r = a << b
            else:
                r = a >> b
            return r & m
        if op == "icmp":
            a, b = self.val(v.ops[0]), self.val(v.ops[1])
            if a is None or b is None:
                return None
            tm = MASK.get(getattr(v.ops[0], "ty", "") or "", 0xFFFFFFFFFFFFFFFF)

            def s(x):
                sign = (tm + 1) >> 1
                return x - (tm + 1) if x & sign else x
            p = v.pred
            return int({"eq": a == b, "ne": a != b, "ult": a < b, "ule": a <= b, "ugt": a > b, "uge": a >= b,
                        "slt": s(a) < s(b), "sle": s(a) <= s(b), "sgt": s(a) > s(b), "sge": s(a) >= s(b)}[p])
        return None

    def feasible(self):
        for i in range(len(self.path) - 1):
            b, nxt = self.path[i], self.path[i + 1]
            t = b.term
            if t.op == "br" and len(t.x["succ"]) == 2 and t.x["succ"][0] is not t.x["succ"][1]:
                c = self.val(t.ops[0])
                if c is not None and bool(c) != (nxt is t.x["succ"][0]):
                    return False
        return True


def transfer_amount(c):
    """operand of call c that says how many bytes go over the stream, or None"""
    nm = norm_callee(c.callee) if c.callee else None
    if nm == "sqfs_istream_read" and len(c.ops) >= 3:
        return c.ops[2]
    if nm == "sqfs_istream_skip" and len(c.ops) >= 2:
        return c.ops[1]
    sc = slot_call(c)
    if sc == ("struct.sqfs_ostream_t", "append") and len(c.ops) >= 3:
        return c.ops[2]
    return None


def run_recpad(chk, prog, rule, instances):
    """instances: [(function name, index of the size parameter, payload transferred by the caller?)]"""
    n = 0
    for (name, k, payload_outside) in instances:
        f = prog.fn(name)
        if f is None or f.decl:
            chk.broke("%s: function %s not found" % (rule, name))
            continue
        f.build()
        n += 1
        chk.analysed(f)
        paths = _acyclic_paths(f)
        par = f.params[k]
        bad = None
        undecided = False
        ways = 0
        for q in (0, 1, 3):
            for r in range(512):
                S = 512 * q + r
                for path in paths:
                    ev = Eval(f, path, {id(par): S})
                    if not ev.feasible():
                        continue
                    rv = path[-1].term.ops[0] if path[-1].term.ops else None
                    if rv is not None:
                        x = ev.val(rv)
                        ptr = (getattr(rv, "ty", "") or "").endswith("*")
                        if x is not None and ((ptr and x == 0) or (not ptr and x != 0)):
                            continue            # a failure return
                    total = S if payload_outside else 0
                    known = True
                    for b in path:
                        for c in b.insts:
                            if c.op != "call":
                                continue
                            a = transfer_amount(c)
                            if a is None:
                                continue
                            x = ev.val(a)
                            if x is None:
                                known = False
                            else:
                                total += x
                    if not known:
                        undecided = True
                        continue
                    ways += 1
                    if not (S <= total < S + 512 and total % 512 == 0) and bad is None:
                        bad = (S, total)
        inst = "%s:size" % name
        if bad is not None:
            chk.violation(rule, inst, f, "for a payload of %d bytes %d bytes go over the stream on a way to success: a record takes up "
                          "its payload rounded up to whole 512-byte records, no more (the header of the next member is swallowed) and "
                          "no less" % bad)
        elif ways == 0 or undecided:
            chk.note("%s: %s: a byte count does not evaluate from the size alone: not decided" % (rule, inst))
            n -= 1
        else:
            chk.ok(rule, inst, f, "payload plus padding is the payload rounded up to whole records, for every residue of the size "
                   "(%d evaluated ways)" % ways)
    return n
