"""K6-strscan: a cursor over a NUL-terminated buffer never steps over the terminator.

Rule template (Engler-style, slots filled from the code on every run):

  cursor    a pointer-typed loop phi P over bytes whose current byte is tested against NUL somewhere (`*P == 0`): the
            loop scans a C string and relies on the terminator to stop;
  advance   every value that flows back into P is P + k with a constant k (a chain of constant-index geps);
  obligation  for k >= 2: each byte that is stepped over, P[1] .. P[k-1], is known to be non-NUL where the advance is
            computed -- it was compared equal to a non-zero constant, matched a non-zero switch case, or tested != 0 on
            a dominating edge.  Otherwise the skipped byte can be the terminator, the next iteration tests memory behind
            the string and the scan runs on over whatever follows the buffer.

This is a necessary condition of "no out-of-bounds access for any input": it is violated exactly when some input (a
string ending in the introducer of a two-byte sequence) makes the cursor leave the buffer.  What is read behind the
terminator is not modelled; only the step is decided.
"""
from .ir import strip_casts, norm_callee
from .util import backward_slice

EXT = ("zext", "sext", "trunc")


def _unext(v):
    while v.is_inst and v.op in EXT:
        v = v.ops[0]
    return v


def const_offset(v, root, limit=8):
    """k if v == root + k through constant-index byte geps (and casts), else None"""
    k = 0
    for _ in range(limit):
        v = strip_casts(v)
        if v is root:
            return k
        if v.is_inst and v.op == "getelementptr" and v.x.get("gep") and len(v.x["gep"]) == 1 and \
                v.x["gep"][0][0] in ("*", "[]") and v.x["gep"][0][1].is_const and v.x["gep"][0][1].is_int and \
                (len(v.x["gep"][0]) < 3 or v.x["gep"][0][2] == 1):
            k += v.x["gep"][0][1].sval
            v = v.ops[0]
            continue
        return None
    return None


def _phi_leaves(phi):
    out, seen, work = [], {id(phi)}, [phi]
    while work:
        q = work.pop()
        for x, pb in zip(q.ops, q.x["inc"]):
            if x.is_inst and x.op == "phi":
                if id(x) not in seen:
                    seen.add(id(x))
                    work.append(x)
            else:
                out.append((x, pb))
    return out


def _nul_tested(f, P):
    """is the byte at P compared with 0 somewhere (the scan relies on the terminator)?"""
    for ld in f.insts():
        if ld.op != "load" or const_offset(ld.ops[0], P) != 0:
            continue
        work, seen = [ld], set()
        while work:
            v = work.pop()
            if id(v) in seen:
                continue
            seen.add(id(v))
            for u in f.uses.get(v, []):
                if u.op in EXT:
                    work.append(u)
                elif u.op == "icmp" and u.pred in ("eq", "ne") and any(o.is_const and o.is_int and o.sval == 0 for o in u.ops):
                    return True
                elif u.op == "switch":
                    return True
    return False


def _cond_establishes(f, cond, outcome, P, j):
    """does `cond` having the value `outcome` (True/False, or a switch fact) imply P[j] != 0 ?"""
    def is_byte(v):
        v = _unext(v)
        return v.is_inst and v.op == "load" and const_offset(v.ops[0], P) == j

    if isinstance(outcome, tuple):
        return outcome[0] == "case" and is_byte(cond) and all(c != 0 for c in _case_vals(outcome[1]))
    if not (cond.is_inst and cond.op == "icmp"):
        return False
    a, b = cond.ops
    for x, y in ((a, b), (b, a)):
        if not (y.is_const and y.is_int):
            continue
        c = y.sval
        if is_byte(x):
            if cond.pred == "eq" and outcome is True and c != 0:
                return True
            if cond.pred == "ne" and outcome is False and c != 0:
                return True
            if cond.pred == "ne" and outcome is True and c == 0:
                return True
            if cond.pred == "eq" and outcome is False and c == 0:
                return True
            if x is a:
                if cond.pred in ("sgt", "ugt") and outcome is True and c >= 0:
                    return True
                if cond.pred in ("sge", "uge") and outcome is True and c > 0:
                    return True
                if cond.pred in ("sle", "ule") and outcome is False and c >= 0:
                    return True
                if cond.pred in ("slt", "ult") and outcome is False and c > 0:
                    return True
        elif c == 0 and ((cond.pred == "ne" and outcome is True) or (cond.pred == "eq" and outcome is False)):
            # <ctype.h> classification of the byte: (*__ctype_b_loc())[c] & mask -- no class but iscntrl contains NUL
            x = _unext(x)
            if x.is_inst and x.op == "and":
                m = [o for o in x.ops if o.is_const and o.is_int]
                if m and m[0].uval != 2:
                    sl = backward_slice(x, through_loads=True, phi_control=False)
                    if any(v.is_inst and v.op == "call" and norm_callee(v.callee) == "__ctype_b_loc" for v in sl) and \
                            any(is_byte(v) for v in sl):
                        return True
    return False


def _edge_facts(f, b, s, P, j, out, depth=0):
    """taking the edge b -> s establishes P[j] != 0 (by the test b ends with)"""
    t = b.term
    if t.op == "switch":
        vals = [v for v, blk in t.x["cases"] if blk is s]
        if s is t.x["def"] or not vals:
            return False
        return _cond_establishes(f, t.ops[0], ("case", tuple(vals)), P, j)
    if t.op != "br" or len(t.x["succ"]) != 2 or t.x["succ"][0] is t.x["succ"][1]:
        return False
    outcome = t.x["succ"][0] is s
    cond = t.ops[0]
    if cond.is_inst and cond.op == "phi" and cond.bb is b and depth < 3:
        # a && b / a || b: the branch tests a phi of constants and comparisons; every way to this outcome must give the fact
        ok = True
        for val, pred in zip(cond.ops, cond.x["inc"]):
            if val.is_const and val.is_int:
                if bool(val.sval) != outcome:
                    continue
                if not (out.get(pred, False) or _edge_facts(f, pred, b, P, j, out, depth + 1)):
                    ok = False
            elif not (_cond_establishes(f, val, outcome, P, j) or out.get(pred, False) or
                      _edge_facts(f, pred, b, P, j, out, depth + 1)):
                ok = False
        return ok
    return _cond_establishes(f, cond, outcome, P, j)


def nonzero_blocks(f, P, j):
    """blocks on entry to which P[j] != 0 holds on every path from the definition of P (forward must-analysis)"""
    blocks = [b for b in f.blocks if b.insts and b in f.idom and f.dominates(P.bb, b)]
    IN = {b: True for b in blocks}
    IN[P.bb] = False
    changed = True
    rounds = 0
    while changed and rounds < 50:
        changed = False
        rounds += 1
        for b in blocks:
            if b is P.bb:
                continue
            v = True
            for p in b.preds:
                if p not in IN:
                    v = False
                    break
                if not (IN[p] or _edge_facts(f, p, b, P, j, IN)):
                    v = False
                    break
            if v != IN[b]:
                IN[b] = v
                changed = True
    return IN


def _known_nonzero(f, bb, P, j, _memo={}):
    key = (id(f), id(P), j)
    if key not in _memo:
        _memo[key] = nonzero_blocks(f, P, j)
    return _memo[key].get(bb, False)


def _case_vals(vals):
    out = []
    for v in vals:
        if isinstance(v, int):
            out.append(v)
        elif hasattr(v, "sval"):
            out.append(v.sval)
        else:
            out.append(0)
    return out


def run_strscan(chk, prog, rule, scope, exceptions=None):
    exceptions = exceptions or {}
    n = 0
    for f in prog.functions():
        if f.decl or not scope(f.unit.src):
            continue
        f.build()
        for P in f.insts():
            if P.op != "phi" or P.ty != "i8*":
                continue
            leaves = _phi_leaves(P)
            adv = [(x, pb, const_offset(x, P)) for x, pb in leaves]
            adv = [(x, pb, k) for x, pb, k in adv if k is not None and k >= 1]
            if not adv or not _nul_tested(f, P):
                continue
            for x, pb, k in adv:
                if k < 2:
                    continue
                n += 1
                chk.analysed(f)
                where = x if x.is_inst else P
                inst = "%s:cursor+%d@%d" % (f.name, k, where.line)
                missing = [j for j in range(1, k) if not (_known_nonzero(f, where.bb, P, j) or _known_nonzero(f, pb, P, j))]
                if missing and f.name in exceptions:
                    chk.exception(rule, inst, where, exceptions[f.name])
                elif not missing:
                    chk.ok(rule, inst, where, "every byte the cursor steps over was matched against a non-NUL value")
                else:
                    chk.violation(rule, inst, where, "the cursor of a scan that stops at the terminator is advanced by %d although byte "
                                  "+%s was not found to be non-NUL on this path: if it is the terminator, the scan goes on behind "
                                  "the end of the string" % (k, ", +".join(str(j) for j in missing)))
    return n
