"""Obligations, verdicts, evidence files, exit codes.

exit 0  every obligation holds (known findings printed as KNOWN-FINDING)
exit 1  an obligation fails that known_findings.jsonl does not list
exit 2  analysis broken (unit failed to compile, anchor vanished, rule matched
        fewer instances than its floor, positive control not reported)
"""
import json
import os
import sys
import time

from .build import AnalysisBroken, VERIF

KNOWN = os.path.join(VERIF, "known_findings.txt")


def load_known():
    """lines of /verif/known_findings.txt (committed, never written at run time):
         finding: property=<id> rule=<rule> function=<fn> instance=<instance> :: <what fails>
         fixed: property=<id> <commit> <what failed>
       a 'fixed' line suppresses nothing."""
    out = []
    if os.path.exists(KNOWN):
        for ln in open(KNOWN):
            ln = ln.strip()
            if not ln or ln.startswith("#"):
                continue
            if ln.startswith("finding:"):
                head, _, what = ln[len("finding:"):].partition("::")
                d = {"status": "finding", "what": what.strip()}
                for tok in head.split():
                    if "=" in tok:
                        k, v = tok.split("=", 1)
                        d[k] = v
                out.append(d)
            elif ln.startswith("fixed:"):
                toks = ln[len("fixed:"):].split()
                d = {"status": "fixed", "what": " ".join(toks[2:])}
                for tok in toks[:1]:
                    if tok.startswith("property="):
                        d["property"] = tok.split("=", 1)[1]
                d["commit"] = toks[1] if len(toks) > 1 else ""
                out.append(d)
    return out


class Check:
    def __init__(self, pid, tier="quick"):
        self.pid = pid
        self.tier = tier
        self.seed = int(os.environ.get("VERIF_SEED", "0") or 0)
        self.t0 = time.time()
        self.obl = []          # all obligations
        self.floors = {}       # rule -> minimal instance count
        self.notes = []
        self.units = set()
        self.functions = set()
        self.controls = []     # (rule, reported?)
        self.exceptions = []
        self.assumptions = []
        self.explanation = ""
        self.extra = {}
        self.broken = []

    # ---- recording
    def analysed(self, fn):
        self.functions.add(fn.qname)
        self.units.add(fn.unit.src)

    def ok(self, rule, instance, site, detail="", fn=None, nontrivial=True):
        self._add(rule, instance, site, "holds", detail, fn, nontrivial)

    def violation(self, rule, instance, site, detail="", fn=None, path=None):
        self._add(rule, instance, site, "VIOLATED", detail, fn, True, path)

    def exception(self, rule, instance, site, reason, fn=None):
        self._add(rule, instance, site, "exception", reason, fn, True)
        self.exceptions.append({"rule": rule, "instance": instance, "reason": reason})

    def _add(self, rule, instance, site, verdict, detail, fn, nontrivial, path=None):
        if hasattr(site, "loc"):
            if fn is None:
                fn = site.fn.name
            site = site.loc
        elif hasattr(site, "file") and hasattr(site, "line"):
            if fn is None:
                fn = site.name
            site = "%s:%d" % (site.file, site.line)
        if fn is not None and not isinstance(fn, str):
            fn = fn.name
        o = {"rule": rule, "instance": instance, "function": fn, "site": site, "verdict": verdict,
             "detail": detail, "nontrivial": nontrivial}
        if path:
            o["path"] = path
        self.obl.append(o)

    def floor(self, rule, n):
        self.floors[rule] = n

    def control(self, rule, reported, what=""):
        self.controls.append({"rule": rule, "reported": bool(reported), "what": what})

    def note(self, s):
        self.notes.append(s)

    def broke(self, why):
        self.broken.append(why)

    # ---- finishing
    def finish(self):
        known = [k for k in load_known() if k.get("property") == self.pid]
        findings = [k for k in known if k.get("status") == "finding"]
        viol = [o for o in self.obl if o["verdict"] == "VIOLATED"]
        new, listed = [], []
        for v in viol:
            hit = None
            for k in findings:
                if k.get("rule") == v["rule"] and k.get("function") == v["function"] and \
                        k.get("instance") == v["instance"]:
                    hit = k
                    break
            if hit:
                v["verdict"] = "known-finding"
                listed.append((v, hit))
            else:
                new.append(v)
        # vacuity guards
        counts = {}
        for o in self.obl:
            counts[o["rule"]] = counts.get(o["rule"], 0) + 1
        for rule, n in self.floors.items():
            if counts.get(rule, 0) < n:
                self.broken.append("rule %s matched %d instances, floor is %d" % (rule, counts.get(rule, 0), n))
        for c in self.controls:
            if not c["reported"]:
                self.broken.append("positive control for %s was not reported (%s)" % (c["rule"], c["what"]))

        mutant = os.environ.get("VERIF_MUTANT_RUN")
        outdir = os.path.join(VERIF, "out", self.pid + ("-mutant-" + mutant if mutant else ""))
        os.makedirs(outdir, exist_ok=True)
        for f in os.listdir(outdir):
            if f.startswith("violation-"):
                os.unlink(os.path.join(outdir, f))

        print("== %s (%s tier): %d obligations over %d functions in %d units; rules: %s" % (
            self.pid, self.tier, len(self.obl), len(self.functions), len(self.units),
            ", ".join("%s=%d" % kv for kv in sorted(counts.items()))))
        for n in self.notes:
            print("   note: " + n)
        for e in self.exceptions:
            print("   exception: %s %s -- %s" % (e["rule"], e["instance"], e["reason"]))
        seen_k = set()
        for v, k in listed:
            key = (k.get("rule"), k.get("function"), k.get("instance"))
            if key in seen_k:
                continue
            seen_k.add(key)
            print("KNOWN-FINDING: property=%s %s %s %s at %s: %s" % (
                self.pid, v["rule"], v["function"], v["instance"], v["site"], k.get("what", v["detail"])))
        code = 0
        if self.broken:
            for b in self.broken:
                print("ANALYSIS-BROKEN property=%s: %s" % (self.pid, b))
            code = 2
        for n, v in enumerate(new):
            path = os.path.join(outdir, "violation-%d.json" % n)
            with open(path, "w") as f:
                json.dump({"property": self.pid, **v}, f, indent=1)
            print("   %s %s in %s at %s: %s" % (v["rule"], v["instance"], v["function"], v["site"], v["detail"]))
            print("VIOLATION property=%s replay=%s" % (self.pid, path))
            code = 1 if code == 0 else code
        if new and code == 2:
            code = 1
        if not mutant:
            self._write_evidence(counts, len(new), len(listed))
        if code == 0:
            print("OK property=%s" % self.pid)
        return code

    def _write_evidence(self, counts, nviol, nknown):
        samples = []
        per_rule = {}
        for o in self.obl:
            k = per_rule.get(o["rule"], 0)
            if k < 6 or o["verdict"] not in ("holds",):
                s = {k2: o[k2] for k2 in ("rule", "instance", "function", "site", "verdict", "detail")}
                samples.append(s)
            per_rule[o["rule"]] = k + 1
        distinct = len({(o["rule"], o["instance"], o["function"], o["site"]) for o in self.obl if o["nontrivial"]})
        ev = {
            "property_id": self.pid,
            "tier": self.tier,
            "seed": self.seed,
            "level": "other",
            "coverage": {
                "explanation": self.explanation,
                "evaluations": len(self.obl),
                "distinct_nontrivial": distinct,
                "rule": "one evaluation = one static obligation (rule instance at a site) decided on the IR/AST of the "
                        "current tree; non-trivial = the verdict depended on a non-constant input (a path, a guard, "
                        "a def-use chain); distinct = distinct (rule, instance, function, site)",
                "samples": samples[:400],
                "obligations": len(self.obl),
                "discharged": sum(1 for o in self.obl if o["verdict"] in ("holds", "exception")),
                "units_analysed": sorted(self.units),
                "functions_analysed": len(self.functions),
                "instances_per_rule": counts,
                "floors": self.floors,
                "positive_controls": self.controls,
                "exceptions_applied": self.exceptions,
                "known_findings_matched": nknown,
                "notes": self.notes,
                "exhaustive": True,
                **self.extra,
            },
            "assumptions": self.assumptions,
            "wall_s": round(time.time() - self.t0, 2),
            "violations": nviol,
        }
        os.makedirs(os.path.join(VERIF, "evidence"), exist_ok=True)
        p = os.path.join(VERIF, "evidence", "%s.json" % self.pid)
        with open(p + ".tmp", "w") as f:
            json.dump(ev, f, indent=1)
        os.replace(p + ".tmp", p)
