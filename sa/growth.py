"""Growing buffers: prove  offset + length <= capacity  where the buffer is re-allocated inside a loop.

Idiom (read_inode_dir_ext):   cap = C0; buf = alloc(H + cap);
                              loop { need = f(input); n = cap; while (need > n - used) n *= 2;
                                     if (n > cap) { buf = realloc(buf, H + n); cap = n; }
                                     write need bytes at buf + H + used; used += need; }

1. Capacity invariant.  The destination base is a pointer phi P; an integer phi M in the same block is its capacity if,
   following both phis in lock-step through every incoming edge (and round the loop), each allocation that defines P has
   size  H + (the value that defines M on that edge)  for one constant H.
2. Per incoming edge e of that block the goal  H + M_e - offset - length >= 0  must follow from the branch conditions
   that hold on e, as a non-negative combination of at most three of them (all quantities are unsigned, so a linear form
   with non-negative coefficients is >= 0).  Unsigned subtractions in the conditions are taken at face value; that they
   do not wrap (used <= cap) is the invariant this very obligation maintains inductively.
"""
import itertools

from .ir import strip_casts, norm_callee
from .bounds import ALLOC_FNS


def _unext(v):
    while v.is_inst and v.op in ("zext", "sext", "bitcast"):
        v = v.ops[0]
    return v


def _capacity_pair(L, f, P, M, H, seen):
    """alloc size of every definition of pointer P equals H[0] + the matching definition of M"""
    P, M = strip_casts(P), _unext(M)
    key = (id(P), id(M))
    if key in seen:
        return True
    seen.add(key)
    if P.is_inst and P.op == "call" and norm_callee(P.callee) in ALLOC_FNS:
        A = L.alloc_form(P)
        if A is None:
            return False
        D = L.add(A, L.form(M), -1)
        if not L.is_const(D):
            return False
        h = D.get(None, 0)
        if H[0] is None:
            H[0] = h
        return H[0] == h
    if P.is_inst and P.op == "phi":
        if M.is_inst and M.op == "phi" and M.bb is P.bb:
            for (pv, pp) in zip(P.ops, P.x["inc"]):
                mv = [v for v, q in zip(M.ops, M.x["inc"]) if q is pp]
                if len(mv) != 1 or not _capacity_pair(L, f, pv, mv[0], H, seen):
                    return False
            return True
        # M does not change where P merges: every incoming pointer must have capacity M
        return all(_capacity_pair(L, f, pv, M, H, seen) for pv in P.ops)
    return False


def _facts(L, f, pred, succ):
    """non-negative linear forms implied by the conditions that hold on the edge pred -> succ"""
    conds = list(f.guards_at(pred))
    t = pred.term
    if t.op == "br" and len(t.x["succ"]) == 2 and t.x["succ"][0] is not t.x["succ"][1]:
        if t.x["succ"][0] is succ:
            conds.append((t.ops[0], True, t))
        elif t.x["succ"][1] is succ:
            conds.append((t.ops[0], False, t))
    out = []
    for (c, outcome, br) in conds:
        if not (c.is_inst and c.op == "icmp") or outcome not in (True, False):
            continue
        a, b = L.form(c.ops[0]), L.form(c.ops[1])
        p = c.pred
        if not outcome:
            p = {"ult": "uge", "ule": "ugt", "ugt": "ule", "uge": "ult", "eq": "ne", "ne": "eq"}.get(p)
        if p == "ult":
            out.append(L.add(L.add(b, a, -1), {None: 1}, -1))
        elif p == "ule":
            out.append(L.add(b, a, -1))
        elif p == "ugt":
            out.append(L.add(L.add(a, b, -1), {None: 1}, -1))
        elif p == "uge":
            out.append(L.add(a, b, -1))
        elif p == "eq":
            out.append(L.add(a, b, -1))
            out.append(L.add(b, a, -1))
    return out


def _prove(L, goal, facts):
    if L.nonneg(goal):
        return True
    for k in (1, 2, 3):
        for sub in itertools.combinations(facts, k):
            g = goal
            for s_ in sub:
                g = L.add(g, s_, -1)
            if L.nonneg(g):
                return True
    return False


def growth_fits(prog, f, L, d, n):
    """-> None (idiom not present) | (True, text) | (False, text)"""
    base, off = L.offset_form(d)
    if off is None:
        return None
    P = strip_casts(base)
    if not (P.is_inst and P.op == "phi" and P.ty.endswith("*")):
        return None
    cands = [i for i in P.bb.insts if i.op == "phi" and not i.ty.endswith("*") and i.ty.startswith("i")]
    for M in cands:
        H = [None]
        if not _capacity_pair(L, f, P, M, H, set()):
            continue
        N = L.form(n)
        bad = None
        for (mv, pred) in zip(M.ops, M.x["inc"]):
            goal = L.add(L.add(L.add({None: H[0]}, L.form(mv)), off, -1), N, -1)
            if not _prove(L, goal, _facts(L, f, pred, P.bb)):
                bad = (pred, goal)
                break
        if bad is None:
            return (True, "re-allocated buffer: capacity %s follows the allocation on every edge and offset + length <= capacity is "
                          "implied by the branch conditions on each of them" % (getattr(M, "name", None) or "phi"))
        return (False, "re-allocated buffer with capacity variable '%s': on the edge from line %d nothing implies  %s >= 0 "
                       "(capacity - offset - length)" % (getattr(M, "name", None) or "phi", bad[0].term.line or 0, L.show(bad[1])))
    return None
