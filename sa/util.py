"""Shared helpers over the program model: pointer resolution, struct
flattening, value walking."""
import re

from .ir import strip_casts, strip_suffix, norm_callee


def struct_of_type(t):
    """'%struct.foo*' / '%struct.foo' -> 'struct.foo' or None"""
    m = re.match(r"^%((?:struct|union)\.[\w.]+)\**$", t)
    return m.group(1) if m else None


def pointee(t):
    return t[:-1] if t.endswith("*") else None


def is_fnptr(t):
    # '{}*' is how LLVM 14 prints a function pointer inside a self-referential struct
    return ("(" in t and t.endswith("*")) or t == "{}*"


def is_ptr(t):
    return t.endswith("*")


def flatten(prog, tname, unit=None, base=0, prefix="", depth=0):
    """leaf slots of a struct type: list of (off, size, type, dotted-name)"""
    s = prog.struct(tname, unit)
    out = []
    if s is None or depth > 6:
        return out
    for e in s["elems"]:
        nm = e.get("n") or ("#%d" % e["off"])
        full = prefix + nm
        sub = None
        if e["t"].startswith("%") and not e["t"].endswith("*"):
            sub = struct_of_type(e["t"])
        if sub and prog.struct(sub, unit):
            out += flatten(prog, sub, unit, base + e["off"], full + ".", depth + 1)
        else:
            out.append((base + e["off"], e["sz"], e["t"], full))
    return out


def resolve_ptr(prog, v, unit=None):
    """-> (base Value, byte offset or None if not constant, exact: bool)
    follows bitcasts and GEPs with constant indices; a variable array index
    yields the offset of the array start with exact=False"""
    off, exact = 0, True
    while True:
        if v.is_inst and v.op in ("bitcast", "addrspacecast"):
            v = v.ops[0]
            continue
        if v.is_inst and v.op == "getelementptr":
            path = v.x["gep"]
            for el in path:
                if el[0] == "*":
                    idx, esz = el[1], el[2]
                    if idx.is_const and idx.is_int:
                        off += idx.sval * esz
                    else:
                        exact = False
                elif el[0] == "[]":
                    idx, esz = el[1], el[3]
                    if idx.is_const and idx.is_int:
                        off += idx.sval * esz
                    else:
                        exact = False
                elif el[0] == "?":
                    exact = False
                else:
                    s = prog.struct(el[0], unit)
                    if s is None:
                        exact = False
                    else:
                        off += s["elems"][el[1]]["off"]
            v = v.ops[0]
            continue
        return v, off, exact


def const_int(v):
    if v.is_const and v.is_int:
        return v.sval
    return None


def is_null(v):
    return v.is_const and v.is_null


def callee_name(call):
    return norm_callee(call.callee)


def walk_back(v, follow=("bitcast", "zext", "sext", "trunc", "phi", "select", "ptrtoint", "inttoptr"), limit=200):
    """values reachable backwards from v through the given transparent ops"""
    seen, out, stack = set(), [], [v]
    while stack and len(seen) < limit:
        x = stack.pop()
        if id(x) in seen:
            continue
        seen.add(id(x))
        out.append(x)
        if x.is_inst and x.op in follow:
            ops = x.ops[1:] if x.op == "select" else x.ops
            stack.extend(ops)
    return out


def backward_slice(v, limit=2000, through_loads=False, phi_control=True):
    """all values v depends on via SSA operands (not through memory unless
    through_loads, in which case a load continues at its pointer operand).
    phi_control: a phi also depends on the branch conditions that select its
    incoming edge (how `a && b` looks after mem2reg)"""
    seen, out, stack = set(), [], [v]
    while stack and len(seen) < limit:
        x = stack.pop()
        if id(x) in seen:
            continue
        seen.add(id(x))
        out.append(x)
        if x.is_inst:
            if x.op == "load" and not through_loads:
                continue
            stack.extend(x.ops)
            if x.op == "phi" and phi_control:
                for pb in x.x.get("inc", []) + [x.bb]:
                    # x.bb: for a loop-header phi the header's own exit test decides which value is seen outside
                    if pb.insts and pb.term.op in ("br", "switch") and pb.term.ops:
                        stack.append(pb.term.ops[0])
            for el in x.x.get("gep") or []:
                if el[0] in ("*", "[]"):
                    stack.append(el[1])
    return out


# ---- a small path-sensitive walk: phis are resolved along the path taken and comparisons with constants narrow an
# interval per SSA value, so that  fd = open(); if (fd < 0) return; ... x = phi(-1, fd); if (x >= 0) close(x)  is followed
# only along its feasible branches
def _cmp_interval(pred, c):
    INF = 1 << 70
    return {"slt": (-INF, c - 1), "sle": (-INF, c), "sgt": (c + 1, INF), "sge": (c, INF), "eq": (c, c),
            "ult": (0, c - 1), "ule": (0, c), "ugt": (c + 1, INF), "uge": (c, INF)}.get(pred)


_NEG = {"slt": "sge", "sle": "sgt", "sgt": "sle", "sge": "slt", "eq": "ne", "ne": "eq", "ult": "uge", "ule": "ugt", "ugt": "ule", "uge": "ult"}


def feasible_reach(f, start, stop, targets, limit=20000):
    """first block of `targets` reachable from block `start` without entering a block of `stop`, following only branches
    that are consistent with the comparisons (against constants) already taken on the path; None if there is none"""
    INF = 1 << 70

    def resolve(v, env):
        seen = 0
        while v.is_inst and v.op in ("sext", "zext", "trunc", "bitcast"):
            v = v.ops[0]
        while v.is_inst and v.op == "phi" and id(v) in env and seen < 8:
            v = env[id(v)]
            while v.is_inst and v.op in ("sext", "zext", "trunc", "bitcast"):
                v = v.ops[0]
            seen += 1
        return v

    def initial(block):
        iv = {}
        for (c, outcome, br) in f.guards_at(block):
            if c.is_inst and c.op == "icmp" and c.ops[1].is_const and c.ops[1].is_int and outcome in (True, False):
                p = c.pred if outcome else _NEG.get(c.pred)
                r = _cmp_interval(p, c.ops[1].sval)
                if r:
                    v = c.ops[0]
                    while v.is_inst and v.op in ("sext", "zext", "trunc", "bitcast"):
                        v = v.ops[0]
                    lo, hi = iv.get(id(v), (-INF, INF))
                    iv[id(v)] = (max(lo, r[0]), min(hi, r[1]))
        return iv

    work = [(start, None, {}, initial(start))]
    visited = set()
    steps = 0
    while work:
        b, pred, env, iv = work.pop()
        steps += 1
        if steps > limit:
            return b
        key = (id(b), id(pred))
        if key in visited:
            continue
        visited.add(key)
        if b in stop:
            continue
        if b in targets:
            return b
        if pred is not None:
            env = dict(env)
            for i in b.insts:
                if i.op != "phi":
                    break
                for val, p in zip(i.ops, i.x["inc"]):
                    if p is pred:
                        env[id(i)] = val
        t = b.term
        succs = list(b.succs)
        if t.op == "br" and len(t.x["succ"]) == 2:
            c = t.ops[0]
            if c.is_inst and c.op == "icmp" and c.ops[1].is_const and c.ops[1].is_int:
                v = resolve(c.ops[0], env)
                k = c.ops[1].sval
                if v.is_const and v.is_int:
                    lo, hi = v.sval, v.sval
                else:
                    lo, hi = iv.get(id(v), (-INF, INF))
                for taken, s_ in ((True, t.x["succ"][0]), (False, t.x["succ"][1])):
                    p = c.pred if taken else _NEG.get(c.pred)
                    if p == "ne":
                        if lo == hi == k:
                            continue
                        work.append((s_, b, env, iv))
                        continue
                    r = _cmp_interval(p, k)
                    if r is None:
                        work.append((s_, b, env, iv))
                        continue
                    nlo, nhi = max(lo, r[0]), min(hi, r[1])
                    if nlo > nhi:
                        continue            # infeasible on this path
                    iv2 = dict(iv)
                    if not (v.is_const):
                        iv2[id(v)] = (nlo, nhi)
                    work.append((s_, b, env, iv2))
                continue
        for s_ in succs:
            work.append((s_, b, env, iv))
    return None
