"""Shared helpers over the program model: pointer resolution, struct
flattening, value walking."""
import re

from .ir import strip_casts, strip_suffix, norm_callee


def struct_of_type(t):
    """'%struct.foo*' / '%struct.foo' -> 'struct.foo' or None"""
    m = re.match(r"^%((?:struct|union)\.[\w.]+)\**$", t)
    return m.group(1) if m else None


def pointee(t):
    return t[:-1] if t.endswith("*") else None


def is_fnptr(t):
    # '{}*' is how LLVM 14 prints a function pointer inside a self-referential struct
    return ("(" in t and t.endswith("*")) or t == "{}*"


def is_ptr(t):
    return t.endswith("*")


def flatten(prog, tname, unit=None, base=0, prefix="", depth=0):
    """leaf slots of a struct type: list of (off, size, type, dotted-name)"""
    s = prog.struct(tname, unit)
    out = []
    if s is None or depth > 6:
        return out
    for e in s["elems"]:
        nm = e.get("n") or ("#%d" % e["off"])
        full = prefix + nm
        sub = None
        if e["t"].startswith("%") and not e["t"].endswith("*"):
            sub = struct_of_type(e["t"])
        if sub and prog.struct(sub, unit):
            out += flatten(prog, sub, unit, base + e["off"], full + ".", depth + 1)
        else:
            out.append((base + e["off"], e["sz"], e["t"], full))
    return out


def resolve_ptr(prog, v, unit=None):
    """-> (base Value, byte offset or None if not constant, exact: bool)
    follows bitcasts and GEPs with constant indices; a variable array index
    yields the offset of the array start with exact=False"""
    off, exact = 0, True
    while True:
        if v.is_inst and v.op in ("bitcast", "addrspacecast"):
            v = v.ops[0]
            continue
        if v.is_inst and v.op == "getelementptr":
            path = v.x["gep"]
            for el in path:
                if el[0] == "*":
                    idx, esz = el[1], el[2]
                    if idx.is_const and idx.is_int:
                        off += idx.sval * esz
                    else:
                        exact = False
                elif el[0] == "[]":
                    idx, esz = el[1], el[3]
                    if idx.is_const and idx.is_int:
                        off += idx.sval * esz
                    else:
                        exact = False
                elif el[0] == "?":
                    exact = False
                else:
                    s = prog.struct(el[0], unit)
                    if s is None:
                        exact = False
                    else:
                        off += s["elems"][el[1]]["off"]
            v = v.ops[0]
            continue
        return v, off, exact


def const_int(v):
    if v.is_const and v.is_int:
        return v.sval
    return None


def is_null(v):
    return v.is_const and v.is_null


def callee_name(call):
    return norm_callee(call.callee)


def walk_back(v, follow=("bitcast", "zext", "sext", "trunc", "phi", "select", "ptrtoint", "inttoptr"), limit=200):
    """values reachable backwards from v through the given transparent ops"""
    seen, out, stack = set(), [], [v]
    while stack and len(seen) < limit:
        x = stack.pop()
        if id(x) in seen:
            continue
        seen.add(id(x))
        out.append(x)
        if x.is_inst and x.op in follow:
            ops = x.ops[1:] if x.op == "select" else x.ops
            stack.extend(ops)
    return out


def backward_slice(v, limit=2000, through_loads=False, phi_control=True):
    """all values v depends on via SSA operands (not through memory unless
    through_loads, in which case a load continues at its pointer operand).
    phi_control: a phi also depends on the branch conditions that select its
    incoming edge (how `a && b` looks after mem2reg)"""
    seen, out, stack = set(), [], [v]
    while stack and len(seen) < limit:
        x = stack.pop()
        if id(x) in seen:
            continue
        seen.add(id(x))
        out.append(x)
        if x.is_inst:
            if x.op == "load" and not through_loads:
                continue
            stack.extend(x.ops)
            if x.op == "phi" and phi_control:
                for pb in x.x.get("inc", []) + [x.bb]:
                    # x.bb: for a loop-header phi the header's own exit test decides which value is seen outside
                    if pb.insts and pb.term.op in ("br", "switch") and pb.term.ops:
                        stack.append(pb.term.ops[0])
            for el in x.x.get("gep") or []:
                if el[0] in ("*", "[]"):
                    stack.append(el[1])
    return out
