"""K1-progress: an input stream built on top of an archive member never reports success with zero bytes available.

sqfs_istream_splice / read / skip call get_buffered_data again and again until it reports an error or end of file; a
success with *size == 0 that does not change the stream's state makes them spin.  For an implementation that computes
the size itself (the tar member stream with its sparse map) every store to *size that can reach a 'return 0' must store a
value that is known to be non-zero: a constant, a value tested against zero on the way, a min() of such values, the
caller's `want` (callers ask for at least one byte), or the size reported by the wrapped stream's own get_buffered_data.
"""
from .ir import strip_casts, norm_callee, ExternFn
from .util import resolve_ptr
from .effects import slot_call
from .errflow import ret_sources


def _unext(v):
    while v.is_inst and v.op in ("zext", "sext", "trunc", "bitcast"):
        v = v.ops[0]
    return v


class NonZero:
    def __init__(self, prog, f, assume_params=()):
        self.prog, self.f, self.assume = prog, f, set(assume_params)

    def fact_nonzero(self, v, bb):
        """a dominating test says v != 0 (v matched by identity or as another load of the same local)"""
        for (cond, outcome, br) in self.f.guards_at(bb):
            if not (cond.is_inst and cond.op == "icmp"):
                continue
            a, b = _unext(cond.ops[0]), cond.ops[1]
            if not (b.is_const and b.is_int and b.sval == 0):
                continue
            nz = (cond.pred == "ne" and outcome is True) or (cond.pred == "eq" and outcome is False) or \
                 (cond.pred in ("ugt", "sgt") and outcome is True) or (cond.pred in ("ule",) and outcome is False)
            if not nz:
                continue
            if a is v:
                return True
            if a.is_inst and v.is_inst and a.op == "load" and v.op == "load":
                pa, pv = strip_casts(a.ops[0]), strip_casts(v.ops[0])
                if pa is pv:
                    return True
                ra, rv = resolve_ptr(self.prog, pa, self.f.unit), resolve_ptr(self.prog, pv, self.f.unit)
                if strip_casts(ra[0]) is strip_casts(rv[0]) and ra[1] == rv[1] and ra[2] and rv[2]:
                    # the same field of the same object, re-loaded: valid as long as nothing in between writes it
                    def between(i):
                        fa = (i.bb is a.bb and i.pos > a.pos) or (i.bb is not a.bb and self.f.reaches(a.bb, i.bb))
                        tb = (i.bb is v.bb and i.pos < v.pos) or (i.bb is not v.bb and self.f.reaches(i.bb, v.bb))
                        return fa and tb
                    if not any(i.op == "store" and self._same_field(i.ops[1], pv) and between(i) for i in self.f.insts()):
                        return True
        return False

    def _same_field(self, p, q):
        rp, rq = resolve_ptr(self.prog, p, self.f.unit), resolve_ptr(self.prog, q, self.f.unit)
        return strip_casts(rp[0]) is strip_casts(rq[0]) and rp[1] == rq[1]

    def cond_known(self, c, bb):
        """truth of condition c at bb as far as a dominating branch on the same comparison (same predicate, same operands
        modulo re-loads of one location) tells"""
        def same(a, b):
            a, b = _unext(a), _unext(b)
            if a is b:
                return True
            if a.is_const and b.is_const:
                return (a.is_int and b.is_int and a.uval == b.uval) or (a.is_null and b.is_null)
            if a.is_inst and b.is_inst and a.op == "load" and b.op == "load":
                pa, pb = strip_casts(a.ops[0]), strip_casts(b.ops[0])
                if pa is pb:
                    return True
                ra, rb = resolve_ptr(self.prog, pa, self.f.unit), resolve_ptr(self.prog, pb, self.f.unit)
                return strip_casts(ra[0]) is strip_casts(rb[0]) and ra[1] == rb[1] and ra[2] and rb[2]
            return False
        if not (c.is_inst and c.op == "icmp"):
            return None
        NEG = {"eq": "ne", "ne": "eq", "ult": "uge", "uge": "ult", "ugt": "ule", "ule": "ugt"}
        for (g, outcome, br) in self.f.guards_at(bb):
            if not (g.is_inst and g.op == "icmp") or outcome not in (True, False):
                continue
            if same(g.ops[0], c.ops[0]) and same(g.ops[1], c.ops[1]):
                if g.pred == c.pred:
                    return outcome
                if NEG.get(g.pred) == c.pred:
                    return not outcome
        return None

    def nonzero(self, v, bb, depth=0, seen=None):
        seen = seen if seen is not None else set()
        v = _unext(v)
        if id(v) in seen:
            return v.is_inst and v.op == "phi"      # round a loop: holds if it holds for every way in (co-induction)
        if depth > 16:
            return False
        seen = seen | {id(v)}
        if v.is_const:
            return bool(v.is_int and v.sval != 0)
        if not v.is_inst:
            return v in self.assume
        if self.fact_nonzero(v, bb):
            return True
        if v.op == "select":
            known = self.cond_known(v.ops[0], bb)
            if known is True:
                return self.nonzero(v.ops[1], bb, depth + 1, seen)
            if known is False:
                return self.nonzero(v.ops[2], bb, depth + 1, seen)
            return self.nonzero(v.ops[1], bb, depth + 1, seen) and self.nonzero(v.ops[2], bb, depth + 1, seen)
        if v.op == "phi":
            return all(self.nonzero(val, pred, depth + 1, seen) for val, pred in zip(v.ops, v.x["inc"]))
        if v.op in ("mul", "shl"):
            # overflow to zero is the business of the SZ_*_OV checks
            if v.op == "shl":
                return self.nonzero(v.ops[0], bb, depth + 1, seen)
            return all(self.nonzero(o, bb, depth + 1, seen) for o in v.ops)
        if v.op == "extractvalue" and v.ops[0].is_inst and v.ops[0].op == "call" and \
                (v.ops[0].callee or "").startswith(("llvm.umul.with.overflow", "llvm.smul.with.overflow")):
            return all(self.nonzero(o, v.bb, depth + 1, seen) for o in v.ops[0].ops)
        if v.op == "load":
            A = strip_casts(v.ops[0])
            if A.is_inst and A.op == "alloca":
                if ("alloca", id(A)) in seen:
                    return True         # the local's value round a loop: holds if every definition is non-zero
                seen = seen | {("alloca", id(A))}
                defs = []
                for i in self.f.insts():
                    if i.op == "store" and strip_casts(i.ops[1]) is A:
                        defs.append(("store", i))
                    elif i.op == "call" and any(strip_casts(o) is A for o in i.ops) and not (norm_callee(i.callee) or "").startswith("llvm."):
                        defs.append(("call", i))
                defs = [(k, d) for (k, d) in defs if self.f.inst_dominates(d, v) or self.f.reaches(d.bb, v.bb)]
                if not defs:
                    return False
                for (k, d) in defs:
                    if k == "store":
                        if not self.nonzero(d.ops[0], d.bb, depth + 1, seen):
                            return False
                    else:
                        # defined by a callee through the address: a later load was tested against zero on the way here
                        if not self.fact_nonzero(v, bb):
                            return False
                return True
        return False


def run_progress(chk, prog, rule, unit_filter):
    n = 0
    for f in prog.slot_impls(("struct.sqfs_istream_t", "get_buffered_data")):
        if isinstance(f, ExternFn) or f.decl:
            continue
        f.build()
        if not unit_filter(f.unit.src):
            continue
        chk.analysed(f)
        size = f.params[2]
        want = f.params[3]
        NZ = NonZero(prog, f, assume_params=(want,))
        zero_blocks = [b for (v, b) in ret_sources(f) if strip_casts(v).is_const and strip_casts(v).is_int and strip_casts(v).sval == 0]
        stores = [i for i in f.insts() if i.op == "store" and strip_casts(i.ops[1]) is size]
        deleg = [c for c in f.calls() if slot_call(c) == ("struct.sqfs_istream_t", "get_buffered_data") and
                 any(strip_casts(o) is size for o in c.ops)]
        for s_ in stores:
            # can this store be the last one before a 'return 0'?
            reach = False
            stack, vis = [s_.bb], set()
            while stack and not reach:
                b = stack.pop()
                if b in vis:
                    continue
                vis.add(b)
                if b is not s_.bb and any(i.op == "store" and strip_casts(i.ops[1]) is size for i in b.insts):
                    continue
                if b in zero_blocks or (b.term.op == "ret" and any(z is b for z in zero_blocks)):
                    reach = True
                stack.extend(b.succs)
            if not reach:
                continue
            n += 1
            inst = "%s:size@%d" % (f.name, s_.line)
            v = s_.ops[0]
            # clamping the wrapped stream's answer:  if (*size > diff) *size = diff
            if NZ.nonzero(v, s_.bb):
                chk.ok(rule, inst, s_, "the size reported with 'success' is non-zero on this path (constant, tested, min of such, or the caller's want)")
            else:
                chk.violation(rule, inst, s_, "the stream can report success with zero bytes available without having changed its state: "
                              "splice / read / skip call it again forever")
        if deleg and not stores:
            chk.ok(rule, "%s:delegates" % f.name, deleg[0], "the size is the one reported by the wrapped stream")
    return n


def run_doubling(chk, prog, rule, unit_filter):
    """K1-double: a loop whose controlling value only grows by multiplication (n *= 2 until it is large enough) terminates
    only if that value is non-zero when the loop is entered"""
    n = 0
    seenf = set()
    for f in prog.functions():
        if f.decl or f.qname in seenf or not unit_filter(f.unit.src):
            continue
        seenf.add(f.qname)
        f.build()
        for (h, body) in f.loops:
            for P in h.insts:
                if P.op != "phi" or P.ty.endswith("*"):
                    continue
                inits, steps = [], []
                for val, pred in zip(P.ops, P.x["inc"]):
                    (steps if pred in body else inits).append((val, pred))
                if not steps or not inits:
                    continue
                mult = True
                for (val, pred) in steps:
                    w = _unext(val)
                    ok = False
                    if w.is_inst and w.op in ("mul", "shl") and any(_unext(o) is P for o in w.ops) and any(o.is_const for o in w.ops):
                        ok = True
                    if w.is_inst and w.op == "extractvalue" and w.ops[0].is_inst and w.ops[0].op == "call" and \
                            (w.ops[0].callee or "").startswith("llvm.umul.with.overflow") and any(_unext(o) is P for o in w.ops[0].ops):
                        ok = True
                    if not ok:
                        mult = False
                if not mult:
                    continue
                # the loop's exit must depend on P (otherwise P is not what makes it end)
                dep = False
                for b in body:
                    t = b.term
                    if t.op == "br" and len(t.x["succ"]) == 2 and any(s_ not in body for s_ in t.x["succ"]):
                        from .util import backward_slice
                        if any(x is P for x in backward_slice(t.ops[0], phi_control=False, limit=100)):
                            dep = True
                if not dep:
                    continue
                n += 1
                chk.analysed(f)
                inst = "%s:loop@%d" % (f.name, h.term.line or P.line or 0)
                NZ = NonZero(prog, f)
                bad = [(v, p) for (v, p) in inits if not NZ.nonzero(v, p)]
                if not bad:
                    chk.ok(rule, inst, P, "the value that is doubled until it is large enough is non-zero when the loop is entered")
                else:
                    chk.violation(rule, inst, P, "the loop multiplies '%s' until it is large enough, but that value can be 0 when the loop is "
                                  "entered: 0 stays 0 (and never overflows), the loop never ends" % (getattr(P, "name", None) or "a size"))
    return n
