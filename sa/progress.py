"""K1-progress: an input stream built on top of an archive member never reports success with zero bytes available.

sqfs_istream_splice / read / skip call get_buffered_data again and again until it reports an error or end of file; a
success with *size == 0 that does not change the stream's state makes them spin.  For an implementation that computes
the size itself (the tar member stream with its sparse map) every store to *size that can reach a 'return 0' must store a
value that is known to be non-zero: a constant, a value tested against zero on the way, a min() of such values, the
caller's `want` (callers ask for at least one byte), or the size reported by the wrapped stream's own get_buffered_data.
"""
from .ir import strip_casts, norm_callee, ExternFn
from .util import resolve_ptr
from .effects import slot_call
from .errflow import ret_sources


def _unext(v):
    while v.is_inst and v.op in ("zext", "sext", "trunc", "bitcast"):
        v = v.ops[0]
    return v


class NonZero:
    def __init__(self, prog, f, assume_params=()):
        self.prog, self.f, self.assume = prog, f, set(assume_params)

    def fact_nonzero(self, v, bb):
        """a dominating test says v != 0 (v matched by identity or as another load of the same local)"""
        for (cond, outcome, br) in self.f.guards_at(bb):
            if not (cond.is_inst and cond.op == "icmp"):
                continue
            a, b = _unext(cond.ops[0]), cond.ops[1]
            if not (b.is_const and b.is_int and b.sval == 0):
                continue
            nz = (cond.pred == "ne" and outcome is True) or (cond.pred == "eq" and outcome is False) or \
                 (cond.pred in ("ugt", "sgt") and outcome is True) or (cond.pred in ("ule",) and outcome is False)
            if not nz:
                continue
            if a is v:
                return True
            if a.is_inst and v.is_inst and a.op == "load" and v.op == "load" and strip_casts(a.ops[0]) is strip_casts(v.ops[0]):
                return True
        return False

    def nonzero(self, v, bb, depth=0, seen=None):
        seen = seen if seen is not None else set()
        v = _unext(v)
        if id(v) in seen or depth > 12:
            return False
        seen = seen | {id(v)}
        if v.is_const:
            return bool(v.is_int and v.sval != 0)
        if not v.is_inst:
            return v in self.assume
        if self.fact_nonzero(v, bb):
            return True
        if v.op == "select":
            return self.nonzero(v.ops[1], bb, depth + 1, seen) and self.nonzero(v.ops[2], bb, depth + 1, seen)
        if v.op == "phi":
            return all(self.nonzero(val, pred, depth + 1, seen) for val, pred in zip(v.ops, v.x["inc"]))
        if v.op == "load":
            A = strip_casts(v.ops[0])
            if A.is_inst and A.op == "alloca":
                defs = []
                for i in self.f.insts():
                    if i.op == "store" and strip_casts(i.ops[1]) is A:
                        defs.append(("store", i))
                    elif i.op == "call" and any(strip_casts(o) is A for o in i.ops) and not (norm_callee(i.callee) or "").startswith("llvm."):
                        defs.append(("call", i))
                defs = [(k, d) for (k, d) in defs if self.f.inst_dominates(d, v) or self.f.reaches(d.bb, v.bb)]
                if not defs:
                    return False
                for (k, d) in defs:
                    if k == "store":
                        if not self.nonzero(d.ops[0], d.bb, depth + 1, seen):
                            return False
                    else:
                        # defined by a callee through the address: a later load was tested against zero on the way here
                        if not self.fact_nonzero(v, bb):
                            return False
                return True
        return False


def run_progress(chk, prog, rule, unit_filter):
    n = 0
    for f in prog.slot_impls(("struct.sqfs_istream_t", "get_buffered_data")):
        if isinstance(f, ExternFn) or f.decl:
            continue
        f.build()
        if not unit_filter(f.unit.src):
            continue
        chk.analysed(f)
        size = f.params[2]
        want = f.params[3]
        NZ = NonZero(prog, f, assume_params=(want,))
        zero_blocks = [b for (v, b) in ret_sources(f) if strip_casts(v).is_const and strip_casts(v).is_int and strip_casts(v).sval == 0]
        stores = [i for i in f.insts() if i.op == "store" and strip_casts(i.ops[1]) is size]
        deleg = [c for c in f.calls() if slot_call(c) == ("struct.sqfs_istream_t", "get_buffered_data") and
                 any(strip_casts(o) is size for o in c.ops)]
        for s_ in stores:
            # can this store be the last one before a 'return 0'?
            reach = False
            stack, vis = [s_.bb], set()
            while stack and not reach:
                b = stack.pop()
                if b in vis:
                    continue
                vis.add(b)
                if b is not s_.bb and any(i.op == "store" and strip_casts(i.ops[1]) is size for i in b.insts):
                    continue
                if b in zero_blocks or (b.term.op == "ret" and any(z is b for z in zero_blocks)):
                    reach = True
                stack.extend(b.succs)
            if not reach:
                continue
            n += 1
            inst = "%s:size@%d" % (f.name, s_.line)
            v = s_.ops[0]
            # clamping the wrapped stream's answer:  if (*size > diff) *size = diff
            if NZ.nonzero(v, s_.bb):
                chk.ok(rule, inst, s_, "the size reported with 'success' is non-zero on this path (constant, tested, min of such, or the caller's want)")
            else:
                chk.violation(rule, inst, s_, "the stream can report success with zero bytes available without having changed its state: "
                              "splice / read / skip call it again forever")
        if deleg and not stores:
            chk.ok(rule, "%s:delegates" % f.name, deleg[0], "the size is the one reported by the wrapped stream")
    return n
