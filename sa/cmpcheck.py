"""Comparator contracts by exhaustive evaluation over the finite domain of orderings.

A comparator touches its two keys only through comparisons of corresponding parts (l.f ? r.f, strcmp(l.s, r.s), ...).
Each such pair is an *atom* with three possible outcomes (<, =, >).  The function body is evaluated abstractly for every
assignment of outcomes to atoms (3^k, k <= 6): branches on atoms are decided, phis follow the taken edge, the returned
sign is collected.  Decided from that table:

  R1 reflexive       all atoms '='                 -> 0 (equals-functions: true)
  R2 antisymmetric   sign(cmp(l, r)) == -sign(cmp(r, l)) for every assignment (equals-functions: symmetric)
  R3 relevant        every atom changes the result for some assignment (no key part is ignored)
  R4 lexicographic   (only order atoms) the table equals 'sign of the first unequal atom' for some atom order -> total order
  R5 exact           the result is not a difference that can overflow or is truncated (a - b returned as int)
  R6 signedness      one atom is not compared signed in one place and unsigned in another

Nothing is executed; the evaluation is an abstract interpretation of the LLVM IR over {<,=,>}^k.
"""
import itertools

from .ir import strip_casts, norm_callee, ExternFn

CMP_CALLS = {"strcmp": 2, "memcmp": 2, "strncmp": 2, "strcoll": 2, "strcasecmp": 2}
INT_W = {"i1": 1, "i8": 8, "i16": 16, "i32": 32, "i64": 64}


class Undecided(Exception):
    pass


class Comparator:
    def __init__(self, prog, f, li, ri):
        self.prog, self.f = prog, f.build()
        self.L, self.R = f.params[li], f.params[ri]
        self.others = [p for p in f.params if p is not self.L and p is not self.R]
        self._canon = {}
        self.atoms = {}          # name -> dict(kind='order'|'eq', sign=set(), where=inst)
        self.flags = []          # (rule, inst, text)
        self.is_bool = f.ret_type in ("i1", "i8") if hasattr(f, "ret_type") else False

    # ---- canonical expressions
    def canon(self, v, depth=0):
        """-> (sides frozenset of 'L'/'R', text with the key parameter written '$') or raises Undecided"""
        k = id(v)
        if k in self._canon:
            return self._canon[k]
        if depth > 40:
            raise Undecided("expression too deep")
        if v is self.L:
            r = (frozenset("L"), "$")
        elif v is self.R:
            r = (frozenset("R"), "$")
        elif v.is_const:
            r = (frozenset(), str(v))
        elif not v.is_inst:
            r = (frozenset(), "arg%d" % v.idx)
        elif v.op in ("bitcast", "addrspacecast"):
            r = self.canon(v.ops[0], depth + 1)
        elif v.op == "getelementptr":
            s, t = self.canon(v.ops[0], depth + 1)
            parts = []
            for el in v.x["gep"]:
                if el[0] in ("*", "[]"):
                    s2, t2 = self.canon(el[1], depth + 1)
                    s |= s2
                    parts.append("[%s*%s]" % (t2, el[2] if el[0] == "*" else el[3]))
                elif el[0] == "?":
                    raise Undecided("opaque GEP")
                else:
                    parts.append(".%s#%d" % (el[0].split(".")[-1], el[1]))
            r = (s, t + "".join(parts))
        elif v.op == "load":
            s, t = self.canon(v.ops[0], depth + 1)
            r = (s, "*(%s:%s)" % (t, v.ty))
        elif v.op in ("zext", "sext", "trunc", "ptrtoint", "inttoptr"):
            s, t = self.canon(v.ops[0], depth + 1)
            r = (s, "%s(%s)" % (v.op, t))
        elif v.op in ("add", "sub", "mul", "and", "or", "xor", "shl", "lshr", "ashr", "udiv", "sdiv", "urem", "srem"):
            a, b = self.canon(v.ops[0], depth + 1), self.canon(v.ops[1], depth + 1)
            r = (a[0] | b[0], "%s(%s,%s)" % (v.op, a[1], b[1]))
        elif v.op == "call" and norm_callee(v.callee) in ("strlen",):
            a = self.canon(v.ops[0], depth + 1)
            r = (a[0], "strlen(%s)" % a[1])
        else:
            raise Undecided("value %s is outside the comparator fragment" % v)
        self._canon[k] = r
        return r

    def pair(self, a, b):
        """(atom name, orientation) if a and b are the same part of the left and the right key"""
        try:
            sa, ta = self.canon(a)
            sb, tb = self.canon(b)
        except Undecided:
            return None
        if ta != tb:
            # tolerate differing integer casts of the same part
            return None
        if sa == frozenset("L") and sb == frozenset("R"):
            return (ta, 1)
        if sa == frozenset("R") and sb == frozenset("L"):
            return (ta, -1)
        return None

    def discover(self):
        for i in self.f.insts():
            if i.op == "icmp":
                a, b = strip_casts(i.ops[0]), strip_casts(i.ops[1])
                p = self.pair(a, b)
                if p:
                    at = self.atoms.setdefault(p[0], {"kind": "eq", "sign": set(), "where": i})
                    if i.pred not in ("eq", "ne"):
                        at["kind"] = "order"
                        at["sign"].add(i.pred[0])
            elif i.op == "call" and norm_callee(i.callee) in CMP_CALLS:
                p = self.pair(i.ops[0], i.ops[1])
                if p:
                    nm = "%s(%s)" % (norm_callee(i.callee), p[0])
                    self.atoms.setdefault(nm, {"kind": "order", "sign": set(), "where": i})
            elif i.op == "sub":
                a, b = i.ops
                p = self.pair(self._unext(a), self._unext(b))
                if p:
                    at = self.atoms.setdefault(p[0], {"kind": "order", "sign": set(), "where": i})
                    at["kind"] = "order"

    @staticmethod
    def _unext(v):
        while v.is_inst and v.op in ("zext", "sext", "bitcast"):
            v = v.ops[0]
        return v

    # ---- abstract evaluation
    def sign(self, v, env, pred):
        """sign of integer value v under env; None if unknown"""
        if v.is_const:
            if v.is_int:
                return (v.sval > 0) - (v.sval < 0)
            return None
        if not v.is_inst:
            return None
        if v.op in ("sext", "bitcast"):
            return self.sign(v.ops[0], env, pred)
        if v.op == "zext":
            if v.ops[0].ty == "i1":
                b = self.boolean(v.ops[0], env, pred)
                return None if b is None else int(b)
            return self.sign(v.ops[0], env, pred)
        if v.op == "trunc":
            inner = v.ops[0]
            if inner.is_inst and inner.op == "sub" and INT_W.get(inner.ty, 0) > INT_W.get(v.ty, 0):
                self.flags.append(("R5", v, "the result is a %s difference truncated to %s: once the two values differ by 2^%d or more "
                                   "the sign is wrong or the values compare equal" % (inner.ty, v.ty, INT_W[v.ty] - 1)))
            return self.sign(inner, env, pred)
        if v.op == "call" and norm_callee(v.callee) in CMP_CALLS:
            p = self.pair(v.ops[0], v.ops[1])
            if p:
                return env["%s(%s)" % (norm_callee(v.callee), p[0])] * p[1]
            return None
        if v.op == "sub":
            a, b = v.ops
            if a.is_const and a.is_int and a.sval == 0:
                s = self.sign(b, env, pred)
                return None if s is None else -s
            ua, ub = self._unext(a), self._unext(b)
            p = self.pair(ua, ub)
            if p:
                wa = INT_W.get(ua.ty, 64)
                if wa >= INT_W.get(v.ty, 64):
                    self.flags.append(("R5", v, "the result is the difference of two %s values computed in %s: it overflows / wraps for "
                                       "values far apart, so the sign does not follow the order" % (ua.ty, v.ty)))
                return env[p[0]] * p[1]
            return None
        if v.op == "select":
            c = self.boolean(v.ops[0], env, pred)
            if c is None:
                a, b = self.sign(v.ops[1], env, pred), self.sign(v.ops[2], env, pred)
                return a if a == b else None
            return self.sign(v.ops[1] if c else v.ops[2], env, pred)
        if v.op == "phi":
            vals = [val for val, p in zip(v.ops, v.x["inc"]) if p is pred.get(v.bb)]
            if len(vals) == 1:
                return self.sign(vals[0], env, pred)
            return None
        return None

    def boolean(self, c, env, pred):
        if c.is_const and c.is_int:
            return c.sval != 0
        if not c.is_inst:
            return None
        if c.op == "icmp":
            a, b = strip_casts(c.ops[0]), strip_casts(c.ops[1])
            p = self.pair(a, b)
            rel = None
            if p:
                rel = env[p[0]] * p[1]
            elif b.is_const and (b.is_null or (b.is_int and b.sval == 0)):
                rel = self.sign(a, env, pred)
            elif a.is_const and a.is_int and a.sval == 0:
                s = self.sign(b, env, pred)
                rel = None if s is None else -s
            if rel is None:
                return None
            pr = c.pred
            if pr == "eq":
                return rel == 0
            if pr == "ne":
                return rel != 0
            if pr in ("ult", "slt"):
                return rel < 0
            if pr in ("ule", "sle"):
                return rel <= 0
            if pr in ("ugt", "sgt"):
                return rel > 0
            if pr in ("uge", "sge"):
                return rel >= 0
            return None
        if c.op in ("and", "or", "xor") and c.ty == "i1":
            a, b = self.boolean(c.ops[0], env, pred), self.boolean(c.ops[1], env, pred)
            if c.op == "and":
                if a is False or b is False:
                    return False
                return True if (a and b) else None
            if c.op == "or":
                if a is True or b is True:
                    return True
                return False if (a is False and b is False) else None
            return None if a is None or b is None else (a != b)
        if c.op == "phi":
            vals = [val for val, p in zip(c.ops, c.x["inc"]) if p is pred.get(c.bb)]
            if len(vals) == 1:
                return self.boolean(vals[0], env, pred)
            return None
        if c.op in ("trunc", "zext") and c.ops[0].ty in ("i1", "i8"):
            return self.boolean(c.ops[0], env, pred)
        return None

    def run(self, env):
        """set of result signs (or True/False for equals-functions) for one assignment"""
        out = set()
        budget = [4000]

        def go(b, pred, seen):
            budget[0] -= 1
            if budget[0] < 0:
                raise Undecided("evaluation budget exhausted")
            if (b, pred.get(b)) in seen:
                raise Undecided("loop in comparator")
            seen = seen | {(b, pred.get(b))}
            t = b.term
            if t.op == "ret":
                if not t.ops:
                    raise Undecided("void")
                v = t.ops[0]
                if v.ty == "i1" or self.is_bool:
                    r = self.boolean(v, env, pred)
                    if r is None:
                        s = self.sign(v, env, pred)
                        r = None if s is None else (s != 0)
                else:
                    r = self.sign(v, env, pred)
                out.add(r)
                return
            if t.op == "br" and len(t.x["succ"]) == 2:
                c = self.boolean(t.ops[0], env, pred)
                succs = t.x["succ"] if c is None else [t.x["succ"][0] if c else t.x["succ"][1]]
            elif t.op == "br":
                succs = t.x["succ"]
            elif t.op == "unreachable":
                return
            else:
                raise Undecided("terminator %s" % t.op)
            for s in succs:
                p2 = dict(pred)
                p2[s] = b
                go(s, p2, seen)

        go(self.f.blocks[0], {}, frozenset())
        return out


def neg(env):
    return {k: -v for k, v in env.items()}


def check_comparator(chk, prog, f, li, ri, rule, equals=False, want_total=True, lookup=True):
    """evaluate one comparator; emits ok/violation/note on chk.  returns True if decided"""
    C = Comparator(prog, f, li, ri)
    C.is_bool = equals
    chk.analysed(f)
    try:
        C.discover()
        names = sorted(C.atoms)
        if not names:
            raise Undecided("no pair of corresponding key parts is compared")
        if len(names) > 6:
            raise Undecided("more than 6 atoms")
        table = {}
        for vals in itertools.product((-1, 0, 1), repeat=len(names)):
            env = dict(zip(names, vals))
            table[vals] = C.run(env)
    except Undecided as e:
        chk.note("%s %s: not decided (%s)" % (rule, f.name, e))
        return False
    inst = f.name
    if hasattr(chk, "atoms"):
        chk.atoms = names
    desc = "atoms: " + ", ".join("%s[%s]" % (n, C.atoms[n]["kind"]) for n in names)
    bad = []
    # R5/R6 flags
    seenflag = set()
    for (r, i, text) in C.flags:
        if (r, id(i)) not in seenflag:
            seenflag.add((r, id(i)))
            bad.append((i, r + ": " + text))
    for n in names:
        if len(C.atoms[n]["sign"] & {"u", "s"}) > 1:
            bad.append((C.atoms[n]["where"], "R6: %s is compared signed in one place and unsigned in another" % n))
    undec = [v for v, s in table.items() if None in s or len(s) != 1]
    if undec:
        chk.note("%s %s: %d of %d assignments not evaluated to a single result" % (rule, f.name, len(undec), len(table)))
    single = {v: next(iter(s)) for v, s in table.items() if len(s) == 1 and None not in s}
    zero = tuple(0 for _ in names)
    if zero in single:
        r0 = single[zero]
        if (equals and r0 is not True) or (not equals and r0 != 0):
            if lookup:
                bad.append((f, "R1: equal keys do not compare equal (all parts equal gives %s)" % r0))
            else:
                # a sort comparator that never answers 'equal' (unique tie-break key): legitimate for sorting
                chk.note("%s %s: never answers 'equal' (all parts equal gives %s): fine for sorting distinct elements" % (rule, f.name, r0))
    for v, r in single.items():
        nv = tuple(-x for x in v)
        if not lookup and nv == v:
            continue
        if nv in single:
            rr = single[nv]
            if (equals and rr != r) or (not equals and rr != -r):
                bad.append((f, "R2: not %s: with %s it returns %s but with the arguments swapped %s" % (
                    "symmetric" if equals else "antisymmetric", _fmt(names, v), r, rr)))
                break
    for k, n in enumerate(names):
        rel = False
        for v, r in single.items():
            for alt in (-1, 0, 1):
                if alt == v[k]:
                    continue
                w = v[:k] + (alt,) + v[k + 1:]
                if w in single and single[w] != r:
                    rel = True
                    break
            if rel:
                break
        if not rel and len(single) == len(table):
            bad.append((C.atoms[n]["where"], "R3: %s is read but never influences the result: keys that differ only there are merged" % n))
    total = None
    if not equals and want_total and all(C.atoms[n]["kind"] == "order" for n in names) and len(single) == len(table):
        total = False
        for perm in itertools.permutations(range(len(names))):
            for dirs in itertools.product((1, -1), repeat=len(names)):
                okp = True
                for v, r in single.items():
                    exp = 0
                    for k in perm:
                        if v[k] != 0:
                            exp = v[k] * dirs[k]
                            break
                    if exp != r:
                        okp = False
                        break
                if okp:
                    total = True
                    break
            if total:
                break
        if not total and not bad:
            bad.append((f, "R4: the result table matches no lexicographic order of the compared parts: not a total order"))
    if bad:
        for (i, text) in bad[:3]:
            chk.violation(rule, inst, i, text + " (" + desc + ")")
        return True
    chk.ok(rule, inst, f, "%d assignments evaluated: reflexive, %s, every part relevant%s; %s" % (
        len(table), "symmetric" if equals else "antisymmetric", ", lexicographic total order" if total else "", desc))
    return True


def _fmt(names, v):
    return "{" + ", ".join("%s%s" % (n, "<=>"[x + 1]) for n, x in zip(names, v)) + "}"


def registered_comparators(prog):
    """[(function, left index, right index, equals?)] handed to qsort / rbtree_init / hash_table_create / array_sort_range"""
    out = {}
    for f in prog.functions():
        for c in f.calls():
            nm = norm_callee(c.callee)
            if nm in ("qsort", "rbtree_init", "hash_table_create", "array_sort_range", "bsearch"):
                for a in c.ops:
                    for t in prog.fn_targets(a, f.unit):
                        if isinstance(t, ExternFn):
                            continue
                        np = len(t.params)
                        if np == 2:
                            out[t.qname] = (t, 0, 1, False)
                        elif np == 3:
                            out[t.qname] = (t, 1, 2, nm == "hash_table_create")
    return [out[k] for k in sorted(out)]


def shaped_comparators(prog, units_prefix=("lib/", "bin/")):
    """functions with the shape of a comparator that are called directly: int f(const T *a, const T *b), pure"""
    out = []
    for f in prog.functions():
        if f.decl or not f.unit.src.startswith(units_prefix) or "/test/" in f.unit.src:
            continue
        ps = f.params
        if len(ps) != 2 or ps[0].ty != ps[1].ty or not ps[0].ty.endswith("*"):
            continue
        if f.ret not in ("i32", "i64", "i1"):
            continue
        f.build()
        pure = True
        for i in f.insts():
            if i.op == "store":
                pure = False
            elif i.op == "call":
                nm = norm_callee(i.callee) or ""
                if not (nm in CMP_CALLS or nm == "strlen" or nm.startswith("llvm.dbg") or nm.startswith("llvm.lifetime")):
                    pure = False
        if pure:
            out.append(f)
    return out
