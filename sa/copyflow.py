"""K8 engine: slot-state dataflow for object copy hooks (and the container
copy helpers they call) paired with release summaries of the destroy hooks.

Slot states (a set per leaf slot of the object):
  U  uninitialised (fresh malloc, no bit copy)
  N  null / zero
  B  bit-copied from the original: the slot aliases what the original owns
  F  fresh: explicitly stored (allocator / *_copy / grab / constant / own address)
  K  "keep": inside a helper, whatever the caller's state was
  X  exempt: bit-copied, but the destroy sibling releases the slot only under a
     predicate over an immutable field that is known false on this path
"""
from collections import defaultdict

from .ir import strip_casts, norm_callee, ExternFn
from .util import resolve_ptr, flatten, struct_of_type, is_ptr, is_fnptr, const_int

U, N, B, F, K, X = "U", "N", "B", "F", "K", "X"

RELEASE_EXT = {"free", "deflateEnd", "inflateEnd", "lzma_end", "ZSTD_freeCCtx", "ZSTD_freeDCtx",
               "ZSTD_freeCStream", "ZSTD_freeDStream", "LZ4_freeStream", "LZ4_freeStreamHC",
               "LZ4_freeStreamDecode", "close", "fclose", "closedir", "BZ2_bzCompressEnd",
               "BZ2_bzDecompressEnd", "pthread_mutex_destroy", "pthread_cond_destroy", "munmap"}
RELEASE_BY_NAME = {"sqfs_drop"}          # header-inline API of predef.h
ACQUIRE_BY_NAME = {"sqfs_grab", "sqfs_copy"}
ALLOCATORS = {"malloc", "calloc", "realloc", "alloc_flex", "alloc_array", "strdup", "strndup"}
PURE_EXT = {"strlen", "strcmp", "strncmp", "memcmp", "strchr", "strrchr", "strstr", "memchr",
            "__errno_location", "strnlen", "dup", "fstat", "fstat64", "lseek", "lseek64"}
# externals that write through given argument positions
EXT_WRITES = {"memcpy": (0,), "memmove": (0,), "memset": (0,), "strcpy": (0,), "strncpy": (0,),
              "strcat": (0,), "read": (1,), "pread": (1,), "pread64": (1,), "sprintf": (0,), "snprintf": (0,)}


class Summaries:
    """small interprocedural facts, memoised"""

    def __init__(self, prog):
        self.prog = prog
        self._consumes = {}
        self._writes = {}
        self.assumed_readonly_ext = set()

    def _param_derived(self, fn, v, idx, _seen=None):
        base, off, exact = resolve_ptr(self.prog, v, fn.unit)
        if base.is_arg and base.idx == idx:
            return off, exact
        if base.is_inst and base.op == "phi":
            _seen = _seen if _seen is not None else set()
            if id(base) in _seen:
                return None
            _seen.add(id(base))
            for o in base.ops:
                if not (o.is_const and o.is_null):
                    r = self._param_derived(fn, o, idx, _seen)
                    if r is not None:
                        return (r[0] + off, r[1] and exact)
        return None

    def consumes(self, fn, idx, depth=0):
        """does fn release (free/drop) its parameter idx itself?"""
        key = (fn, idx)
        if key in self._consumes:
            return self._consumes[key]
        self._consumes[key] = False
        res = False
        if depth <= 4:
            for c in fn.calls():
                name = norm_callee(c.callee)
                for ai, a in enumerate(c.ops):
                    pd = self._param_derived(fn, a, idx)
                    if pd is None or pd[0] != 0:
                        continue
                    if name in RELEASE_EXT or name in RELEASE_BY_NAME:
                        res = True
                    elif name:
                        g = self.prog.fn(name, fn.unit)
                        if g is not None and not g.decl and self.consumes(g.build(), ai, depth + 1):
                            res = True
        self._consumes[key] = res
        return res

    def writes_through(self, fn, idx, depth=0):
        """may fn store through a pointer derived (casts/GEPs) from parameter idx?"""
        key = (fn, idx)
        if key in self._writes:
            return self._writes[key]
        self._writes[key] = False
        res = False
        for i in fn.insts():
            if i.op == "store":
                if self._param_derived(fn, i.ops[1], idx) is not None:
                    res = True
                    break
            elif i.op == "call":
                name = norm_callee(i.callee)
                for ai, a in enumerate(i.ops):
                    if self._param_derived(fn, a, idx) is None:
                        continue
                    if name in EXT_WRITES:
                        if ai in EXT_WRITES[name]:
                            res = True
                    elif name in RELEASE_EXT or name in RELEASE_BY_NAME:
                        res = True
                    elif name in ACQUIRE_BY_NAME or name in PURE_EXT:
                        pass
                    elif name:
                        g = self.prog.fn(name, fn.unit)
                        if g is not None and not g.decl:
                            if depth < 4 and self.writes_through(g.build(), ai, depth + 1):
                                res = True
                        else:
                            self.assumed_readonly_ext.add(name)
                    else:
                        ts, ok = self.prog.call_targets(i)
                        for g in ts:
                            if not isinstance(g, ExternFn) and depth < 4 and self.writes_through(g.build(), ai, depth + 1):
                                res = True
                if res:
                    break
        self._writes[key] = res
        return res


class State:
    __slots__ = ("slots", "facts", "dead")

    def __init__(self, slots=None, facts=frozenset(), dead=False):
        self.slots = slots if slots is not None else {}
        self.facts = facts
        self.dead = dead

    def copy(self):
        return State(dict(self.slots), self.facts, self.dead)

    def join(self, o):
        """returns True if self changed"""
        if o.dead:
            return False
        if self.dead:
            self.slots, self.facts, self.dead = dict(o.slots), o.facts, False
            return True
        ch = False
        for k, v in o.slots.items():
            cur = self.slots.get(k, frozenset())
            nv = cur | v
            if nv != cur:
                self.slots[k] = nv
                ch = True
        nf = self.facts & o.facts
        if nf != self.facts:
            self.facts = nf
            ch = True
        return ch


class Event:
    def __init__(self, kind, off, site, detail, guards=frozenset(), member=None):
        self.kind, self.off, self.site, self.detail, self.guards = kind, off, site, detail, guards
        self.member = member      # (lo, hi) of the embedded member whose address was passed, if any

    def __repr__(self):
        return "<%s off=%s %s %s>" % (self.kind, self.off, self.site, self.detail)


class Flow:
    """dataflow over one function.
    obj_roots: SSA values denoting the object under construction (offset 0)
    orig: the Arg holding the original (or None)
    leaves: [(off, size, type, name)] of the object type
    init: initial state set for every leaf (e.g. {U}, {N}, {K})
    cond_release: {off: frozenset(preds)} slots the destroy sibling releases only under preds
    """

    def __init__(self, eng, fn, obj_roots, orig, leaves, init, cond_release=None, depth=0):
        self.eng, self.prog, self.fn = eng, eng.prog, fn.build()
        self.roots = set(obj_roots)
        self.orig = orig
        self.leaves = sorted(leaves)
        self.leaf_offs = [l[0] for l in self.leaves]
        self.init = frozenset(init)
        self.cond_release = cond_release or {}
        self.depth = depth
        self.val_state = defaultdict(frozenset)   # load inst -> state set at the time of loading
        self.events = {}
        self.in_states = {}
        self.out_states = {}
        self.obj_size = max([l[0] + l[1] for l in self.leaves], default=0)

    # ---- leaves
    def leaf_at(self, off):
        best = None
        for (o, sz, t, n) in self.leaves:
            if o <= off < o + max(sz, 1):
                best = o
        return best

    def leaves_in(self, lo, hi):
        return [o for (o, sz, t, n) in self.leaves if o >= lo and o < hi]

    def leaf_name(self, off):
        for (o, sz, t, n) in self.leaves:
            if o == off:
                return n
        return "+%d" % off

    # ---- pointer classification
    def obj_off(self, v):
        base, off, exact = resolve_ptr(self.prog, v, self.fn.unit)
        if self._is_root(base):
            return off, exact
        return None

    def _is_root(self, base, _seen=None):
        if base in self.roots:
            return True
        if base.is_inst and base.op == "phi":
            _seen = _seen or set()
            if id(base) in _seen:
                return False
            _seen.add(id(base))
            nn = [o for o in base.ops if not (o.is_const and o.is_null)]
            return bool(nn) and all(self._is_root(resolve_ptr(self.prog, o, self.fn.unit)[0], _seen) and
                                    resolve_ptr(self.prog, o, self.fn.unit)[1] == 0 for o in nn)
        return False

    def orig_off(self, v):
        if self.orig is None:
            return None
        base, off, exact = resolve_ptr(self.prog, v, self.fn.unit)
        if base is self.orig:
            return off, exact
        return None

    def alias(self, v, state, _seen=None):
        """state set describing whose memory the pointer value v denotes"""
        if _seen is None:
            _seen = set()
        if id(v) in _seen:
            return frozenset()
        _seen.add(id(v))
        if v.is_const:
            return frozenset([N]) if v.is_null else frozenset([F])
        if v.is_arg:
            if v is self.orig:
                return frozenset([B])
            return frozenset([F])
        if self.obj_off(v) is not None:
            return frozenset([F])
        if self.orig_off(v) is not None:
            return frozenset([B])
        op = v.op
        if op == "load":
            p = v.ops[0]
            oo = self.obj_off(p)
            if oo is not None:
                return self.val_state.get(v, frozenset())
            if self.orig_off(p) is not None:
                return frozenset([B])
            a = self.alias(p, state, _seen)
            r = set()
            if B in a:
                r.add(B)
            if K in a:
                r.add(K)
            if not r:
                r.add(F)
            return frozenset(r)
        if op in ("bitcast", "getelementptr", "addrspacecast", "inttoptr", "ptrtoint"):
            return self.alias(v.ops[0], state, _seen)
        if op == "phi":
            r = frozenset()
            for o in v.ops:
                r |= self.alias(o, state, _seen)
            return r
        if op == "select":
            return self.alias(v.ops[1], state, _seen) | self.alias(v.ops[2], state, _seen)
        return frozenset([F])

    # ---- events
    def ev(self, kind, off, site, detail, guards=frozenset(), member=None):
        key = (kind, off, site.id if hasattr(site, "id") else id(site))
        if key not in self.events:
            self.events[key] = Event(kind, off, site, detail, guards, member)

    def site_guards(self, inst):
        """flag predicates over object slots that dominate inst"""
        out = set()
        for cond, outcome, br in self.fn.guards_at(inst.bb):
            if outcome not in (True, False):
                continue
            p = self.flag_pred(cond)
            if p is not None:
                off, mask, pos = p
                out.add((off, mask, pos == outcome))
        return frozenset(out)

    def flag_pred(self, cond):
        """cond is i1: returns (slot off, mask|None, polarity: cond true <=> field&mask != 0)"""
        pol = True
        v = cond
        for _ in range(4):
            if v.is_inst and v.op == "icmp" and v.pred in ("eq", "ne"):
                a, b = v.ops
                if b.is_const and b.is_int and b.sval == 0:
                    if v.pred == "eq":
                        pol = not pol
                    v = a
                    continue
                return None
            if v.is_inst and v.op in ("zext", "trunc", "sext"):
                v = v.ops[0]
                continue
            break
        mask = None
        if v.is_inst and v.op == "and":
            a, b = v.ops
            if b.is_const and b.is_int:
                mask, v = b.uval, a
            elif a.is_const and a.is_int:
                mask, v = a.uval, b
            else:
                return None
        while v.is_inst and v.op in ("zext", "trunc", "sext"):
            v = v.ops[0]
        if v.is_inst and v.op == "load":
            p = v.ops[0]
            oo = self.obj_off(p)
            if oo is None:
                oo = self.orig_off(p)
                if oo is None:
                    return None
            if not oo[1]:
                return None
            lf = self.leaf_at(oo[0])
            if lf is None:
                return None
            t = [l for l in self.leaves if l[0] == lf][0][2]
            if is_ptr(t):
                return None
            return (lf, mask, pol)
        return None

    # ---- transfer
    def classify_store_value(self, v, st):
        if v.is_const:
            if v.is_null or (v.k == "z"):
                return frozenset([N])
            return frozenset([F])
        if v.is_inst and v.op == "call":
            return frozenset([F])
        a = self.alias(v, st)
        return a if a else frozenset([F])

    def set_slot(self, st, off, val, strong=True):
        if off is None:
            return
        if strong:
            st.slots[off] = val
        else:
            st.slots[off] = st.slots.get(off, self.init) | val

    def get_slot(self, st, off):
        return st.slots.get(off, self.init)

    def set_range(self, st, lo, hi, val, src_same_off_alias=False):
        for o in self.leaves_in(lo, hi):
            st.slots[o] = val

    def transfer(self, b, st):
        st = st.copy()
        for i in b.insts:
            if st.dead:
                break
            op = i.op
            if op == "load":
                oo = self.obj_off(i.ops[0])
                if oo is not None:
                    lf = self.leaf_at(oo[0])
                    cur = self.get_slot(st, lf) if lf is not None else frozenset([F])
                    self.val_state[i] = self.val_state.get(i, frozenset()) | cur
            elif op == "store":
                val, ptr = i.ops
                oo = self.obj_off(ptr)
                if oo is not None:
                    lf = self.leaf_at(oo[0])
                    self.set_slot(st, lf, self.classify_store_value(val, st), strong=oo[1])
                elif self.orig_off(ptr) is not None:
                    self.ev("write-orig", self.orig_off(ptr)[0], i,
                            "stores into the original object")
                else:
                    base = resolve_ptr(self.prog, ptr, self.fn.unit)[0]
                    if not (base.is_inst and base.op == "alloca"):
                        a = self.alias(base, st)
                        if B in a:
                            self.ev("write-through", self._slot_of_value(base), i,
                                    "stores through a pointer bit-copied from the original (%s)" %
                                    self._describe(base))
                        if K in a:
                            self.ev("write-through-K", self._slot_of_value(base), i, "stores through caller-state pointer")
            elif op == "call":
                self.do_call(i, st)
        return st

    def _slot_of_value(self, v, _d=0):
        """best effort: object slot offset a pointer value was loaded from"""
        v = strip_casts(v)
        if _d > 6:
            return None
        if v.is_inst and v.op == "load":
            oo = self.obj_off(v.ops[0])
            if oo is not None:
                return self.leaf_at(oo[0])
            return self._slot_of_value(v.ops[0], _d + 1)
        if v.is_inst and v.op in ("getelementptr", "bitcast"):
            return self._slot_of_value(v.ops[0], _d + 1)
        if v.is_inst and v.op == "phi":
            for o in v.ops:
                r = self._slot_of_value(o, _d + 1)
                if r is not None:
                    return r
        return None

    def _describe(self, v):
        s = self._slot_of_value(v)
        if s is not None:
            return "field " + self.leaf_name(s)
        return "value derived from the original"

    def do_call(self, i, st):
        name = norm_callee(i.callee)
        args = i.ops
        if name in ("memcpy", "memmove") and len(args) >= 3:
            dst, src, n = args[0], args[1], const_int(args[2])
            oo = self.obj_off(dst)
            if oo is not None:
                so = self.orig_off(src)
                hi = oo[0] + n if n is not None else self.obj_size + (1 << 30)
                if so is not None and so[0] == oo[0]:
                    self.set_range(st, oo[0], hi, frozenset([B]))
                else:
                    self.set_range(st, oo[0], hi, frozenset([F]))
            elif self.orig_off(dst) is not None:
                self.ev("write-orig", self.orig_off(dst)[0], i, "memcpy into the original object")
            else:
                base = resolve_ptr(self.prog, dst, self.fn.unit)[0]
                a = self.alias(base, st)
                if B in a:
                    self.ev("write-through", self._slot_of_value(base), i,
                            "memcpy destination is a pointer bit-copied from the original (%s)" % self._describe(base))
                if K in a:
                    self.ev("write-through-K", self._slot_of_value(base), i, "memcpy through caller-state pointer")
            return
        if name == "memset" and len(args) >= 3:
            oo = self.obj_off(args[0])
            n = const_int(args[2])
            c = const_int(args[1])
            if oo is not None:
                hi = oo[0] + n if n is not None else self.obj_size + (1 << 30)
                self.set_range(st, oo[0], hi, frozenset([N]) if c == 0 else frozenset([F]))
            elif self.orig_off(args[0]) is not None:
                self.ev("write-orig", self.orig_off(args[0])[0], i, "memset on the original object")
            return
        if name in ACQUIRE_BY_NAME:
            return
        callee = None
        if name:
            g = self.prog.fn(name, self.fn.unit)
            if g is not None and not g.decl:
                callee = g.build()
        is_release = name in RELEASE_EXT or name in RELEASE_BY_NAME
        for ai, a in enumerate(args):
            if not a.is_const and not is_ptr(getattr(a, "ty", "")) and not (is_release and ai == 0):
                continue
            if a.is_const:
                continue
            rel = is_release or (callee is not None and self.eng.summ.consumes(callee, ai))
            oo = self.obj_off(a)
            if oo is not None:
                if oo[0] == 0 and rel:
                    # the object itself is released (error path): whatever the callee releases of its
                    # slots (e.g. the destroy hook run on a half-built copy) is judged against the
                    # current slot states first; nothing of the object is returned afterwards
                    if callee is not None:
                        self.call_with_obj_ptr(i, st, callee, name, ai, oo, False)
                    st.dead = True
                    return
                self.call_with_obj_ptr(i, st, callee, name, ai, oo, rel)
                continue
            if rel:
                al = self.alias(a, st)
                slot = self._slot_of_value(a)
                if B in al:
                    self.ev("release-alias", slot, i,
                            "releases a value bit-copied from the original (%s) before it was re-acquired" %
                            self._describe(a), self.site_guards(i))
                if K in al:
                    self.ev("release-K", slot, i, "releases caller-state slot", self.site_guards(i))
                if X in al and slot is not None:
                    pass
                continue
            # non-releasing callee receiving a pointer into the original's heap
            oro = self.orig_off(a)
            al = self.alias(a, st) if oro is None else frozenset([B])
            if B in al or K in al:
                writes = False
                if callee is not None:
                    writes = self.eng.summ.writes_through(callee, ai)
                elif name in EXT_WRITES:
                    writes = ai in EXT_WRITES[name]
                elif name is None:
                    ts, ok = self.prog.call_targets(i)
                    for g in ts:
                        if not isinstance(g, ExternFn) and self.eng.summ.writes_through(g.build(), ai):
                            writes = True
                elif name not in PURE_EXT:
                    self.eng.summ.assumed_readonly_ext.add(name)
                if writes:
                    if oro is not None:
                        self.ev("write-orig", oro[0], i, "passes the original to %s which writes through it" % name)
                    elif B in al:
                        self.ev("write-through", self._slot_of_value(a), i,
                                "passes a pointer bit-copied from the original (%s) to %s which writes through it" %
                                (self._describe(a), name))
                    else:
                        self.ev("write-through-K", self._slot_of_value(a), i, "callee writes through caller-state pointer")

    def call_with_obj_ptr(self, i, st, callee, name, ai, oo, rel):
        off, exact = oo
        a = i.ops[ai]
        pt = a.ty[:-1] if a.ty.endswith("*") else ""
        sname = struct_of_type(pt)
        if rel and callee is None:
            # external release of an embedded member (deflateEnd(&strm))
            lo = off
            hi = off + (self.prog.struct(sname, self.fn.unit) or {"size": 1})["size"] if sname else off + 1
            for o in self.leaves_in(lo, hi) or [self.leaf_at(off)]:
                cur = self.get_slot(st, o)
                if K in cur:
                    self.ev("release-K", o, i, "releases embedded member", self.site_guards(i))
                if B in cur and is_ptr(self._leaf_type(o)) and not is_fnptr(self._leaf_type(o)):
                    self.ev("release-alias", o, i, "releases embedded member still holding the original's pointers",
                            self.site_guards(i))
            return
        if callee is None or self.depth >= 4:
            # unknown callee gets the address: assume it initialises the pointee
            if name in PURE_EXT:
                return
            if sname and self.prog.struct(sname, self.fn.unit):
                size = self.prog.struct(sname, self.fn.unit)["size"]
                self.set_range(st, off, off + size, frozenset([F]))
            else:
                lf = self.leaf_at(off)
                self.set_slot(st, lf, frozenset([F]), strong=exact)
            return
        # project callee: find a source argument denoting the same member of the original
        src_idx = None
        for aj, b in enumerate(i.ops):
            if aj == ai or b.is_const:
                continue
            so = self.orig_off(b)
            if so is not None and so[0] == off:
                src_idx = aj
        summ = self.eng.helper_summary(callee, ai, src_idx, self.depth + 1)
        g = self.site_guards(i)
        for e in summ["events"]:
            aoff = (e.off + off) if e.off is not None else None
            lf = self.leaf_at(aoff) if aoff is not None else None
            cur = self.get_slot(st, lf) if lf is not None else frozenset()
            if e.kind == "release-K":
                if B in cur:
                    self.ev("release-alias", lf, i,
                            "%s releases %s, which is still bit-copied from the original" % (name, self.leaf_name(lf)), g)
                if K in cur:
                    msz = (self.prog.struct(sname, self.fn.unit) or {"size": 0})["size"] if sname else 0
                    self.ev("release-K", lf, i, "via %s" % name, g, (off, off + msz) if msz else None)
            elif e.kind == "write-through-K":
                if B in cur:
                    self.ev("write-through", lf, i,
                            "%s writes through %s, which is still bit-copied from the original" % (name, self.leaf_name(lf)))
                if K in cur:
                    self.ev("write-through-K", lf, i, "via %s" % name)
            elif e.kind in ("write-orig",):
                self.ev("write-orig", e.off, i, "%s: %s" % (name, e.detail))
            elif e.kind in ("write-through", "release-alias"):
                self.ev(e.kind, lf, i, "in %s: %s" % (name, e.detail))
        for roff, val in summ["final"].items():
            lf = self.leaf_at(off + roff)
            if lf is None:
                continue
            if val == frozenset([K]):
                continue
            cur = self.get_slot(st, lf)
            nv = set()
            for s in val:
                if s == K:
                    nv |= cur
                else:
                    nv.add(s)
            st.slots[lf] = frozenset(nv)

    def _leaf_type(self, off):
        for (o, sz, t, n) in self.leaves:
            if o == off:
                return t
        return ""

    # ---- edges
    def refine(self, b, succ, st):
        """state on the edge b->succ"""
        t = b.term
        if st.dead or t.op != "br" or len(t.x["succ"]) != 2 or t.x["succ"][0] is t.x["succ"][1]:
            return st
        truth = succ is t.x["succ"][0]
        cond = t.ops[0]
        st2 = None
        # null tests
        v, pol = cond, True      # pol: cond true <=> value non-null/non-zero
        ok = False
        for _ in range(3):
            if v.is_inst and v.op == "icmp" and v.pred in ("eq", "ne"):
                a, c = v.ops
                if c.is_const and c.is_null:
                    if v.pred == "eq":
                        pol = not pol
                    v = a
                    ok = True
                    continue
                if a.is_const and a.is_null:
                    if v.pred == "eq":
                        pol = not pol
                    v = c
                    ok = True
                    continue
            break
        if ok:
            nonnull = (truth == pol)
            vb = strip_casts(v)
            base = resolve_ptr(self.prog, vb, self.fn.unit)
            if self._is_root(base[0]) and base[1] == 0:
                if not nonnull:
                    return State(dead=True)
                return st
            if vb.is_inst and vb.op == "load" and is_ptr(vb.ty):
                oo = self.obj_off(vb.ops[0])
                fresh = vb.bb is b and not any(x.op in ("store", "call") for x in b.insts[vb.pos + 1:])
                if oo is not None and oo[1] and fresh:
                    lf = self.leaf_at(oo[0])
                    cur = self.get_slot(st, lf)
                    st2 = st.copy()
                    if nonnull:
                        nv = cur - {N}
                        if not nv and cur:
                            return State(dead=True)
                        st2.slots[lf] = nv
                    else:
                        st2.slots[lf] = frozenset([N]) if not (cur <= {K}) else frozenset([N])
                    return st2
                so = self.orig_off(vb.ops[0])
                if so is not None and so[1] and not nonnull:
                    lf = self.leaf_at(so[0])
                    cur = self.get_slot(st, lf)
                    if B in cur:
                        st2 = st.copy()
                        st2.slots[lf] = (cur - {B}) | {N}
                        return st2
        p = self.flag_pred(cond)
        if p is not None:
            off, mask, pos = p
            holds = (pos == truth)     # field&mask != 0 on this edge?
            st2 = st.copy()
            st2.facts = st.facts | {(off, mask, holds)}
            for so, preds in self.cond_release.items():
                for (poff, pmask, ppos) in preds:
                    if (poff, pmask) == (off, mask):
                        cur = self.get_slot(st2, so)
                        if ppos != holds:
                            # destroy will not release this slot on such objects
                            if B in cur:
                                st2.slots[so] = (cur - {B}) | {X}
                        else:
                            if X in cur:
                                nv = cur - {X}
                                if not nv:
                                    return State(dead=True)
                                st2.slots[so] = nv
            return st2
        return st

    def run(self):
        fn = self.fn
        entry = fn.blocks[0]
        self.in_states = {entry: State()}
        work = [entry]
        order = {b: k for k, b in enumerate(fn.blocks)}
        iters = 0
        while work and iters < 5000:
            iters += 1
            work.sort(key=lambda b: order[b])
            b = work.pop(0)
            st = self.in_states.get(b)
            if st is None:
                continue
            out = self.transfer(b, st)
            self.out_states[b] = out
            for s in b.succs:
                e = self.refine(b, s, out)
                if e.dead:
                    continue
                cur = self.in_states.get(s)
                if cur is None:
                    self.in_states[s] = e.copy()
                    if s not in work:
                        work.append(s)
                elif cur.join(e):
                    if s not in work:
                        work.append(s)
        return self

    def success_states(self, mode):
        """states at success returns.  mode 'ptr': returns the object (non-null);
        'int': returns 0 / non-constant; 'void'"""
        res = []
        for r in self.fn.rets():
            if r.bb not in self.in_states:
                continue
            v = r.ops[0] if r.ops else None

            def is_fail(c, at=None):
                if c is None:
                    return False
                if not c.is_const:
                    if mode == "int" and at is not None:
                        # reached only where the returned value is known non-zero
                        for cond, outcome, br in self.fn.guards_at(at):
                            if cond.is_inst and cond.op == "icmp" and cond.pred in ("ne", "eq") and \
                                    cond.ops[0] is c and cond.ops[1].is_const and cond.ops[1].is_int and \
                                    cond.ops[1].sval == 0 and outcome == (cond.pred == "ne"):
                                return True
                    return False
                if mode == "ptr":
                    return c.is_null
                if mode == "int":
                    return c.is_int and c.sval != 0
                return False
            if v is not None and v.is_inst and v.op == "phi" and v.bb is r.bb:
                for val, pred in zip(v.ops, v.x["inc"]):
                    if is_fail(val, pred) or pred not in self.out_states:
                        continue
                    if mode == "ptr":
                        bs = resolve_ptr(self.prog, val, self.fn.unit)
                        if not self._is_root(bs[0]):
                            continue
                    e = self.refine(pred, r.bb, self.out_states[pred])
                    if not e.dead:
                        res.append((r, e))
            else:
                if is_fail(v, r.bb):
                    continue
                st = self.out_states.get(r.bb)
                if st is not None and not st.dead:
                    res.append((r, st))
        return res


class Engine:
    def __init__(self, prog):
        self.prog = prog
        self.summ = Summaries(prog)
        self._helper = {}

    def leaves_of_ptr_type(self, t, unit):
        sn = struct_of_type(t)
        if sn is None:
            return None, []
        return sn, flatten(self.prog, sn, unit)

    def helper_summary(self, fn, dst_idx, src_idx, depth):
        key = (fn, dst_idx, src_idx)
        if key in self._helper:
            return self._helper[key]
        self._helper[key] = {"final": {}, "events": []}   # recursion guard: no effect
        dst = fn.params[dst_idx]
        sn, leaves = self.leaves_of_ptr_type(dst.ty, fn.unit)
        # the parameter is often an interface/base type (sqfs_object_t*, void*): use the widest struct it is cast to
        for u in fn.uses.get(dst, []):
            if u.op == "bitcast":
                sn2, leaves2 = self.leaves_of_ptr_type(u.ty, fn.unit)
                if leaves2 and (not leaves or max(l[0] + l[1] for l in leaves2) > max(l[0] + l[1] for l in leaves)):
                    sn, leaves = sn2, leaves2
        if not leaves:
            leaves = [(0, 8, "i8*", "*")]
        src = fn.params[src_idx] if src_idx is not None else None
        fl = Flow(self, fn, [dst], src, leaves, [K], depth=depth).run()
        mode = "int" if fn.ret.startswith("i") else ("void" if fn.ret == "void" else "other")
        final = {}
        succ = fl.success_states(mode)
        for (o, sz, t, n) in leaves:
            acc = frozenset()
            for r, st in succ:
                acc |= st.slots.get(o, frozenset([K]))
            if not succ:
                acc = frozenset([K])
            final[o] = acc
        res = {"final": final, "events": list(fl.events.values()), "leaves": leaves}
        self._helper[key] = res
        return res

    def release_summary(self, fn):
        """destroy hook: {slot off: [guard sets]} released slots of parameter 0, plus leaves"""
        obj = fn.params[0]
        sn, leaves = None, []
        for u in fn.uses.get(obj, []):
            if u.op == "bitcast":
                sn, leaves = self.leaves_of_ptr_type(u.ty, fn.unit)
                if leaves:
                    break
        if not leaves:
            sn, leaves = self.leaves_of_ptr_type(obj.ty, fn.unit)
        fl = Flow(self, fn, [obj], None, leaves, [K]).run()
        rel = defaultdict(list)
        for e in fl.events.values():
            if e.kind == "release-K" and e.off is not None:
                rel[e.off].append(e)
        return sn, leaves, rel, fl
