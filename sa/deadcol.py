"""K2 (dead-column form): in a constant dispatch/keyword table (array of structs) every column whose values differ
between rows must be read somewhere; a column that is filled in but never consulted means a documented keyword or
option silently has no effect."""
import json
import re

from .ir import strip_casts


def tables(prog):
    out = []
    for u in prog.units:
        if "/test/" in u.src or u.src.startswith("extras"):
            continue
        for g in u.globals.values():
            init = g.get("init")
            if not g.get("const") or not init or init[0] != "a":
                continue
            rows = init[2]
            if len(rows) < 2 or any(r[0] != "a" for r in rows):
                continue
            m = re.match(r"^%((?:struct|union)\.[\w.]+)$", rows[0][1])
            if not m:
                continue
            out.append((u, g, m.group(1), rows))
    return out


def run_deadcol(chk, prog, rule="K2-column"):
    # all (struct, field index) pairs that are loaded anywhere
    read = set()
    for f in prog.functions():
        for i in f.insts():
            if i.op in ("load", "call", "getelementptr", "store", "icmp"):
                ptrs = [i.ops[0]] if i.op == "load" else list(i.ops)
                for p in ptrs:
                    if p.is_const:
                        continue
                    p = strip_casts(p)
                    if p.is_inst and p.op == "getelementptr":
                        for el in p.x["gep"]:
                            if el[0] not in ("*", "[]", "?"):
                                # a field address that is loaded from or passed on counts as read
                                if i.op == "store" and i.ops[1] is p:
                                    continue
                                read.add((re.sub(r"\.\d+$", "", el[0]), el[1], f.unit.src))
    n = 0
    for (u, g, sname, rows) in tables(prog):
        st = prog.struct(sname, u)
        ncol = len(rows[0][2])
        for j in range(ncol):
            vals = {json.dumps(r[2][j]) for r in rows}
            if len(vals) < 2:
                continue
            n += 1
            fname = (st["elems"][j].get("n") if st and j < len(st["elems"]) else None) or "#%d" % j
            inst = "%s.%s" % (g.get("src") or g["name"], fname)
            used = any(s_ == re.sub(r"\.\d+$", "", sname) and k == j for (s_, k, src) in read)
            site = "%s:%d" % (g.get("file", u.src), g.get("line", 0))
            if used:
                chk.ok(rule, inst, site, "column is read", fn=g.get("src") or g["name"], nontrivial=False)
            else:
                chk.violation(rule, inst, site, "the table %s sets '%s' differently for different rows, but no code reads that column: "
                              "the keyword/option it encodes has no effect" % (g.get("src") or g["name"], fname), fn=g.get("src") or g["name"])
    return n
