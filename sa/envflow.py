"""Forward information flow from an environment query: does its answer influence anything but diagnostics?

Values derived from the query are tainted; so are locations (struct fields by name, globals, locals) they are stored to,
and everything loaded from those anywhere in the program; a function that returns a tainted value taints its call
sites.  Tainted values may be compared, branched on, stored into (then tainted) locations and handed to functions that
only read them (strcmp, strlen, atoi ...) or print to stderr.  A branch on a tainted condition may only control code that
prints to stderr, reads memory, computes, and updates tainted locations, and that falls back into the common flow:
no return, no exit, no other call, no other store.  Anything else means the environment can change what the tool does.
"""
import re

from .ir import strip_casts, norm_callee, ExternFn

PURE_READERS = {"strcmp", "strncmp", "strlen", "atoi", "atol", "strtol", "strtoul", "strchr", "strcasecmp", "isdigit"}
STDERR_PRINT = {"fprintf": 0, "vfprintf": 0, "fputs": 1, "fputc": 1, "putc": 1, "fwrite": 3, "perror": None, "fflush": 0}


def _to_stderr(i):
    nm = norm_callee(i.callee)
    if nm not in STDERR_PRINT:
        return False
    k = STDERR_PRINT[nm]
    if k is None:
        return True
    if k >= len(i.ops):
        return False
    v = strip_casts(i.ops[k])
    if v.is_inst and v.op == "load":
        g = strip_casts(v.ops[0])
        return bool(g.is_const and g.gname == "stderr")
    return False


def _loc_key(p, f):
    p = strip_casts(p)
    if p.is_inst and p.op == "getelementptr" and p.field():
        s, n = p.field()
        return ("field", re.sub(r"\.\d+$", "", s), n)
    if p.is_const and p.gname:
        return ("global", p.gname)
    if p.is_inst and p.op == "alloca":
        return ("local", f.qname, id(p))
    return None


def diagnostics_only(prog, f0, call0, max_steps=4000):
    """(True, None) or (False, (site, reason))"""
    tainted = {}        # id(value) -> (function, value)
    locs = set()
    ret_tainted = set()
    work = [(f0, call0)]
    steps = 0

    def add(f, v):
        if id(v) not in tainted:
            tainted[id(v)] = (f, v)
            work.append((f, v))

    while work:
        steps += 1
        if steps > max_steps:
            return (False, (call0, "the flow of the answer is too wide to follow"))
        f, v = work.pop()
        f.build()
        for u in f.uses.get(v, []):
            if u.op in ("bitcast", "zext", "sext", "trunc", "icmp", "select", "phi", "and", "or", "xor", "add", "sub",
                        "getelementptr", "ptrtoint", "inttoptr", "load") and not (u.op == "load" and False):
                if u.op == "load" and strip_casts(u.ops[0]) is not v and strip_casts(u.ops[0]) is not strip_casts(v):
                    continue
                add(f, u)
            elif u.op == "store":
                if u.ops[0] is v or strip_casts(u.ops[0]) is strip_casts(v):
                    k = _loc_key(u.ops[1], f)
                    if k is None:
                        return (False, (u, "the answer is stored through a pointer that cannot be followed"))
                    if k not in locs:
                        locs.add(k)
                        # everything loaded from that location
                        for g in prog.functions():
                            if g.decl:
                                continue
                            if k[0] == "local" and g.qname != k[1]:
                                continue
                            for i in g.insts():
                                if i.op == "load" and _loc_key(i.ops[0], g) == k:
                                    add(g, i)
                # a store *to* an address derived from the answer: not expected
                elif strip_casts(u.ops[1]) is v:
                    return (False, (u, "memory is written through the answer"))
            elif u.op == "br":
                ok, why = _region_ok(prog, f, u, locs)
                if not ok:
                    return (False, why)
            elif u.op == "switch":
                return (False, (u, "the answer selects between different code"))
            elif u.op == "ret":
                if f.qname not in ret_tainted:
                    ret_tainted.add(f.qname)
                    for cs in prog.callers_of(f):
                        add(cs.fn, cs)
            elif u.op == "call":
                nm = norm_callee(u.callee)
                if nm in PURE_READERS:
                    add(f, u)
                elif _to_stderr(u):
                    pass
                else:
                    t = prog.fn(u.callee, f.unit) if u.callee else None
                    if t is not None and _pure_reporter(prog, t):
                        continue
                    return (False, (u, "the answer is handed to %s()" % (nm or "an indirect call")))
            else:
                return (False, (u, "the answer is used by '%s'" % u.op))
    return (True, None)


FRESH = {"malloc", "calloc", "strdup", "strndup", "realloc", "alloc_flex", "alloc_array"}


def _fresh_target(prog, g, p, _vis=None):
    """the address lies in memory this very function allocated (or in a local)"""
    from .util import resolve_ptr
    _vis = _vis if _vis is not None else set()
    if id(p) in _vis or len(_vis) > 60:
        return True          # co-inductive over phi cycles
    _vis.add(id(p))
    seen = 0
    v = strip_casts(resolve_ptr(prog, p, g.unit)[0])
    while seen < 6:
        seen += 1
        if v.is_inst and v.op == "alloca":
            return True
        if v.is_inst and v.op == "call" and norm_callee(v.callee) in FRESH:
            return True
        if v.is_inst and v.op == "phi":
            return all(_fresh_target(prog, g, o, _vis) for o in v.ops if o is not v)
        if v.is_inst and v.op == "load":
            # a local pointer variable holding such memory
            a = strip_casts(v.ops[0])
            if a.is_inst and a.op == "alloca":
                sts = [u for u in g.uses.get(a, []) if u.op == "store" and strip_casts(u.ops[1]) is a]
                return bool(sts) and all(_fresh_target(prog, g, u.ops[0], _vis) for u in sts)
            return False
        if v.is_inst and v.op in ("getelementptr", "bitcast"):
            v = strip_casts(resolve_ptr(prog, v.ops[0], g.unit)[0])
            continue
        return False
    return False


def _pure_reporter(prog, g, depth=0, memo=None):
    """g only reads memory, computes, prints to stderr and calls functions of the same kind"""
    memo = memo if memo is not None else prog.__dict__.setdefault("_pure_reporter", {})
    if g in memo:
        return memo[g]
    memo[g] = True
    ok = True
    if g.decl or depth > 4:
        ok = False
    else:
        g.build()
        for i in g.insts():
            if i.op == "store":
                k = _loc_key(i.ops[1], g)
                if not (k is not None and k[0] == "local") and not _fresh_target(prog, g, i.ops[1]):
                    ok = False
            elif i.op == "call":
                nm = norm_callee(i.callee)
                if _to_stderr(i) or nm in PURE_READERS or (nm or "").startswith("llvm.") or nm in FRESH or nm == "free":
                    continue
                if nm in ("memcpy", "memmove", "memset", "strcpy", "sprintf", "snprintf") and i.ops and _fresh_target(prog, g, i.ops[0]):
                    continue
                t = prog.fn(i.callee, g.unit) if i.callee else None
                if t is None or not _pure_reporter(prog, t, depth + 1, memo):
                    ok = False
            elif i.op in ("unreachable", "switch"):
                pass
            if not ok:
                break
    memo[g] = ok
    return ok


def _region_ok(prog, f, br, locs):
    if len(br.x["succ"]) != 2 or br.x["succ"][0] is br.x["succ"][1]:
        return (True, None)
    for s_ in br.x["succ"]:
        for b in f.blocks:
            if not f.edge_dominates(br.bb, s_, b):
                continue
            for i in b.insts:
                if i.op in ("load", "getelementptr", "bitcast", "zext", "sext", "trunc", "icmp", "br", "phi", "add", "sub", "mul",
                            "and", "or", "xor", "select", "udiv", "sdiv", "shl", "lshr", "ashr", "ptrtoint", "inttoptr",
                            "extractvalue", "alloca"):
                    continue
                if i.op == "store":
                    k = _loc_key(i.ops[1], f)
                    if k is not None and (k in locs or k[0] == "local"):
                        continue
                    # a store of a tainted-only diagnostic state is added lazily: treat a store of a constant/loaded
                    # value into a field that is only ever read under tainted control as unknown -> not allowed
                    return (False, (i, "a store that depends on the answer"))
                if i.op == "call":
                    nm = norm_callee(i.callee)
                    if _to_stderr(i) or nm in PURE_READERS or (nm or "").startswith("llvm.dbg") or (nm or "").startswith("llvm.lifetime"):
                        continue
                    t = prog.fn(i.callee, f.unit) if i.callee else None
                    if t is not None and _pure_reporter(prog, t):
                        continue
                    return (False, (i, "a call of %s() that depends on the answer" % (nm or "an indirect target")))
                if i.op in ("ret", "unreachable", "switch"):
                    return (False, (i, "the answer decides whether the function returns here"))
                return (False, (i, "'%s' depends on the answer" % i.op))
    return (True, None)
