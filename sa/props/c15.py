"""C15 -- stream compression of tar input/output is transparent: structural clauses of the codec wrappers."""
from ..ir import load_program, strip_casts, norm_callee, ExternFn
from ..build import AnalysisBroken
from ..util import resolve_ptr, backward_slice, const_int
from ..effects import slot_call, success_points
from ..errflow import failure_edges, consistent_reach, ret_sources

# return codes of the codec libraries (API constants) and which of them mean "progress was made, call again"
CODECS = {
    "deflate":           ("zlib", [0, 1, 2, -1, -2, -3, -4, -5, -6], {0}),
    "inflate":           ("zlib", [0, 1, 2, -1, -2, -3, -4, -5, -6], {0}),
    "lzma_code":         ("liblzma", list(range(0, 12)), {0}),
    "BZ2_bzCompress":    ("bzip2", [0, 1, 2, 3, 4, -1, -2, -3, -4, -5, -6, -7, -8, -9], {0, 1, 2, 3}),
    "BZ2_bzDecompress":  ("bzip2", [0, 1, 2, 3, 4, -1, -2, -3, -4, -5, -6, -7, -8, -9], {0, 1, 2, 3}),
}
ZSTD_CALLS = {"ZSTD_compressStream2", "ZSTD_decompressStream", "ZSTD_compressStream", "ZSTD_endStream", "ZSTD_flushStream"}
FINISH = {"gzip.c": 4, "xz.c": 3, "zstd.c": 2, "bzip2.c": 2}     # Z_FINISH, LZMA_FINISH, ZSTD_e_end, BZ_FINISH
FLUSH_FULL = 2                                                     # XFRM_STREAM_FLUSH_FULL


def eval_icmp(pred, a, b):
    return {"eq": a == b, "ne": a != b, "slt": a < b, "sle": a <= b, "sgt": a > b, "sge": a >= b,
            "ult": (a & 0xFFFFFFFF) < (b & 0xFFFFFFFF), "ule": (a & 0xFFFFFFFF) <= (b & 0xFFFFFFFF),
            "ugt": (a & 0xFFFFFFFF) > (b & 0xFFFFFFFF), "uge": (a & 0xFFFFFFFF) >= (b & 0xFFFFFFFF)}[pred]


def lib_call_sites(prog, f, names, depth=0):
    """[(call in f, library functions it stands for)]: direct calls of the named library functions, and calls of static
    helpers of the same unit whose every answer is the unmodified result of such a call (`return deflate(...)` in one arm,
    `return inflate(...)` in the other)"""
    from ..errflow import ret_sources
    out = []
    for c in f.calls():
        nm = norm_callee(c.callee) if c.callee else None
        if nm in names:
            out.append((c, {nm}))
            continue
        if not c.callee or depth >= 2:
            continue
        h = prog.fn(c.callee, f.unit)
        if h is None or h.decl or h.unit is not f.unit or h is f:
            continue
        h.build()
        inner = {id(x): ns for (x, ns) in lib_call_sites(prog, h, names, depth + 1)}
        srcs = ret_sources(h)
        if srcs and all(id(strip_casts(v)) in inner for (v, _b) in srcs):
            ns = set()
            for (v, _b) in srcs:
                ns |= inner[id(strip_casts(v))]
            out.append((c, ns))
    return out


def continuing_codes(f, loop, rvals, codes):
    """return codes for which control can get from the codec call back to the loop header"""
    header, body = loop
    rset = set(id(v) for v in rvals)
    start_blocks = {v.bb for v in rvals if v.is_inst}
    out = set()
    for code in codes:
        seen, stack = set(), []
        for v in rvals:
            if v.is_inst:
                stack.append(v.bb)
        reached = False
        first = True
        while stack:
            b = stack.pop()
            key = b
            if key in seen:
                continue
            seen.add(key)
            t = b.term
            nxt = list(b.succs)
            if t.op == "br" and len(t.x["succ"]) == 2:
                c = t.ops[0]
                if c.is_inst and c.op == "icmp" and c.ops[1].is_const and c.ops[1].is_int and \
                        (id(strip_casts(c.ops[0])) in rset):
                    truth = eval_icmp(c.pred, code, c.ops[1].sval)
                    nxt = [t.x["succ"][0] if truth else t.x["succ"][1]]
            elif t.op == "switch" and id(strip_casts(t.ops[0])) in rset:
                tgt = t.x["def"]
                for v, s in t.x["cases"]:
                    sv = v - (1 << 32) if v >= (1 << 31) else v
                    if sv == code:
                        tgt = s
                nxt = [tgt]
            for s in nxt:
                if s is header and b in body:
                    reached = True
                elif s in body:
                    stack.append(s)
        if reached:
            out.add(code)
    return out


def codec_rule(chk, prog):
    impls = sorted(prog.slot_impls(("struct.xfrm_stream_t", "process_data")), key=lambda f: f.unit.src)
    if len(impls) < 4:
        chk.broke("only %d implementations of xfrm_stream_t.process_data found" % len(impls))
    for f in impls:
        f.build()
        chk.analysed(f)
        fname = f.unit.src.split("/")[-1]
        csites = lib_call_sites(prog, f, CODECS)
        calls = [c for (c, _ns) in csites]
        zcalls = [c for (c, _ns) in lib_call_sites(prog, f, ZSTD_CALLS)]
        inst = "%s:process_data" % fname
        if calls:
            lib, codes, okset = CODECS[sorted(csites[0][1])[0]]
            loop = f.loop_of(calls[0].bb)
            if loop is None:
                chk.violation("K-codec", inst, calls[0], "codec call is not inside the transfer loop")
                continue
            # the result may be merged by a phi (compress / decompress arms)
            rvals = list(calls)
            for c in calls:
                for u in f.uses.get(c, []):
                    if u.op == "phi" and u not in rvals:
                        rvals.append(u)
            cont = continuing_codes(f, loop, rvals, codes)
            bad = sorted(cont - okset)
            if not bad:
                chk.ok("K-codec", inst, calls[0], "the loop calls %s again only after %s; every other documented result leaves the "
                       "loop" % (lib, sorted(cont)))
            else:
                chk.violation("K-codec", inst, calls[0], "after %s returned %s (an error or no-progress code) the wrapper loops and "
                              "calls it again with the same input: a corrupted or unsupported stream makes the tool spin "
                              "forever instead of reporting an error" % (lib, bad))
        elif zcalls:
            # zstd: errors are recognised with ZSTD_isError(result); its true edge must leave the loop
            loop = f.loop_of(zcalls[0].bb)
            ise = [c for c in f.calls("ZSTD_isError")]
            ok = bool(ise) and loop is not None
            for e in ise:
                for (s_, fact) in failure_edges(f, e):
                    if loop and loop[0] in _reach_in(s_, loop[1]):
                        ok = False
            if ok:
                chk.ok("K-codec", inst, zcalls[0], "ZSTD_isError(result) leaves the loop")
            else:
                chk.violation("K-codec", inst, zcalls[0], "a zstd error result does not leave the transfer loop")
        else:
            chk.broke("%s: no known codec call in process_data" % fname)


def _reach_in(start, body):
    seen, stack = set(), [start]
    while stack:
        b = stack.pop()
        if b in seen or b not in body:
            continue
        seen.add(b)
        stack.extend(b.succs)
    return seen


def offsets_rule(chk, prog):
    """C15-b: *in_read / *out_written are advanced inside the loop by amounts read back from the codec state"""
    for f in prog.slot_impls(("struct.xfrm_stream_t", "process_data")):
        f.build()
        fname = f.unit.src.split("/")[-1]
        for (pidx, what) in ((5, "in_read"), (6, "out_written")):
            if pidx >= len(f.params):
                chk.broke("%s: process_data has %d parameters" % (fname, len(f.params)))
                continue
            par = f.params[pidx]
            stores = [i for i in f.insts() if i.op == "store" and strip_casts(i.ops[1]) is par]
            inst = "%s:%s" % (fname, what)
            ok = bool(stores)
            for s in stores:
                sl = backward_slice(s.ops[0], phi_control=False)
                accum = any(x.is_inst and x.op == "load" and strip_casts(x.ops[0]) is par for x in sl)
                from_state = any(x.is_inst and x.op == "load" and strip_casts(x.ops[0]).is_inst and
                                 strip_casts(x.ops[0]).op == "getelementptr" and strip_casts(x.ops[0]).field() and
                                 strip_casts(x.ops[0]).field()[1] in ("avail_in", "avail_out", "pos") for x in sl)
                if not (accum and from_state and f.loop_of(s.bb) is not None):
                    ok = False
            if ok:
                chk.ok("K10-offsets", inst, stores[0], "accumulated in the loop from the codec's avail/pos counters")
            else:
                chk.violation("K10-offsets", inst, stores[0] if stores else f, "%s is not advanced by what the codec reports as "
                              "consumed/produced: the wrapper re-feeds or skips bytes" % what)


def tables_rule(chk, prog):
    """C15-a (tables) and C15-c: flush-mode tables map FLUSH_FULL to the library's finish action; every compressor the
    magic detection can return has both stream constructors"""
    for f in prog.slot_impls(("struct.xfrm_stream_t", "process_data")):
        unit = f.unit
        fname = unit.src.split("/")[-1]
        want = FINISH.get(fname)
        if want is None:
            continue
        tabs = [g for g in unit.globals.values() if g.get("const") and g.get("init") and g["init"][0] in ("s", "a") and
                g["name"].endswith("_action")]
        inst = "%s:flush-table" % fname
        if not tabs:
            chk.violation("K12-finish", inst, f, "no constant flush-mode table found")
            continue
        init = tabs[0]["init"]
        vals = init[1] if init[0] == "s" else [(e[2] if e[0] == "i" else None) for e in init[2]]
        if len(vals) > FLUSH_FULL and vals[FLUSH_FULL] == want:
            chk.ok("K12-finish", inst, f, "XFRM_STREAM_FLUSH_FULL maps to the library's finish action (%d)" % want)
        else:
            chk.violation("K12-finish", inst, f, "XFRM_STREAM_FLUSH_FULL does not map to the library's finish action: the stream "
                          "trailer is never written and reference decompressors reject the output")
    cu = prog.by_src.get("lib/xfrm/src/compress.c")
    if cu is None:
        raise AnalysisBroken("lib/xfrm/src/compress.c not in the closure")
    tab = cu.globals.get("compressors")
    if not tab or not tab.get("init") or tab["init"][0] != "a":
        chk.broke("compressor table not found")
        return
    for row in tab["init"][2]:
        fields = row[2]
        cid = fields[0][2] if fields[0][0] == "i" else None
        fns = [e for e in fields if e[0] in ("g", "e", "n")]
        nullfn = [e for e in fields[4:6] if e[0] == "n"]
        if not nullfn and len(fields) >= 6:
            chk.ok("K2-codec-table", "compressor %s" % cid, cu.functions.get("xfrm_compressor_id_from_magic") or list(cu.functions.values())[0],
                   "has a compressor and a decompressor constructor")
        else:
            chk.violation("K2-codec-table", "compressor %s" % cid, list(cu.functions.values())[0],
                          "a compressor the magic detection can report has no (de)compressor constructor")


def trailer_rule(chk, prog):
    """C15-a: flushing the compressing output stream finishes the codec stream, then flushes the wrapped stream;
    sqfs2tar flushes before it reports success"""
    unit = prog.by_src.get("lib/xfrm/src/ostream.c")
    if unit is None:
        raise AnalysisBroken("lib/xfrm/src/ostream.c not in the closure")
    fl = [f for f in prog.slot_impls(("struct.sqfs_ostream_t", "flush")) if f.unit is unit]
    if len(fl) != 1:
        chk.broke("expected one flush implementation in lib/xfrm/src/ostream.c, found %d" % len(fl))
        return
    f = fl[0].build()
    chk.analysed(f)
    fin = []
    for c in f.calls():
        g = unit.functions.get(c.callee or "")
        if g is not None and not g.decl and any(a.is_const and a.is_int and a.uval == 1 and a.bits == 1 for a in c.ops):
            # helper called with finish = true; it must hand FLUSH_FULL to process_data
            g.build()
            if any(slot_call(x) == ("struct.xfrm_stream_t", "process_data") for x in g.calls()):
                fin.append(c)
    wr = [c for c in f.calls() if slot_call(c) == ("struct.sqfs_ostream_t", "flush")]
    succ = success_points(f)
    inst = "%s:finish-then-flush" % f.name
    ok = bool(fin) and bool(wr)
    if ok:
        # pending input => finish helper on every path to the wrapped flush; wrapped flush on every success path
        for w in wr:
            for b in succ:
                pass
        # the finish call is skipped only under the test "nothing pending"
        for c in fin:
            guards = f.guards_at(c.bb)
            pend = any(any(n == "inbuf_used" for (_s, n) in _fields(cond)) for cond, o, br in guards)
            if not pend and not all(f.dominates(c.bb, b) for b in succ):
                ok = False
        # the success value is the wrapped stream's flush result
        vals = ret_sources(f)
        if not any(v in wr for (v, b) in vals):
            ok = False
    if ok:
        chk.ok("K1-trailer", inst, fin[0], "pending input is pushed through the codec with finish=true, then the wrapped stream is flushed "
               "and its result returned")
    else:
        chk.violation("K1-trailer", inst, f, "flushing the compressing stream does not finish the codec stream (or does not flush the "
                      "wrapped stream): the compressed output lacks its trailer")
    # the finish helper maps finish=true to FLUSH_FULL
    for c in fin:
        g = unit.functions.get(c.callee).build()
        okm = False
        for x in g.calls():
            if slot_call(x) == ("struct.xfrm_stream_t", "process_data"):
                mode = x.ops[-1]
                for v in backward_slice(mode):
                    if v.is_inst and v.op == "select":
                        t, e = v.ops[1], v.ops[2]
                        if t.is_const and t.is_int and t.uval == FLUSH_FULL:
                            okm = True
                    if v.is_inst and v.op == "phi" and any(o.is_const and o.is_int and o.uval == FLUSH_FULL for o in v.ops):
                        okm = True
                    if v.is_inst and v.op in ("zext", "sext") and False:
                        pass
        if okm:
            chk.ok("K1-trailer", "%s:mode" % g.name, c, "finish=true selects XFRM_STREAM_FLUSH_FULL")
        else:
            chk.violation("K1-trailer", "%s:mode" % g.name, c, "finish=true does not select XFRM_STREAM_FLUSH_FULL")
    # sqfs2tar main
    s2t = load_program("sqfs2tar")
    main = [f for f in s2t.functions() if f.name == "main" and f.unit.src.startswith("bin/sqfs2tar/")]
    if not main:
        chk.broke("sqfs2tar main not found")
        return
    main = main[0]
    chk.analysed(main)
    fls = [c for c in main.calls() if slot_call(c) == ("struct.sqfs_ostream_t", "flush")]
    zero_blocks = {b for (v, b) in ret_sources(main) if v.is_const and v.is_int and v.sval == 0}
    ok = bool(fls) and bool(zero_blocks)
    for c in fls:
        fe = failure_edges(main, c)
        if not fe:
            ok = False
        for (s_, fact) in fe:
            if consistent_reach(main, s_, c, fact, zero_blocks):
                ok = False
    if ok and all(any(main.dominates(c.bb, b) for c in fls) for b in zero_blocks):
        chk.ok("K1-trailer", "sqfs2tar:flush-before-success", fls[0], "exit status 0 is selected only after out_file->flush() succeeded")
    else:
        chk.violation("K1-trailer", "sqfs2tar:flush-before-success", fls[0] if fls else main,
                      "sqfs2tar can report success without having flushed (finished) its output stream")


def member_rule(chk, prog):
    """K1-member: the decompressing input stream keeps going after a member ended: the only reasons to stop refilling
    are an error, a full output buffer, or the wrapped stream's own end of input"""
    unit = prog.by_src.get("lib/xfrm/src/istream.c")
    if unit is None:
        raise AnalysisBroken("lib/xfrm/src/istream.c not in the closure")
    XEND = 1      # XFRM_STREAM_END
    n = 0
    for f in unit.functions.values():
        if f.decl:
            continue
        f.build()
        pcalls = [c for c in f.calls() if slot_call(c) == ("struct.xfrm_stream_t", "process_data")]
        if not pcalls:
            continue
        n += 1
        chk.analysed(f)
        c = pcalls[0]
        loop = f.loop_of(c.bb)
        inst = "%s:refill-loop" % f.name
        if loop is None:
            chk.violation("K1-member", inst, c, "process_data is not called in a refill loop")
            continue
        header, body = loop
        bad = None
        for b in f.blocks:
            if b in body or not f.dominates(header, b):
                continue
            # a block outside the loop that is only reached where the codec said "member finished"
            for cond, outcome, br in f.guards_at(b):
                if br.bb in body and cond.is_inst and cond.op == "icmp" and strip_casts(cond.ops[0]) is c and \
                        cond.ops[1].is_const and cond.ops[1].is_int and cond.ops[1].sval == XEND and \
                        outcome == (cond.pred == "eq"):
                    bad = br
        # any exit of the loop decided by the codec's answer alone must not fire for OK (0) or END (1)
        if bad is None:
            for b in body:
                t = b.term
                if t.op != "br" or len(t.x["succ"]) != 2:
                    continue
                cond = t.ops[0]
                if not (cond.is_inst and cond.op == "icmp" and strip_casts(cond.ops[0]) is c and cond.ops[1].is_const and cond.ops[1].is_int):
                    continue
                k = cond.ops[1].sval
                for val in (0, XEND):
                    truth = eval_icmp(cond.pred, val, k)
                    succ = t.x["succ"][0] if truth else t.x["succ"][1]
                    # does that edge leave the loop without coming back?
                    seenb, stack, leaves = set(), [succ], False
                    while stack:
                        bb_ = stack.pop()
                        if bb_ in seenb:
                            continue
                        seenb.add(bb_)
                        if bb_ not in body:
                            leaves = True
                            break
                        if bb_ is header:
                            continue
                        # stop at the next conditional decision: only unconditional fall-out counts
                        if bb_.term.op == "br" and len(bb_.term.x["succ"]) == 1:
                            stack.extend(bb_.succs)
                    if leaves and succ not in body:
                        bad = t
        if bad is None:
            chk.ok("K1-member", inst, c, "the refill loop never stops because a compressed member ended; it stops on error, full "
                   "buffer, or the wrapped stream's end of input")
        else:
            chk.violation("K1-member", inst, bad, "the decompressing stream treats the end of one compressed member as the end of "
                          "the input: concatenated members after it are silently dropped")
    if n == 0:
        chk.broke("no process_data call found in lib/xfrm/src/istream.c")


def pending_invariant_rule(chk, prog):
    """K1-pending: flush() finishes the codec stream only if input is pending; that is sound as long as append()
    never returns with everything already pushed through the codec, i.e. after the non-finishing flush helper ran,
    more input is buffered again before append returns"""
    unit = prog.by_src.get("lib/xfrm/src/ostream.c")
    fl = [f for f in prog.slot_impls(("struct.sqfs_ostream_t", "flush")) if f.unit is unit]
    ap = [f for f in prog.slot_impls(("struct.sqfs_ostream_t", "append")) if f.unit is unit]
    if len(fl) != 1 or len(ap) != 1:
        chk.broke("xfrm ostream flush/append implementations not found")
        return
    f, a = fl[0].build(), ap[0].build()
    conditional = False
    for c in f.calls():
        g = unit.functions.get(c.callee or "")
        if g is not None and not g.decl and any(x.is_const and x.is_int and x.uval == 1 and x.bits == 1 for x in c.ops):
            succ = success_points(f)
            if not all(f.dominates(c.bb, b) for b in succ):
                conditional = True
    inst = "%s:pending-after-partial-flush" % a.name
    if not conditional:
        chk.ok("K1-pending", inst, f, "flush finishes the codec stream unconditionally", nontrivial=False)
        return
    chk.analysed(a)
    helpers = [c for c in a.calls() if unit.functions.get(c.callee or "") is not None and
               any(x.is_const and x.is_int and x.uval == 0 and x.bits == 1 for x in c.ops)]
    adds = []
    for i in a.insts():
        if i.op == "store":
            p_ = strip_casts(i.ops[1])
            if p_.is_inst and p_.op == "getelementptr" and p_.field() and p_.field()[1] == "inbuf_used":
                v = i.ops[0]
                if v.is_inst and v.op == "add":
                    adds.append(i)
    bad = None
    ab = {}
    for s_ in adds:
        ab.setdefault(s_.bb, []).append(s_.pos)
    for h in helpers:
        if any(p > h.pos for p in ab.get(h.bb, [])):
            continue
        seen, stack = set(), list(h.bb.succs)
        while stack:
            b = stack.pop()
            if b in seen:
                continue
            seen.add(b)
            if b in ab:
                continue
            if b.term.op == "ret":
                v = b.term.ops[0]
                # returning the helper's error is fine
                okret = False
                if v.is_inst and v.op == "phi":
                    okret = False
                bad = h
            # an error return of the helper itself: edge where helper result != 0
            nxt = list(b.succs)
            stack.extend(nxt)
    # refine: ignore paths that return the helper's non-zero result
    if bad is not None:
        bad2 = None
        for h in helpers:
            if any(p > h.pos for p in ab.get(h.bb, [])):
                continue
            ok_edges = [s_ for (s_, fact) in failure_edges(a, h)]
            # success continuation of the helper
            cont = []
            for u in a.uses.get(h, []):
                if u.op == "icmp":
                    for br in a.uses.get(u, []):
                        if br.op == "br" and len(br.x["succ"]) == 2:
                            cont.append(br.x["succ"][1] if u.pred == "ne" else br.x["succ"][0])
            for start in cont:
                seen, stack = set(), [start]
                while stack:
                    b = stack.pop()
                    if b in seen:
                        continue
                    seen.add(b)
                    if b in ab:
                        continue
                    if b.term.op == "ret":
                        bad2 = h
                    stack.extend(b.succs)
        bad = bad2
    if bad is None and helpers:
        chk.ok("K1-pending", inst, helpers[0], "after every partial flush more input is buffered before append returns, so the "
               "'pending input' test in flush cannot skip the stream trailer")
    elif not helpers:
        chk.ok("K1-pending", inst, a, "append never pushes data through the codec itself", nontrivial=False)
    else:
        chk.violation("K1-pending", inst, bad, "append can return right after pushing a full buffer through the codec with nothing "
                      "pending; flush then skips the finishing call and the compressed stream has no trailer (output sizes that "
                      "are a multiple of the buffer size)")


def finish_reachable_rule(chk, prog):
    """K1-finish: the flush loop of the compressing stream calls process_data in finishing mode until it answers
    XFRM_STREAM_END.  With all input consumed that only terminates if the wrapper (a) still calls into the library when
    in_size == 0 (the call is not guarded by in_size > 0), or (b) answers END itself once in_size == 0 in a flushing mode.
    A wrapper that does neither returns 'ok, nothing done' forever as soon as the library's last output did not fit into
    one buffer."""
    LIB = ("deflate", "inflate", "lzma_code", "BZ2_bzCompress", "BZ2_bzDecompress", "ZSTD_compressStream2", "ZSTD_decompressStream",
           "ZSTD_compressStream", "ZSTD_endStream")
    n = 0
    for f in prog.slot_impls(("struct.xfrm_stream_t", "process_data")):
        if isinstance(f, ExternFn) or f.decl:
            continue
        f.build()
        chk.analysed(f)
        n += 1
        insz = f.params[2]
        web = {id(insz)}
        work = [insz]
        while work:
            v = work.pop()
            for u in f.uses.get(v, []):
                if u.op in ("phi", "sub", "zext", "sext", "trunc") and id(u) not in web:
                    web.add(id(u))
                    work.append(u)

        def on_insize(cond):
            if not (cond.is_inst and cond.op == "icmp" and cond.ops[1].is_const and cond.ops[1].is_int and cond.ops[1].sval == 0):
                return None
            x = cond.ops[0]
            while x.is_inst and x.op in ("zext", "sext", "trunc"):
                x = x.ops[0]
            if id(x) not in web:
                return None
            return cond.pred
        lsites = lib_call_sites(prog, f, LIB)
        calls = [c for (c, _ns) in lsites]
        compress_calls = [c for (c, ns) in lsites if ns & {"deflate", "lzma_code", "BZ2_bzCompress", "ZSTD_compressStream2",
                                                          "ZSTD_compressStream", "ZSTD_endStream"}]
        a_ok = False
        for c in compress_calls:
            needs_input = False
            for (cond, outcome, br) in f.guards_at(c.bb):
                p = on_insize(cond)
                if p is None:
                    continue
                if (p in ("ugt", "ne") and outcome is True) or (p in ("eq", "ule") and outcome is False):
                    needs_input = True
            if not needs_input:
                a_ok = True
        b_ok = False
        from ..errflow import ret_sources
        for (v, b) in ret_sources(f):
            w = strip_casts(v)
            if not (w.is_const and w.is_int and w.sval > 0):
                continue
            for (cond, outcome, br) in f.guards_at(b):
                p = on_insize(cond)
                if p == "eq" and outcome is True or p in ("ne", "ugt") and outcome is False:
                    b_ok = True
        inst = "%s:%s" % (f.unit.src.split("/")[-1], f.name)
        if a_ok:
            chk.ok("K1-finish", inst, compress_calls[0] if compress_calls else f, "the library is still called in finishing mode when no input is left")
        elif b_ok:
            chk.ok("K1-finish", inst, f, "the wrapper itself reports the end of the stream once the input is used up in a flushing mode")
        else:
            chk.violation("K1-finish", inst, compress_calls[0] if compress_calls else f, "the library is only called while in_size > 0 and the "
                          "wrapper never reports the end on its own: when the final flush needs more than one output buffer the next "
                          "call does nothing and answers 'ok', and the flushing loop of the output stream never ends")
    return n


def ok_progress_rule(chk, prog):
    """K1-okprogress: the refill loop of the decompressing stream calls process_data again and again while it answers
    XFRM_STREAM_OK.  That terminates only if 'OK' means that the transfer loop ran until the input or the output room was
    used up (or nothing more was possible).  An OK that is returned without having gone through that loop -- with input
    available and nothing consumed -- is handed the same bytes again forever."""
    from ..errflow import ret_sources
    n = 0
    for f in prog.slot_impls(("struct.xfrm_stream_t", "process_data")):
        if isinstance(f, ExternFn) or f.decl:
            continue
        f.build()
        chk.analysed(f)
        webs = set()
        for k in (2, 4):
            par = f.params[k]
            work = [par]
            webs.add(id(par))
            while work:
                v = work.pop()
                for u in f.uses.get(v, []):
                    if u.op in ("phi", "sub", "zext", "sext", "trunc") and id(u) not in webs:
                        webs.add(id(u))
                        work.append(u)
        # transfer loops: exit condition looks at the remaining input / output room
        tloops = []
        for (h, body) in f.loops:
            for b in body:
                t = b.term
                if t.op == "br" and len(t.x["succ"]) == 2 and any(s_ not in body for s_ in t.x["succ"]):
                    if any(id(x) in webs for x in backward_slice(t.ops[0], phi_control=True, limit=200)):
                        tloops.append((h, body))
        inst0 = "%s:%s" % (f.unit.src.split("/")[-1], f.name)
        for (v, b) in ret_sources(f):
            w = strip_casts(v)
            if not (w.is_const and w.is_int and w.sval == 0):
                continue
            n += 1
            inst = "%s:ok@%d" % (inst0, b.term.line or 0)
            # reached only by leaving a transfer loop (loop exit or a break out of its body)
            ok = any(any(p in body for p in _preds_closure(b, body)) for (h, body) in tloops)
            after = any(f.dominates(h, b) for (h, body) in tloops)
            if ok and after:
                chk.ok("K1-okprogress", inst, b.term, "'OK' is answered only after the transfer loop has run")
            else:
                chk.violation("K1-okprogress", inst, b.term, "process_data can answer XFRM_STREAM_OK without having entered its transfer "
                              "loop: with input left and nothing consumed, the caller's refill loop hands it the same bytes again and never ends")
    return n


def _preds_closure(b, body):
    """predecessors of b, looking through empty forwarding blocks"""
    out, stack, seen = [], list(b.preds), set()
    while stack:
        p = stack.pop()
        if p in seen:
            continue
        seen.add(p)
        out.append(p)
        if p not in body and len(p.insts) <= 2:
            stack.extend(p.preds)
    return out


def end_means_end_rule(chk, prog):
    """K1-end: a wrapper answers XFRM_STREAM_END only when the library said that the compressed stream (frame) is complete:
    the return of END is control dependent on the library call's own result.  Otherwise a stream whose tail is missing is
    declared complete as soon as the input runs out."""
    from ..errflow import ret_sources
    LIB = ("deflate", "inflate", "lzma_code", "BZ2_bzCompress", "BZ2_bzDecompress", "ZSTD_compressStream2", "ZSTD_decompressStream",
           "ZSTD_compressStream", "ZSTD_endStream")
    n = 0
    for f in prog.slot_impls(("struct.xfrm_stream_t", "process_data")):
        if isinstance(f, ExternFn) or f.decl:
            continue
        f.build()
        chk.analysed(f)
        libcalls = [c for (c, _ns) in lib_call_sites(prog, f, LIB)]
        inst = "%s:%s" % (f.unit.src.split("/")[-1], f.name)
        for (v, b) in ret_sources(f):
            w = strip_casts(v)
            if w.is_inst and w.op == "call" and w.callee:
                # `return restart_codec(s);` -- a static helper that can answer END stands for that answer
                h = prog.fn(w.callee, f.unit)
                if h is None or h.decl or h.unit is not f.unit or not any(
                        strip_casts(v2).is_const and strip_casts(v2).is_int and strip_casts(v2).sval == 1 for (v2, _b2) in ret_sources(h.build())):
                    continue
            elif not (w.is_const and w.is_int and w.sval == 1):
                continue
            n += 1
            dep = False
            for (cond, outcome, br) in f.guards_at(b):
                sl = backward_slice(cond, phi_control=True, limit=300)
                if any(x in libcalls for x in sl):
                    dep = True
            if dep:
                chk.ok("K1-end", inst, b.term, "END is answered under a condition on the library's own result")
            else:
                chk.violation("K1-end", inst, b.term, "XFRM_STREAM_END is answered as soon as the input is used up in a flushing mode, "
                              "without looking at what the library returned: a frame whose end is missing is declared complete")
    return n


def truncated_rule(chk, prog):
    """K1-truncated: when the wrapped (compressed) stream is at its end, the decompressing stream reports a regular end of
    file only if the codec has finished its member: there is an error return that depends on both 'wrapped stream at end'
    and 'process_data did not answer XFRM_STREAM_END'"""
    from ..errflow import ret_sources
    n = 0
    for f in prog.functions():
        if f.decl or f.unit.src != "lib/xfrm/src/istream.c":
            continue
        f.build()
        pd = [c for c in f.calls() if slot_call(c) == ("struct.xfrm_stream_t", "process_data")]
        gb = [c for c in f.calls() if slot_call(c) == ("struct.sqfs_istream_t", "get_buffered_data")]
        if not pd or not gb:
            continue
        n += 1
        chk.analysed(f)
        ok = None
        for (v, b) in ret_sources(f):
            w = strip_casts(v)
            if not (w.is_const and w.is_int and w.sval < 0):
                continue
            on_end = on_eof = False
            facts = list(f.guards_at(b))
            for (cond, outcome, br) in facts:
                sl = backward_slice(cond, phi_control=True, limit=300)
                if any(x is pd[0] for x in sl) and any(x.is_inst and x.op == "icmp" and x.ops[1].is_const and x.ops[1].is_int and
                                                        x.ops[1].sval > 0 and strip_casts(x.ops[0]) is pd[0] for x in sl):
                    on_end = True
                if any(x is gb[0] for x in sl):
                    on_eof = True
                # the test may sit in a static predicate that is handed both results
                for hc in [x for x in [cond] + list(sl) if x.is_inst and x.op == "call" and x.callee]:
                    h = prog.fn(hc.callee, f.unit)
                    if h is None or h.decl or h.unit is not f.unit:
                        continue
                    h.build()
                    for k, a in enumerate(hc.ops[:len(h.params)]):
                        asl = [a] + list(backward_slice(a, phi_control=True, limit=300))
                        tests = [x for x in h.insts() if x.op == "icmp" and strip_casts(x.ops[0]).is_arg and
                                 strip_casts(x.ops[0]).idx == k]
                        if any(x is pd[0] for x in asl) and any(t.ops[1].is_const and t.ops[1].is_int and t.ops[1].sval > 0 for t in tests):
                            on_end = True
                        if any(x is gb[0] for x in asl) and tests:
                            on_eof = True
            if on_end and on_eof:
                ok = b
        inst = "%s:eof" % f.name
        if ok is not None:
            chk.ok("K1-truncated", inst, ok.term, "an error is returned when the input ends and the codec has not reported the end of its member")
        else:
            chk.violation("K1-truncated", inst, pd[0], "when the compressed input ends, the stream reports a regular end of file without "
                          "asking whether the codec reached the end of its member: a truncated archive is accepted as a shorter one")
    return n


def error_now_rule(chk, prog):
    """a codec error is reported by the very call that observed it: in the decompressing stream (and the compressing one)
    the edge on which process_data answered XFRM_STREAM_ERROR cannot reach 'return 0' -- data decoded before the error must
    not be handed out as good, the consumer may stop reading (end-of-archive marker) before it ever asks again"""
    from ..errflow import ret_sources
    n = 0
    for f in prog.functions():
        if f.decl or not f.unit.src.startswith("lib/xfrm/src/") or "stream" not in f.unit.src:
            continue
        f.build()
        for c in f.calls():
            if slot_call(c) != ("struct.xfrm_stream_t", "process_data"):
                continue
            edges = []
            for u in f.uses.get(c, []):
                if u.op != "icmp" or not (u.ops[1].is_const and u.ops[1].is_int):
                    continue
                k = u.ops[1].sval
                for br in f.uses.get(u, []):
                    if br.op != "br" or len(br.x["succ"]) != 2:
                        continue
                    if u.pred == "eq" and k < 0:
                        edges.append(br.x["succ"][0])
                    elif u.pred == "ne" and k < 0:
                        edges.append(br.x["succ"][1])
                    elif u.pred == "slt" and k == 0:
                        edges.append(br.x["succ"][0])
                    elif u.pred == "sge" and k == 0:
                        edges.append(br.x["succ"][1])
            n += 1
            chk.analysed(f)
            inst = "%s:process_data" % f.name
            if not edges:
                chk.violation("K1-errnow", inst, c, "the result of process_data is never compared with the error code")
                continue
            zero = {b for (v, b) in ret_sources(f) if strip_casts(v).is_const and strip_casts(v).is_int and strip_casts(v).sval == 0}
            bad = None
            for e in edges:
                seen, stack = set(), [e]
                while stack and bad is None:
                    b = stack.pop()
                    if b in seen:
                        continue
                    seen.add(b)
                    if b in zero:
                        bad = b
                    stack.extend(b.succs)
            if bad is None:
                chk.ok("K1-errnow", inst, c, "from the edge where the codec reported an error no 'return 0' is reachable")
            else:
                chk.violation("K1-errnow", inst, bad.term, "after process_data reported an error the function can still return 0 (success): "
                              "output decoded before the error is handed out as good data and the error is deferred to a call that may never come")
    return n


def _fields(v):
    from ..effects import fields_in_slice
    return fields_in_slice(v)


def _const_bytes(f, v):
    """bytes of a constant string operand (with its terminator), None if it is not one"""
    v = strip_casts(v)
    if v.is_inst and v.op == "getelementptr" and all((el[0] in ("*", "[]") and el[1].is_const and el[1].sval == 0) for el in v.x["gep"]):
        v = strip_casts(v.ops[0])
    if v.is_const and getattr(v, "gname", None):
        g = f.unit.globals.get(v.gname)
        if g and g.get("init") and g["init"][0] == "s":
            return bytes(x & 0xFF for x in g["init"][1])
    return None


def probe_magic_rule(chk, prog):
    """K12-probemagic (sibling agreement): the probe that decides 'this is plain tar, do not look for a compressor' accepts
    every header the header reader accepts.  Both compare the magic member with constant strings; for each variant the
    reader knows (a non-empty constant compared with tar_header_t.magic), the bytes the probe compares at that offset are
    a prefix of it.  A probe that is stricter than the reader sends valid archives of that flavour to the magic number
    detection, where a member name decides what happens."""
    st = prog.struct("struct.tar_header_t")
    if st is None:
        chk.broke("struct tar_header_t not found")
        return 0
    moff = [e["off"] for e in st["elems"] if e.get("n") == "magic"]
    if not moff:
        chk.broke("tar_header_t has no member 'magic'")
        return 0
    moff = moff[0]
    variants, probes = [], []
    # the probe side: the function that sniffs the input (it asks xfrm_compressor_id_from_magic) and what it calls in its unit
    probe_fns = set()
    for f in prog.functions():
        if not f.decl and any(norm_callee(c.callee) == "xfrm_compressor_id_from_magic" for c in f.build().calls()):
            cl, _e, _u = prog.reachable_from([f], stop=lambda g, u=f.unit: g.unit is not u)
            probe_fns |= set(cl)
    for f in prog.functions():
        if f.decl or not f.unit.src.startswith("lib/tar/src/"):
            continue
        for c in f.build().calls():
            if norm_callee(c.callee) not in ("memcmp", "strncmp", "bcmp") or len(c.ops) < 3:
                continue
            ln = c.ops[2]
            if not (ln.is_const and ln.is_int):
                continue
            for a, b in ((c.ops[0], c.ops[1]), (c.ops[1], c.ops[0])):
                k = _const_bytes(f, b)
                if k is None:
                    continue
                p_ = strip_casts(a)
                q_ = p_
                while q_.is_inst and q_.op == "getelementptr" and not q_.field():
                    q_ = strip_casts(q_.ops[0])         # array decay in front of the member access
                if q_.is_inst and q_.op == "getelementptr" and q_.field() and q_.field()[1] == "magic" and "tar_header_t" in q_.field()[0]:
                    if any(k[:ln.uval]):
                        (probes if f in probe_fns else variants).append((f, c, (k + bytes(16))[:ln.uval]))
                else:
                    base, off, exact = resolve_ptr(prog, a, f.unit)
                    bb = strip_casts(base)
                    # raw bytes of a buffer at the offset of the magic (directly or through a phi that skips a leading record)
                    if exact and off == moff and (bb.is_arg or (bb.is_inst and bb.op in ("phi", "load"))):
                        probes.append((f, c, (k + bytes(16))[:ln.uval]))
                    elif bb.is_inst and bb.op == "phi" and not exact:
                        pass
    if not probes:
        # data + offset with a variable that holds offsetof(magic)
        for f in prog.functions():
            if f.decl or not f.unit.src.startswith("lib/tar/src/"):
                continue
            for c in f.calls():
                if norm_callee(c.callee) not in ("memcmp", "strncmp", "bcmp") or len(c.ops) < 3 or not (c.ops[2].is_const and c.ops[2].is_int):
                    continue
                for a, b in ((c.ops[0], c.ops[1]), (c.ops[1], c.ops[0])):
                    k = _const_bytes(f, b)
                    p_ = strip_casts(a)
                    if k is None or not (p_.is_inst and p_.op == "getelementptr"):
                        continue
                    idx = [el[1] for el in p_.x["gep"] if el[0] in ("*", "[]")]
                    if any(x.is_const and x.is_int and x.sval == moff for i_ in idx for x in [i_] + list(backward_slice(i_, phi_control=False))):
                        probes.append((f, c, (k + bytes(16))[:c.ops[2].uval]))
    n = 0
    if not variants:
        chk.broke("the header reader compares tar_header_t.magic with no constant")
        return 0
    if not probes:
        chk.broke("no probe compares raw bytes at the offset of the magic with a constant")
        return 0
    for (pf, pc, pk) in probes:
        chk.analysed(pf)
        n += 1
        inst = "%s:magic@%d" % (pf.name, pc.line)
        bad = [(vf, vc, vk) for (vf, vc, vk) in variants if not (len(pk) <= len(vk) and vk[:len(pk)] == pk)]
        if not bad:
            chk.ok("K12-probemagic", inst, pc, "the %d bytes the probe compares are a prefix of each of the %d magic strings the header "
                   "reader accepts" % (len(pk), len(variants)))
        else:
            chk.violation("K12-probemagic", inst, pc, "the probe compares %r (%d bytes) at the offset of the magic, the header reader (%s, "
                          "line %d) also accepts %r: archives of that flavour fail the probe and are handed to the compressor "
                          "detection, where the first member's name decides whether they are read at all"
                          % (pk, len(pk), bad[0][0].name, bad[0][1].line, bad[0][2]))
    return n


PARTIAL_RESET = {"inflateResetKeep": "inflateReset", "deflateResetKeep": "deflateReset"}


def full_reset_rule(chk, prog):
    """K3-fullreset (who-may-call): between two members of a compressed stream, and between two blocks, the codec starts
    from nothing.  The library calls that restart a stream but keep its history window (inflateResetKeep,
    deflateResetKeep) are not used anywhere: with them a member can refer to the bytes of the member before it, and a
    crafted or damaged member that does so is unpacked instead of being refused."""
    n = 0
    restarts = 0
    for f in prog.functions():
        if f.decl or "/test/" in f.unit.src:
            continue
        for c in f.build().calls():
            nm = norm_callee(c.callee) if c.callee else None
            if nm in PARTIAL_RESET:
                n += 1
                chk.analysed(f)
                chk.violation("K3-fullreset", "%s:%s@%d" % (f.name, nm, c.line), c, "%s keeps the history window of the stream that just "
                              "ended: the next member (or block) is unpacked against the previous one's bytes; %s starts from "
                              "nothing" % (nm, PARTIAL_RESET[nm]))
            elif nm in PARTIAL_RESET.values():
                restarts += 1
                n += 1
                chk.analysed(f)
                chk.ok("K3-fullreset", "%s:%s@%d" % (f.name, nm, c.line), c, "full reset")
    if restarts == 0:
        chk.broke("K3-fullreset: no zlib stream is restarted with inflateReset/deflateReset any more")
    return n


def probe_rule(chk, prog):
    """K12-probe: compressed input is recognised whatever its length.  In the function that sniffs the input and wraps it
    in a decompressing stream, no condition on the number of bytes the peek delivered stands between the peek and the
    call that recognises the magic numbers: that call (and the tar probe in front of it) look at the length themselves,
    a threshold in the caller sends short compressed archives down the uncompressed path (read as an empty archive)."""
    n = 0
    for f in prog.functions():
        if f.decl:
            continue
        det = [c for c in f.calls() if norm_callee(c.callee) == "xfrm_compressor_id_from_magic"]
        if not det:
            continue
        f.build()
        wraps = [c for c in f.calls() if norm_callee(c.callee) in ("istream_xfrm_create", "decompressor_stream_create")]
        if not wraps:
            # the sniffing may sit in a static helper of the function that wraps the stream
            for cs in prog.callers_of(f):
                if cs.fn.unit is f.unit:
                    wraps += [c for c in cs.fn.build().calls()
                              if norm_callee(c.callee) in ("istream_xfrm_create", "decompressor_stream_create")]
        if not wraps:
            continue
        for d in det:
            n += 1
            chk.analysed(f)
            inst = "%s:detect@%d" % (f.name, d.line)
            # the length handed to the detector: a local filled by the peek
            ln = d.ops[1] if len(d.ops) >= 2 else None
            loc = None
            x = ln
            while x is not None and x.is_inst and x.op in ("zext", "sext", "trunc"):
                x = x.ops[0]
            if x is not None and x.is_inst and x.op == "load":
                loc = strip_casts(x.ops[0])
            bad = None
            for (cond, outcome, br) in f.guards_at(d.bb):
                if not (cond.is_inst and cond.op == "icmp"):
                    continue
                for o in cond.ops:
                    y = o
                    while y.is_inst and y.op in ("zext", "sext", "trunc"):
                        y = y.ops[0]
                    if loc is not None and y.is_inst and y.op == "load" and strip_casts(y.ops[0]) is loc:
                        k = [z for z in cond.ops if z.is_const and z.is_int]
                        if k and k[0].uval > 8:
                            bad = (br, k[0].uval)
            if bad is None:
                chk.ok("K12-probe", inst, d, "no length threshold between the peek and the magic number detection")
            else:
                chk.violation("K12-probe", inst, bad[0], "the magic number detection is only reached when the peek delivered at least "
                              "%d bytes: a compressed archive shorter than that is passed on as plain tar (and read as an empty or "
                              "garbled archive) although the detector itself needs a few bytes only" % bad[1])
    if n == 0:
        chk.broke("no function sniffs the input with xfrm_compressor_id_from_magic and wraps it")
    return n


def run(chk):
    chk.explanation = (
        "Structural clauses of the stream-compression wrappers, decided on LLVM IR: (K-codec) for every "
        "xfrm_stream_t.process_data implementation the set of documented library return codes for which the wrapper "
        "loops and calls the codec again is computed by branch evaluation over the codes and must be within the "
        "library's 'progress' codes -- an error or no-progress code that re-enters the loop is an endless loop on "
        "corrupted input; (K10-offsets) *in_read/*out_written accumulate the codec's own counters; (K12-finish) the "
        "flush-mode tables map FLUSH_FULL to Z_FINISH/LZMA_FINISH/ZSTD_e_end/BZ_FINISH; (K1-trailer) flushing the "
        "compressing ostream finishes the codec stream before flushing the wrapped stream and sqfs2tar reports success "
        "only after that flush; (K2-codec-table) every detectable compressor has both constructors. Equality of decoded "
        "streams, concatenated members and detection of truncated input are value-level / library behaviour and are "
        "not decided. K12-probemagic: the probe that decides 'plain tar' accepts every magic string the header reader accepts (constants compared on both sides). The partial-transfer rules of C12 (K10-loop, K10-eintr, K10-zero, K10-advance, K10-exit at every raw read/write of the tar2sqfs closure) and the archive layer's T1/T2 (end of input inside a record or a member is an error) are run here too: they are what 'any pipe chunking' and 'truncated input is an error' rest on below and above the wrappers.")
    chk.assumptions = ["return-code sets and 'finish' constants of zlib, liblzma, libbz2, libzstd as documented"]
    prog = load_program("tar2sqfs")
    codec_rule(chk, prog)
    offsets_rule(chk, prog)
    tables_rule(chk, prog)
    trailer_rule(chk, load_program("sqfs2tar"))
    member_rule(chk, prog)
    probe_rule(chk, prog)
    probe_magic_rule(chk, prog)
    chk.floor("K12-probemagic", 1)
    full_reset_rule(chk, prog)
    chk.floor("K3-fullreset", 2)
    chk.floor("K12-probe", 1)
    pending_invariant_rule(chk, load_program("sqfs2tar"))
    truncated_rule(chk, prog)
    chk.floor("K1-truncated", 1)
    end_means_end_rule(chk, prog)
    chk.floor("K1-end", 4)
    ok_progress_rule(chk, prog)
    chk.floor("K1-okprogress", 4)
    finish_reachable_rule(chk, load_program("sqfs2tar"))
    chk.floor("K1-finish", 4)
    error_now_rule(chk, load_program("tar2sqfs"))
    error_now_rule(chk, load_program("sqfs2tar"))
    chk.floor("K1-errnow", 2)
    # what the wrappers sit on and what sits on them (the rules of C12 for the tar2sqfs input path): the file / pipe stream
    # fills its buffer in a loop over short reads, so the one peek that picks the codec sees the magic however the pipe cuts
    # it; the archive layer takes end of input inside a member for an error
    from .c12 import partial_transfer
    partial_transfer(chk, prog)
    from ..tarrules import t1_rule, t2_rule
    t1_rule(chk, prog)
    t2_rule(chk, prog)
    chk.floor("K10-loop", 4)
    chk.floor("K10-advance", 8)
    chk.floor("T1-eof", 1)
    chk.floor("T2-short", 5)
    chk.floor("K-codec", 4)
    chk.floor("K10-offsets", 6)
    chk.floor("K12-finish", 4)
    chk.floor("K2-codec-table", 4)
    chk.floor("K1-trailer", 3)
    chk.floor("K1-member", 1)
    chk.floor("K1-pending", 1)
