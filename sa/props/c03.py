"""C03 -- on-disk invariants of produced images: the checks the writer relies on are structural."""
from ..ir import load_program, strip_casts, norm_callee, ExternFn
from ..build import AnalysisBroken
from ..util import resolve_ptr, backward_slice, const_int
from ..effects import slot_call, fields_in_slice, success_points
from ..errflow import ret_sources
from ..bounds2 import Bounder, Cap
from ..k7 import run_k7

COMPRESS_CALLS = {"LZ4_compress_default", "LZ4_compress_HC", "ZSTD_compressCCtx", "lzma_stream_buffer_encode", "deflate",
                  "lzma_alone_encoder", "lzo1x_999_compress", "lzo1x_1_compress"}


def reaches_compress(prog, f, depth=0, seen=None):
    seen = seen or set()
    if f in seen or depth > 3:
        return False
    seen.add(f)
    for c in f.calls():
        if norm_callee(c.callee) in COMPRESS_CALLS:
            return True
        g = prog.fn(c.callee or "", f.unit) if c.callee else None
        if g is not None and not g.decl and g.internal and reaches_compress(prog, g.build(), depth + 1, seen):
            return True
    return False


def result_bounded(prog, f, size_param, depth=0, memo=None):
    """every value f can return is a negative/zero constant, or derivably <= its `size` parameter
    (through static helpers that receive the same size)  -> (ok, offending site, text)"""
    memo = memo if memo is not None else {}
    key = (f, size_param.idx)
    if key in memo:
        return memo[key]
    memo[key] = (True, None, "")
    B = Bounder(prog, f)
    leaves = []

    def expand(v, b, depth_=0):
        """judge the value as a whole first; split a phi/select into its arms only if that fails"""
        w = v
        while w.is_inst and w.op in ("trunc", "zext", "sext"):
            w = w.ops[0]
        if not w.is_const and depth_ > 0 and B.bounded(v, b.term, Cap(syms=[size_param], desc="input size")):
            return
        if w.is_inst and w.op == "phi" and depth_ < 6:
            for val, pred in zip(w.ops, w.x["inc"]):
                expand(val, pred, depth_ + 1)
        elif w.is_inst and w.op == "select" and depth_ < 6:
            expand(w.ops[1], b, depth_ + 1)
            expand(w.ops[2], b, depth_ + 1)
        else:
            leaves.append((v, b))
    for r in f.rets():
        if r.ops:
            expand(r.ops[0], r.bb)
    for (v, b) in leaves:
        vv = strip_casts(v)
        if vv.is_const:
            if vv.is_int and vv.sval > 0:
                memo[key] = (False, b.term, "returns the positive constant %d" % vv.sval)
                return memo[key]
            continue
        # known non-positive on this path?
        neg = False
        for cond, outcome, br in f.guards_at(b):
            if cond.is_inst and cond.op == "icmp" and strip_casts(cond.ops[0]) is vv and cond.ops[1].is_const and \
                    cond.ops[1].is_int and cond.ops[1].sval == 0:
                if (cond.pred == "slt" and outcome) or (cond.pred == "sle" and outcome) or (cond.pred == "sge" and not outcome) or \
                        (cond.pred == "sgt" and not outcome) or (cond.pred == "eq" and outcome):
                    neg = True
        if neg:
            continue
        Q = Cap(syms=[size_param], desc="input size")
        if B.bounded(v, b.term, Q):
            continue
        # per incoming edge: bounded there, or the edge is the uncompress side of a two-way implementation
        edges_ok = bool(b.preds)
        for p_ in b.preds:
            if B._bounded_on_edge(v, p_, b, Q, 0, set()):
                continue
            t_ = p_.term
            unc = False
            facts = list(f.guards_at(p_))
            if t_.op == "br" and len(t_.x["succ"]) == 2:
                facts.append((t_.ops[0], b is t_.x["succ"][0], t_))
            for cond, outcome, br in facts:
                flds = {n_ for (_s, n_) in fields_in_slice(cond)}
                if "compress" in flds:
                    # 'compress' flag known false on this edge
                    c0 = cond
                    pol = True
                    if c0.is_inst and c0.op == "icmp" and c0.ops[1].is_const and c0.ops[1].is_int and c0.ops[1].sval == 0:
                        pol = c0.pred == "ne"
                    if outcome != pol:
                        unc = True
            if not unc:
                edges_ok = False
        if edges_ok:
            continue
        # result of a static helper that got the same size
        u = vv
        while u.is_inst and u.op in ("trunc", "zext", "sext"):
            u = u.ops[0]
        if u.is_inst and u.op == "call" and u.callee and depth < 3:
            g = prog.fn(u.callee, f.unit)
            if g is not None and not g.decl:
                g.build()
                from ..bounds import _uncast
                k = [i for i, a in enumerate(u.ops) if _uncast(a) is size_param]
                k = [i for i in k if i < len(g.params) and not g.params[i].ty.endswith("*")]
                if k:
                    ok, site, txt = result_bounded(prog, g, g.params[k[0]], depth + 1, memo)
                    if ok:
                        continue
                    memo[key] = (False, site, "%s: %s" % (g.name, txt))
                    return memo[key]
        if u.is_inst and u.op == "phi":
            # 'smallest of several attempts': every incoming already judged through ret_sources expansion
            pass
        memo[key] = (False, b.term, "returns a value that is never compared with the input size")
        return memo[key]
    return memo[key]


def rule_compressor_contract(chk, prog):
    impls = sorted(prog.slot_impls(("struct.sqfs_compressor_t", "do_block")), key=lambda f: f.qname)
    n = 0
    for f in impls:
        f.build()
        if not reaches_compress(prog, f):
            continue
        n += 1
        chk.analysed(f)
        size = f.params[2]
        ok, site, txt = result_bounded(prog, f, size)
        if ok:
            chk.ok("K1-contract", f.name, f, "every positive result is compared with (and not larger than) the input size; otherwise 0")
        else:
            chk.violation("K1-contract", f.name, site or f, "compressor %s %s: a block that does not shrink is stored 'compressed' and "
                          "larger than its input, which the block processor and meta writer trust never to happen" % (f.name, txt))
    if n < 4:
        chk.broke("only %d compressing do_block implementations found" % n)


def rule_padding(chk, prog):
    """C03-b: the padding helper pads to a multiple of the device block size with a remainder operation, after the
    final superblock (ordering itself: C14)"""
    f = prog.need_fn("sqfs_writer_finish")
    pads = []
    for c in f.calls():
        g = prog.fn(c.callee or "", f.unit) if c.callee else None
        if g is not None and not g.decl and g.internal:
            g.build()
            if any(slot_call(x) == ("struct.sqfs_file_t", "write_at") for x in g.calls()):
                pads.append((c, g))
    if not pads:
        chk.violation("K13-padding", "sqfs_writer_finish", f, "no padding helper is called: the image is not padded to the device block size")
        return
    for (c, g) in pads:
        chk.analysed(g)
        w = [x for x in g.calls() if slot_call(x) == ("struct.sqfs_file_t", "write_at")][0]
        n = w.ops[3]
        sl = backward_slice(n)
        rem = [x for x in sl if x.is_inst and x.op == "urem"]
        blk = [x for x in sl if x.is_arg]
        okrem = any(any(a.is_arg for a in backward_slice(r.ops[1])) for r in rem)
        masks = [x for x in sl if x.is_inst and x.op == "and"]
        if okrem and not masks:
            chk.ok("K13-padding", g.name, w, "pad length = blocksize - (size % blocksize), for any block size")
        else:
            chk.violation("K13-padding", g.name, w, "the padding length is not computed with a remainder by the device block size "
                          "(e.g. a power-of-two mask): for other -B values the file is not a multiple of the block size")
        # devblksize is what the caller passes
        a = c.ops[-1]
        if any(n_ == "devblksize" for (_s, n_) in fields_in_slice(a)):
            chk.ok("K13-padding", "sqfs_writer_finish:arg", c, "padded to cfg->devblksize")
        else:
            chk.violation("K13-padding", "sqfs_writer_finish:arg", c, "padding is not done to the configured device block size")


def rule_meta_block_limit(chk, prog):
    """metadata blocks: the meta writer never stores more than 8 KiB per block and falls back to the uncompressed
    form when compression does not shrink the block"""
    f = prog.need_fn("sqfs_meta_writer_flush")
    chk.analysed(f)
    db = [c for c in f.calls() if slot_call(c) == ("struct.sqfs_compressor_t", "do_block")]
    ok = False
    for c in db:
        for u in f.uses.get(c, []):
            if u.op == "icmp" and u.ops[1].is_const and u.ops[1].is_int and u.ops[1].sval == 0 and u.pred in ("sgt", "sle", "eq", "ne", "slt"):
                ok = True
    stores_flag = any(i.op in ("or", "store") and any(o.is_const and o.is_int and o.uval == 0x8000 for o in i.ops) for i in f.insts())
    if db and ok and stores_flag:
        chk.ok("K1-metablock", "sqfs_meta_writer_flush", db[0], "a block that does not compress is written raw with the 0x8000 marker")
    else:
        chk.violation("K1-metablock", "sqfs_meta_writer_flush", f, "the meta writer no longer falls back to the uncompressed form")
    g = prog.need_fn("sqfs_meta_writer_append")
    chk.analysed(g)
    lim = any(i.op == "icmp" and any(o.is_const and o.is_int and o.uval == 8192 for o in i.ops) for i in g.insts()) or \
        any(i.op == "sub" and any(o.is_const and o.is_int and o.uval == 8192 for o in i.ops) for i in g.insts())
    if lim:
        chk.ok("K1-metablock", "sqfs_meta_writer_append", g, "data is cut at the 8 KiB metadata block size")
    else:
        chk.violation("K1-metablock", "sqfs_meta_writer_append", g, "no 8 KiB limit in the meta writer's append")


def rule_index_position(chk, prog):
    """K11-indexpos: a directory index entry names the metadata block its header starts in.  The block number stored
    for the index (the field that receives the out-value of sqfs_meta_writer_get_position in dir_writer.c) is queried
    *before* the header is appended: appending can flush the block and move the position on, so a position taken
    afterwards is one block too far for a header that straddles a block boundary."""
    from ..util import backward_slice
    unit = prog.by_src.get("lib/sqfs/src/dir_writer.c")
    if unit is None:
        raise AnalysisBroken("dir_writer.c not in the closure")
    fns = [f.build() for f in unit.functions.values() if not f.decl]
    # position queries and the field their block out-value ends up in
    sites = []      # (function holding the query, query call)
    stores = []
    for f in fns:
        for c in f.calls():
            if norm_callee(c.callee) != "sqfs_meta_writer_get_position" or len(c.ops) < 2:
                continue
            loc = strip_casts(c.ops[1])
            if not (loc.is_inst and loc.op == "alloca"):
                continue
            loads = [u for u in f.uses.get(loc, []) if u.op == "load"]

            def follow(g, v, depth):
                """stores of v (or of what it is handed on as) into a field of a file-local structure"""
                out = []
                if depth > 3:
                    return out
                g.build()
                for u in g.uses.get(v, []):
                    if u.op in ("zext", "sext", "trunc", "bitcast"):
                        out += follow(g, u, depth)
                    elif u.op == "store" and u.ops[0] is v and strip_casts(u.ops[1]).is_inst and \
                            strip_casts(u.ops[1]).op == "getelementptr" and strip_casts(u.ops[1]).field() and \
                            not strip_casts(u.ops[1]).field()[0].startswith("struct.sqfs_"):
                        out.append((g, u))
                    elif u.op == "call" and u.callee:
                        t = prog.fn(u.callee, unit)
                        if t is None or t.decl or t.unit is not unit:
                            continue
                        t.build()
                        for i_, o in enumerate(u.ops):
                            if o is v and i_ < len(t.params):
                                out += follow(t, t.params[i_], depth + 1)
                return out
            for ld in loads:
                for (g, st) in follow(f, ld, 0):
                    sites.append((f, c, g, st))
    if not sites:
        chk.broke("dir_writer.c: no position query feeds an index entry")
        return 0
    # header appends: sqfs_meta_writer_append of a 12 byte local (the directory header)
    def header_appends(f):
        out = []
        for c in f.calls():
            if norm_callee(c.callee) == "sqfs_meta_writer_append" and len(c.ops) >= 3 and c.ops[2].is_const and c.ops[2].is_int:
                src = strip_casts(c.ops[1])
                if src.is_inst and src.op == "alloca" and c.ops[2].uval == 12:
                    out.append(c)
        return out
    n = 0
    for (f, q, g, st) in sites:
        n += 1
        chk.analysed(f)
        inst = "%s:index-block@%d" % (g.name, st.line)
        # events in f: the query q, and everything that appends a header (directly or in a callee)
        bad = None
        for c in f.calls():
            app = []
            if c in header_appends(f):
                app = [c]
            elif c.callee:
                t = prog.fn(c.callee, unit)
                if t is not None and not t.decl and t.unit is unit and header_appends(t.build()):
                    app = [c]
            for a in app:
                # the header of this round must come after the query: the append must not run before the query in
                # the same round (a dominates q inside the loop body)
                if f.inst_dominates(a, q):
                    bad = a
        # the query sits in a helper that is called after the helper that appends
        if g is not f and not header_appends(f):
            pass
        if f is not None and bad is None:
            # query inside a function that is itself called after a header append by its caller
            for cs in prog.callers_of(f):
                h = cs.fn
                h.build()
                for c in h.calls():
                    t = prog.fn(c.callee, unit) if c.callee else None
                    if t is not None and not t.decl and t.unit is unit and t is not f and header_appends(t.build()):
                        if h.inst_dominates(c, cs):
                            bad = c
        if bad is None:
            chk.ok("K11-indexpos", inst, st, "the position stored for the index is queried before the header is appended")
        else:
            chk.violation("K11-indexpos", inst, bad, "the metadata writer's position is queried after the header was appended "
                          "(line %d before line %d): when the header straddles a block boundary the index entry points one "
                          "block too far" % (bad.line, q.line))
    return n


def _inode_type_values():
    from ..controls import control_program
    import os
    from ..build import repo_root
    prog = control_program("c03_enums.c", flags=("-I" + os.path.join(repo_root(), "include"),))
    vals = None
    for unit in prog.by_src.values():
        g = unit.globals.get("verif_inode_types")
        if g and g.get("init"):
            vals = g["init"]
    if vals is None:
        raise AnalysisBroken("could not evaluate the SQFS_INODE_* enumerators")
    flat = []

    def walk(x):
        if isinstance(x, (list, tuple)):
            for y in x:
                walk(y)
        elif isinstance(x, int):
            flat.append(x)
    walk(vals[1:] if isinstance(vals[0], str) else vals)
    names = ["DIR", "FILE", "SLINK", "BDEV", "CDEV", "FIFO", "SOCKET", "EXT_DIR", "EXT_FILE"]
    return dict(zip(names, flat))


def rule_file_nlink(chk, prog):
    """K12-nlink: the inode of a regular file comes ready-made from the block processor, basic or extended.  On every
    path from taking it over to writing it out, the extended layout's link count is set from the tree node -- except on
    paths on which the inode is known to be a basic file inode (which has no such field).  An extended file inode
    (sparse or large file) that is a hard link target would otherwise keep nlink = 1."""
    from .c13 import _e7_walk
    T = _inode_type_values()
    n = 0

    class _S:
        pass
    for f in prog.functions():
        if f.decl or not f.unit.src.startswith("lib/common/src/writer/"):
            continue
        f.build()
        # the link count is the first 32 bit member of the extended file inode (three 64 bit members come first);
        # DWARF member names are not reliable for the members of the inode union
        nl_idx = None
        st_ = prog.struct("struct.sqfs_inode_file_ext_t")
        if st_ is not None:
            for k_, e_ in enumerate(st_["elems"]):
                if e_["sz"] == 4:
                    nl_idx = k_
                    break
        if nl_idx is None:
            raise AnalysisBroken("layout of sqfs_inode_file_ext_t not found")

        def is_nlink(q):
            fl = q.fields() or []
            return bool(fl) and fl[-1][0].startswith("struct.sqfs_inode_file_ext_t") and fl[-1][1] in ("nlink", "#%s" % nl_idx)
        takes = [i for i in f.insts() if i.op == "load" and i.ty.endswith("struct.sqfs_inode_generic_t*") and
                 strip_casts(i.ops[0]).is_inst and strip_casts(i.ops[0]).op == "getelementptr" and
                 [fl[1] for fl in (strip_casts(i.ops[0]).fields() or [])][-1:] == ["inode"] and
                 "tree_node" not in (strip_casts(i.ops[0]).fields() or [("", "")])[-1][0].replace("struct.anon", "")]
        writes = [c for c in f.calls() if norm_callee(c.callee) == "sqfs_meta_writer_write_inode"]
        if not takes or not writes:
            continue
        for tk in takes:
            n += 1
            chk.analysed(f)
            inst = "%s:file-inode@%d" % (f.name, tk.line)
            st = _S()
            st.bb = tk.bb
            bad = None
            for (v, r, path) in _e7_walk(prog, f, st, None, [], set()):
                if not any(w.bb in path for w in writes):
                    continue
                cut = max(path.index(w.bb) for w in writes if w.bb in path)
                stored = known_basic = False
                for k in range(cut + 1):
                    b = path[k]
                    for i in b.insts:
                        if i.op == "store":
                            q = strip_casts(i.ops[1])
                            if q.is_inst and q.op == "getelementptr" and is_nlink(q):
                                stored = True
                    t = b.term
                    if k < cut and t.op == "br" and len(t.x["succ"]) == 2 and t.ops[0].is_inst and t.ops[0].op == "icmp" and \
                            t.ops[0].pred in ("eq", "ne"):
                        c0 = t.ops[0]
                        k0 = [o for o in c0.ops if o.is_const and o.is_int]
                        ty = [x for x in backward_slice(c0, phi_control=False, limit=20) if x.is_inst and x.op == "load" and
                              strip_casts(x.ops[0]).is_inst and strip_casts(x.ops[0]).op == "getelementptr" and
                              [fl[1] for fl in (strip_casts(x.ops[0]).fields() or [])][-1:] == ["type"]]
                        if k0 and ty and k0[0].uval == T["FILE"]:
                            took_true = path[k + 1] is t.x["succ"][0]
                            if took_true == (c0.pred == "eq"):
                                known_basic = True
                if not stored and not known_basic:
                    bad = r
                    break
            if bad is None:
                chk.ok("K12-nlink", inst, tk, "the link count reaches the extended file inode on every path on which the inode is "
                       "not known to be a basic one")
            else:
                chk.violation("K12-nlink", inst, tk, "a regular file's inode can be written out without its link count having been "
                              "set, on a path on which it may be an extended inode (sparse or large file): a hard-linked sparse "
                              "file keeps nlink = 1")
    return n


def rule_not_full(chk, prog):
    """K13-notfull: between two calls of the block processor's append, and when the file is ended, the current block is
    never full: ending a file turns whatever is left in it into a tail end (fragment), so a block that was filled
    exactly by the last append has to be submitted before append returns.  Every path from the store that grows the
    current block's size to a successful return passes a comparison of the block's size with the maximum block size."""
    from .c13 import _e7_walk
    n = 0

    class _S:
        pass

    def fld_last(v):
        q = strip_casts(v)
        if q.is_inst and q.op == "getelementptr" and q.fields():
            return q.fields()[-1]
        return None
    for f in prog.functions():
        if f.decl or not f.unit.src.startswith("lib/sqfs/src/block_processor/"):
            continue
        f.build()
        grows = []
        for i in f.insts():
            if i.op == "store" and (fld_last(i.ops[1]) or ("", ""))[1] == "size" and \
                    (fld_last(i.ops[1]) or ("", ""))[0].startswith("struct.sqfs_block_t"):
                v = i.ops[0]
                sl = [v] + list(backward_slice(v, phi_control=False, limit=30))
                if any(x.is_inst and x.op == "add" for x in sl) and any(
                        x.is_inst and x.op == "load" and (fld_last(x.ops[0]) or ("", ""))[1] == "size" for x in sl):
                    # the block is the processor's current block
                    base = [x for x in backward_slice(i.ops[1], phi_control=False, limit=30) if x.is_inst and x.op == "load" and
                            (fld_last(x.ops[0]) or ("", ""))[1] == "blk_current"]
                    if base:
                        grows.append(i)
        for g in grows:
            n += 1
            chk.analysed(f)
            inst = "%s:blk_current.size@%d" % (f.name, g.line)
            st = _S()
            st.bb = g.bb
            bad = None
            for (v, r, path) in _e7_walk(prog, f, st, None, [], set()):
                if not (v.is_const and v.is_int and v.sval == 0):
                    continue
                tested = False
                for k, b in enumerate(path):
                    t = b.term
                    if t.op == "br" and len(t.x["succ"]) == 2 and t.ops[0].is_inst and t.ops[0].op == "icmp":
                        if k == 0 and t.pos < g.pos:
                            continue
                        def direct(o):
                            while o.is_inst and o.op in ("zext", "sext", "trunc"):
                                o = o.ops[0]
                            if o.is_inst and o.op == "load":
                                return (fld_last(o.ops[0]) or ("", ""))[1], o
                            return None, None
                        (na, la), (nb, lb) = direct(t.ops[0].ops[0]), direct(t.ops[0].ops[1])
                        names = {na, nb}
                        fresh = all(l is None or k > 0 or l.pos > g.pos for l in (la, lb))
                        if names == {"size", "max_block_size"} and fresh:
                            tested = True
                if not tested:
                    bad = r
                    break
            if bad is None:
                chk.ok("K13-notfull", inst, g, "after the current block has grown, its size is compared with the block size before "
                       "append returns")
            else:
                chk.violation("K13-notfull", inst, g, "append can return successfully right after growing the current block, without "
                              "looking whether it is full: a file that ends exactly there has its last full block turned into a "
                              "tail end (a block-sized 'fragment', block list one entry short)")
    return n


def _same_value(a, b, prog=None, f=None, depth=0):
    """the same expression, structurally (memory versions are not told apart: the rule asks whether two expressions are
    written the same way, not whether they evaluate to the same value)"""
    while a.is_inst and a.op in ("zext", "sext", "trunc", "bitcast"):
        a = a.ops[0]
    while b.is_inst and b.op in ("zext", "sext", "trunc", "bitcast"):
        b = b.ops[0]
    if a is b:
        return True
    if a.is_const or b.is_const:
        return a.is_const and b.is_const and a.is_int and b.is_int and a.sval == b.sval
    if prog is None and not (a.is_inst and b.is_inst and a.op == "load" and b.op == "load"):
        return False
    if depth > 6 or not (a.is_inst and b.is_inst) or a.op != b.op or len(a.ops) != len(b.ops):
        return False
    if a.op == "getelementptr":
        ga, gb = a.x.get("gep"), b.x.get("gep")
        if len(ga) != len(gb):
            return False
        for ea, eb in zip(ga, gb):
            if ea[0] != eb[0]:
                return False
            if ea[0] in ("*", "[]"):
                if not _same_value(ea[1], eb[1], prog, f, depth + 1):
                    return False
            elif ea[1:] != eb[1:]:
                return False
        return _same_value(a.ops[0], b.ops[0], prog, f, depth + 1)
    if a.op in ("load", "add", "sub", "mul", "shl", "lshr", "ashr", "and", "or", "xor", "udiv", "urem", "sdiv", "srem"):
        if all(_same_value(x, y, prog, f, depth + 1) for x, y in zip(a.ops, b.ops)):
            return True
        if a.op in ("add", "mul", "and", "or", "xor") and len(a.ops) == 2:
            return _same_value(a.ops[0], b.ops[1], prog, f, depth + 1) and _same_value(a.ops[1], b.ops[0], prog, f, depth + 1)
    return False


def _phi_leaves(phi):
    """(value, block it comes from) for every non-phi value that can flow into `phi` through a web of phis"""
    out, seen, work = [], {id(phi)}, [phi]
    while work:
        q = work.pop()
        for x, pb in zip(q.ops, q.x["inc"]):
            if x.is_inst and x.op == "phi":
                if id(x) not in seen:
                    seen.add(id(x))
                    work.append(x)
            else:
                out.append((x, pb))
    return out


def rule_append_same(chk, prog, units_prefix=("lib/sqfs/src/", "lib/common/src/")):
    """K12-appendsame (a contradiction rule): `if (v != list[i - 1]) list[i++] = w;` -- a value is appended to a list when it
    differs from the list's last element.  The value that is appended is the value that was compared: if the two are
    different expressions (a position in one coordinate system compared, the same position in another one stored), the
    comparison is always true or the list does not hold what its reader expects."""
    n = 0
    seen_local = set()
    for f in prog.functions():
        if f.decl or not f.unit.src.startswith(units_prefix) or "/test/" in f.unit.src:
            continue
        f.build()
        for st in f.insts():
            if st.op != "store" or st.ops[0].is_const:
                continue
            p = strip_casts(st.ops[1])
            if not (p.is_inst and p.op == "getelementptr"):
                continue
            idx = [el[1] for el in p.x["gep"] if el[0] in ("*", "[]") and not el[1].is_const]
            if len(idx) != 1:
                continue
            base = strip_casts(p.ops[0])
            for cond, outcome, br in f.guards_at(st.bb):
                if not (cond.is_inst and cond.op == "icmp" and cond.pred in ("ne", "eq") and outcome == (cond.pred == "ne")):
                    continue
                for (v, l) in ((cond.ops[0], cond.ops[1]), (cond.ops[1], cond.ops[0])):
                    ul = l
                    while ul.is_inst and ul.op in ("zext", "sext", "trunc"):
                        ul = ul.ops[0]
                    if ul.is_inst and ul.op == "phi" and (id(st), id(ul)) not in seen_local:
                        # the same idiom with the last element carried in a local: `if (v == last) continue; list[i++] = w;
                        # last = w;` -- the local is the list's last element iff what it takes over where the store happens
                        # is the value that is stored
                        for x, pb in _phi_leaves(ul):
                            if not f.dominates(st.bb, pb):
                                continue
                            if _same_value(x, st.ops[0], prog, f):
                                seen_local.add((id(st), id(ul)))
                                n += 1
                                chk.analysed(f)
                                inst = "%s:append@%d" % (f.name, st.line)
                                if _same_value(v, st.ops[0]):
                                    chk.ok("K12-appendsame", inst, st, "the value appended is the value that was compared with the last "
                                           "element (carried in a local)")
                                else:
                                    chk.violation("K12-appendsame", inst, st, "a value is compared with the last element of the list "
                                                  "(carried in a local) but a different expression is appended: the two are not in "
                                                  "the same coordinate system")
                                break
                        continue
                    if not (ul.is_inst and ul.op == "load"):
                        continue
                    q = strip_casts(ul.ops[0])
                    if not (q.is_inst and q.op == "getelementptr" and strip_casts(q.ops[0]) is base):
                        continue
                    qi = [el[1] for el in q.x["gep"] if el[0] in ("*", "[]") and not el[1].is_const]
                    if len(qi) != 1:
                        continue
                    # index of the compared element is the store's index minus one
                    a, b = strip_casts(qi[0]), strip_casts(idx[0])
                    prev = a.is_inst and a.op in ("sub", "add") and any(strip_casts(o) is b for o in a.ops) and \
                        any(o.is_const and o.is_int and o.sval in (1, -1) for o in a.ops)
                    if not prev:
                        continue
                    n += 1
                    chk.analysed(f)
                    inst = "%s:append@%d" % (f.name, st.line)
                    uv, uw = v, st.ops[0]
                    while uv.is_inst and uv.op in ("zext", "sext", "trunc"):
                        uv = uv.ops[0]
                    while uw.is_inst and uw.op in ("zext", "sext", "trunc"):
                        uw = uw.ops[0]
                    same = uv is uw or (uv.is_inst and uw.is_inst and uv.op == "load" and uw.op == "load" and
                                        strip_casts(uv.ops[0]) is strip_casts(uw.ops[0]))
                    if same:
                        chk.ok("K12-appendsame", inst, st, "the value appended is the value that was compared with the last element")
                    else:
                        chk.violation("K12-appendsame", inst, st, "a value is compared with the last element of the list but a different "
                                      "expression is appended: the two are not in the same coordinate system, so the test never "
                                      "sees an equal pair (or the list holds something else than what was tested)")
    return n


def rule_slot_number(chk, prog, table=("struct.fstree_t", "inodes"), num=("struct.tree_node_t", "inode_num")):
    """K12-slotnum: the inode table and the inode numbers are coupled (inodes[k]->inode_num == k + 1) and the code reads a
    node's number as its slot.  Where slots of the table are rewritten, the numbers of the nodes that moved are brought up to
    date before a number is read as a slot again: on every path from a store into a slot (or a memmove over the table) to the
    next read of a number that is used as an index or compared, the number is stored through the pointer that was put into
    the slot or through a pointer read from the table; after a memmove only the latter will do (one node's number does not
    renumber a range)."""
    def field_ptr(p, fld):
        p = strip_casts(p)
        return p.is_inst and p.op == "getelementptr" and p.field() == fld

    def slot_ptr(p):
        p = strip_casts(p)
        k = 0
        while p.is_inst and p.op == "getelementptr" and not p.field() and k < 4:
            b = strip_casts(p.ops[0])
            if b.is_inst and b.op == "load" and field_ptr(b.ops[0], table):
                return True
            p, k = b, k + 1
        return False

    def from_slot(v):
        v = strip_casts(v)
        return v.is_inst and v.op == "load" and slot_ptr(v.ops[0])

    n = 0
    for f in prog.functions():
        if f.decl or "/test/" in f.unit.src:
            continue
        f.build()
        moves = []
        for i in f.insts():
            if i.op == "store" and slot_ptr(i.ops[1]):
                moves.append((i, strip_casts(i.ops[0])))
            elif i.op == "call" and norm_callee(i.callee or "") in ("memmove", "memcpy") and i.ops and slot_ptr(i.ops[0]):
                moves.append((i, None))
        if not moves:
            continue
        # reads of a number that is used as a slot / compared
        uses = set()
        for i in f.insts():
            if i.op == "load" and field_ptr(i.ops[0], num):
                work, seen = [i], set()
                while work:
                    v = work.pop()
                    if id(v) in seen:
                        continue
                    seen.add(id(v))
                    for u in f.uses.get(v, []):
                        if u.op in ("zext", "sext", "trunc", "phi") or (u.op in ("add", "sub") and any(o.is_const for o in u.ops)):
                            work.append(u)
                        elif u.op == "icmp" or (u.op == "getelementptr" and any(o is v for o in u.ops[1:])):
                            uses.add(id(i))
        if not uses:
            continue
        for mv, val in moves:
            n += 1
            chk.analysed(f)
            inst = "%s:slot@%d" % (f.name, mv.line)

            def closes(i):
                if not (i.op == "store" and field_ptr(i.ops[1], num)):
                    return False
                b = strip_casts(strip_casts(i.ops[1]).ops[0])
                if from_slot(b):
                    return True
                return val is not None and (b is val or _same_value(b, val, prog, f))

            bad = None
            work, seenb = [(mv.bb, mv.pos + 1)], set()
            while work and bad is None:
                b, start = work.pop()
                closed = False
                for i in b.insts[start:]:
                    if closes(i):
                        closed = True
                        break
                    if id(i) in uses:
                        bad = i
                        break
                if closed or bad is not None:
                    continue
                for s_ in b.succs:
                    if s_ not in seenb:
                        seenb.add(s_)
                        work.append((s_, 0))
            if bad is None:
                chk.ok("K12-slotnum", inst, mv, "the number of what was moved is stored before a number is read as a slot again")
            else:
                chk.violation("K12-slotnum", inst, bad, "after %s at line %d a node's %s is read as its slot in '%s' although the "
                              "numbers of the nodes that moved have not been brought up to date: the slot is stale, a node is "
                              "left behind or stored twice" % ("the memmove over the table" if val is None else "the store into a slot",
                                                              mv.line, num[1], table[1]))
    return n


def rule_last_chunk(chk, prog, everywhere=False):
    """K13-lastchunk: a remainder is not a chunk length.  Where `x % N` (N a constant) flows into the byte count of a transfer
    (a metadata append, a copy, a write, padding), the function also compares that remainder with 0: an exact multiple has a
    remainder of 0, and what is meant is either "nothing more" (padding) or "a full chunk" (the last block of a table).
    Taken as it is for the last chunk, a table of exactly k * 8192 bytes loses its last block."""
    LEN_ARG = {"sqfs_meta_writer_append": 2, "memcpy": 2, "memmove": 2, "memset": 2, "sqfs_istream_skip": 1, "sqfs_istream_read": 2}
    n = 0
    for f in prog.functions():
        if f.decl or "/test/" in f.unit.src or not (everywhere or f.unit.src.startswith(("lib/sqfs/src/", "lib/common/src/", "lib/tar/src/"))):
            continue
        f.build()
        for r in f.insts():
            if r.op != "urem" or not (r.ops[1].is_const and r.ops[1].is_int and r.ops[1].uval >= 2):
                continue
            web, work = [r], [r]
            compared = False
            sink = None
            while work:
                v = work.pop()
                for u in f.uses.get(v, []):
                    if u.op in ("zext", "sext", "trunc", "phi", "select"):
                        if all(u is not w for w in web):
                            web.append(u)
                            work.append(u)
                    elif u.op == "icmp" and any(o.is_const and o.is_int and o.sval == 0 for o in u.ops):
                        compared = True
                    elif u.op == "call":
                        nm = norm_callee(u.callee) if u.callee else None
                        k = LEN_ARG.get(nm)
                        sc = slot_call(u)
                        if sc == ("struct.sqfs_ostream_t", "append"):
                            k = 2
                        elif sc == ("struct.sqfs_file_t", "write_at"):
                            k = 3
                        if k is not None and k < len(u.ops) and any(strip_casts(u.ops[k]) is w for w in web):
                            sink = u
            if sink is None:
                continue
            n += 1
            chk.analysed(f)
            inst = "%s:rem@%d" % (f.name, r.line)
            if compared:
                chk.ok("K13-lastchunk", inst, r, "the remainder is compared with 0 before it is used as a byte count")
            else:
                chk.violation("K13-lastchunk", inst, sink, "a remainder (x %% %d) is used as the byte count of a transfer without being "
                              "compared with 0: for an exact multiple the last chunk is empty instead of full" % r.ops[1].uval)
    return n


def run(chk):
    chk.explanation = (
        "The invariants themselves are predicates over image bytes (value-level). Decided: the structural checks the "
        "writer relies on. K1-contract: every compressing do_block implementation (followed through its static helpers) "
        "returns a positive value only where it was compared with, and is not larger than, the input size -- the contract "
        "the block processor and meta writer trust so that no block is stored larger than its input; K7: every narrowing "
        "store into an on-disk field on the writer path is range-proven, covered by a re-verified guard provider "
        "(directory header run limits incl. the exact 256-entry bound, id count, name length, device number, timestamps) "
        "or a reasoned exception; K13-padding: pad length is a remainder by cfg->devblksize; K1-metablock: 8 KiB limit "
        "and uncompressed fallback. Sortedness, dense inode numbering and reference resolution are "
        "not decided; of index placement only K11-indexpos (the block recorded for a directory index is queried before its header is appended). K13-truncate and K11-everyblock (shared with C08) decide two layout-consistency conditions of the block writer. 'Directory listings are strictly sorted': K2-sorted (siblings are linked into the tree at a position chosen by strcmp of the names, whatever order entries arrive in) and K2-exact (a length-limited name comparison also checks that the name ends there). K12-appendsame: a list that is appended to under 'differs from the last element' stores the value it compared. K12-slotnum: where slots of the inode table are rewritten (single stores, memmove), the numbers of the nodes that moved are stored before a node's number is read as its slot again (a necessary condition of dense numbering and of every reference resolving after hard links were reordered). K13-lastchunk: a remainder that is used as the byte count of a transfer is compared with 0 (an exact multiple has a full last chunk, not an empty one); K13-highwater as in C01.")
    chk.assumptions = ["superblock commit order and bytes_used are decided by the C14 check"]
    prog = load_program("gensquashfs")
    rule_compressor_contract(chk, prog)
    run_k7(chk, load_program("all"), "K7")
    rule_padding(chk, prog)
    rule_meta_block_limit(chk, prog)
    rule_index_position(chk, prog)
    rule_file_nlink(chk, prog)
    rule_not_full(chk, prog)
    chk.floor("K13-notfull", 1)
    rule_slot_number(chk, prog)
    chk.floor("K12-slotnum", 2)
    rule_last_chunk(chk, load_program("all"))
    from ..controls import control_program
    from ..report import Check
    sub = Check("C03-control", chk.tier)
    rule_last_chunk(sub, control_program("c03_controls.c"), everywhere=True)
    got = {(o["rule"], o["function"]) for o in sub.obl if o["verdict"] == "VIOLATED"}
    chk.control("K13-lastchunk", ("K13-lastchunk", "ctl_last_chunk_rem") in got, "remainder used as the length of the last chunk")
    chk.control("K13-lastchunk/silent", ("K13-lastchunk", "ctl_last_chunk_ok") not in got, "remainder compared with 0 must not be reported")
    # "inode ... tables parse": the list of block sizes behind a file inode is as long as the file needs, whatever order the
    # block processor records the sizes in (K13-highwater of C01)
    from .c01 import rule_highwater
    rule_highwater(chk, prog)
    chk.floor("K13-highwater", 1)
    chk.floor("K12-nlink", 1)
    from .c02 import rule_seqstamp
    rule_seqstamp(chk, prog)
    chk.floor("K11-seqstamp", 2)
    chk.floor("K11-indexpos", 1)
    chk.floor("K1-contract", 4)
    # "directory listings are strictly sorted": the writers emit the children lists of the tree as they are, so the tree
    # keeps siblings in strcmp order whatever order the entries arrive in (pack file lines and archive members come in
    # any order), and a lookup by name never takes a longer name for the one asked for (no two entries of one name)
    from .c11 import rule_sorted_tree, rule_exact_lookup
    rule_sorted_tree(chk, load_program("gensquashfs"))
    rule_exact_lookup(chk, load_program("gensquashfs"))
    chk.floor("K2-sorted", 1)
    rule_append_same(chk, load_program("gensquashfs"))
    chk.floor("K12-appendsame", 1)
    # the metadata writer's block buffer and its fill level (a writer-side buffer bound: what runs over the 8 KiB block
    # lands in the writer's own bookkeeping and is then written out as metadata)
    from ..slack import run_fill
    run_fill(chk, load_program("gensquashfs"), only_structs={"struct.sqfs_meta_writer_t"})
    chk.floor("K6-fill", 3)
    chk.floor("K2-exact", 1)
    from .c08 import rule_g_truncate, rule_i_every_block, rule_j_logged
    rule_g_truncate(chk, load_program("gensquashfs"))
    rule_i_every_block(chk, load_program("gensquashfs"))
    rule_j_logged(chk, load_program("gensquashfs"))
    chk.floor("K11-logged", 1)
    chk.floor("K13-truncate", 1)
    chk.floor("K7", 45)
    chk.floor("K13-padding", 2)
    chk.floor("K1-metablock", 2)
