"""C07 -- untrusted tar streams / description files never crash or hang the packers."""
import json
import os

from ..ir import load_program, strip_casts, norm_callee
from ..build import AnalysisBroken, VERIF
from ..util import resolve_ptr, backward_slice, const_int
from ..effects import slot_call, success_points
from ..k6 import run_k6
from ..bounds2 import Bounder, Cap

LIMIT = 65536        # TAR_MAX_PATH_LEN / _SYMLINK_LEN / _PAX_LEN / _SPARSE_ENT (include/tar/format.h)

EXCEPTIONS = {
    ("field:istream_xfrm_t.uncompressed", "memmove"):
        "compaction inside the object's own fixed buffer: buffer_offset < buffer_used <= BUFSZ is the stream's invariant "
        "(buffer_used is only ever set from process_data's out_off, which is bounded by the BUFSZ - out_off it was given)",
}


def anchored_files():
    for l in open(os.path.join(VERIF, "properties.jsonl")):
        p = json.loads(l)
        if p["id"] == "C07":
            return set(p["anchors"]["files"])
    raise AnalysisBroken("property C07 not found")


def limits_rule(chk, prog):
    """C07-a: sizes taken from the archive reach an allocation only below the implementation limits"""
    n = 0
    kinds = set()
    for f in prog.functions():
        if not f.unit.src.startswith("lib/tar/src/"):
            continue
        for c in f.calls():
            nm = norm_callee(c.callee)
            if nm in ("record_to_memory", "read_pax_header"):
                size = c.ops[1]
            else:
                continue
            if size.is_const:
                continue
            n += 1
            kinds.add(nm)
            chk.analysed(f)
            inst = "%s:%s@%d" % (f.name, nm, c.line)
            B = Bounder(prog, f)
            if B.bounded(size, c, Cap(const=4 * LIMIT + 4096, desc="implementation limit")):
                chk.ok("K6-limit", inst, c, "the size is bounded by a constant implementation limit on every path")
            else:
                # sizes that are sums of bounded string lengths (strnlen of fixed header fields) are bounded by construction
                if all((x.is_const or not x.is_inst or x.op in ("add", "zext", "sext", "trunc", "call", "phi") and
                        (x.op != "call" or norm_callee(x.callee) in ("strnlen", "strlen"))) for x in backward_slice(size)):
                    lens = [x for x in backward_slice(size) if x.is_inst and x.op == "call"]
                    if lens and all(norm_callee(x.callee) == "strnlen" for x in lens):
                        chk.ok("K6-limit", inst, c, "sum of strnlen() of fixed-size header fields")
                        continue
                chk.violation("K6-limit", inst, c, "a size decoded from the archive reaches %s without being compared against "
                              "a constant limit: a crafted header makes the packer allocate (and read) gigabytes" % nm)
    if kinds != {"record_to_memory", "read_pax_header"}:
        chk.broke("K6-limit: not both kinds of archive-sized reads found (%s)" % sorted(kinds))
    return n


def pax_index_rule(chk, prog):
    """C07-b: an index computed from strtol() is bounded from above by the remaining buffer and from below by zero
    before it is used to store into the record"""
    unit = prog.by_src.get("lib/tar/src/pax_header.c")
    if unit is None:
        raise AnalysisBroken("pax_header.c not in the closure")
    n = 0
    for f in unit.functions.values():
        if f.decl:
            continue
        f.build()
        for i in f.insts():
            if i.op != "store":
                continue
            p = strip_casts(i.ops[1])
            if not (p.is_inst and p.op == "getelementptr"):
                continue
            idxs = [el[1] for el in p.x["gep"] if el[0] in ("*", "[]") and not el[1].is_const]
            src = None
            for ix in idxs:
                for x in backward_slice(ix, phi_control=False):
                    if x.is_inst and x.op == "call" and norm_callee(x.callee) in ("strtol", "strtoul", "strtoll", "atoi"):
                        src = x
                    elif x.is_inst and x.op == "load" and strip_casts(x.ops[0]).is_inst and strip_casts(x.ops[0]).op == "alloca":
                        # a number a parsing function delivered through an out-parameter (parse_uint(..., &value))
                        al = strip_casts(x.ops[0])
                        if any(u.op == "call" and (norm_callee(u.callee) or "").startswith(("parse_", "read_number", "strto"))
                               for u in f.uses.get(al, [])):
                            src = x
            if src is None:
                continue
            n += 1
            chk.analysed(f)
            upper = lower = False
            for cond, outcome, br in f.guards_at(i.bb):
                if not (cond.is_inst and cond.op == "icmp"):
                    continue
                a, b = cond.ops
                on = [o for o in (a, b) if strip_casts(o) is src or src in backward_slice(o, phi_control=False)]
                if not on:
                    continue
                other = b if on[0] is a else a
                p_ = cond.pred
                first = on[0] is a
                # len > (end - line) false  /  len <= limit true
                if other.is_const and other.is_int and other.sval == 0:
                    if (first and ((p_ == "sle" and outcome is False) or (p_ == "sgt" and outcome is True))) or \
                            ((not first) and ((p_ == "sge" and outcome is False) or (p_ == "slt" and outcome is True))):
                        lower = True
                else:
                    diff = any(x.is_inst and x.op in ("sub", "ptrtoint") for x in backward_slice(other, phi_control=False))
                    if diff or other.is_arg:
                        if (first and ((p_ in ("sgt", "ugt") and outcome is False) or (p_ in ("sle", "ule", "slt", "ult") and outcome is True))) or \
                                ((not first) and ((p_ in ("slt", "ult") and outcome is False) or (p_ in ("sge", "uge", "sgt", "ugt") and outcome is True))):
                            upper = True
            inst = "%s:store@%d" % (f.name, i.line)
            if upper and lower:
                chk.ok("K6-index", inst, i, "the parsed record length is > 0 and <= the remaining buffer (a difference, not a pointer sum) before it is used as an index")
            else:
                chk.violation("K6-index", inst, i, "a record length parsed from the archive is used as a store index without %s bound (a comparison of `start + length` with the end does not count: the sum wraps): "
                              "a crafted PAX record writes outside the record buffer" % ("an upper" if not upper else "a lower"))
    if n == 0:
        chk.broke("no store indexed by a parsed number found in pax_header.c")


def validation_rule(chk, prog):
    """C07-c / C04-a: header validation precedes decoding"""
    f = prog.need_fn("read_header")
    chk.analysed(f)
    ver = [c for c in f.calls("check_version")]
    ck = [c for c in f.calls("is_checksum_valid")]
    sinks = [c for c in f.calls() if norm_callee(c.callee) in ("decode_header", "record_to_memory", "read_pax_header",
                                                                "read_gnu_old_sparse", "read_number")]
    if not ver or not ck or not sinks:
        chk.broke("read_header no longer has the validation/decoding shape (check_version=%d, is_checksum_valid=%d, decoders=%d)"
                  % (len(ver), len(ck), len(sinks)))
        return
    for s in sinks:
        nm = norm_callee(s.callee)
        okc = okv = False
        for cond, outcome, br in f.guards_at(s.bb):
            sl = backward_slice(cond)
            if any(c in sl for c in ck):
                # is_checksum_valid(...) true
                v = cond
                pol = True
                if v.is_inst and v.op == "icmp" and v.ops[1].is_const and v.ops[1].is_int and v.ops[1].sval == 0:
                    pol = v.pred == "ne"
                if outcome == pol:
                    okc = True
            if any(c in sl for c in ver):
                okv = True
        inst = "read_header:%s@%d" % (nm, s.line)
        if okc and okv:
            chk.ok("K1-validate", inst, s, "reached only after the magic/version test and a valid checksum")
        else:
            chk.violation("K1-validate", inst, s, "%s is reachable for a header whose %s was not verified: fields of a garbage "
                          "block are decoded" % (nm, "checksum" if not okc else "magic/version"))


def mask_rule(chk, prog):
    """K9-mask: the set_by_pax mask says which decoded fields are already filled in; whenever the fields are wiped
    the mask must be zero before it is consulted again"""
    f = prog.need_fn("read_header")
    out = f.params[1]
    masks = []
    for c in f.calls("read_pax_header"):
        a = strip_casts(c.ops[2])
        if a.is_inst and a.op == "alloca" and a not in masks:
            masks.append(a)
    if len(masks) != 1:
        chk.broke("read_header: expected one local PAX mask passed to read_pax_header, found %d" % len(masks))
        return
    M = masks[0]

    def is_wipe(i):
        if i.op != "call":
            return False
        nm = norm_callee(i.callee)
        if nm == "clear_header" and strip_casts(i.ops[0]) is out:
            return True
        if nm == "memset" and resolve_ptr(prog, i.ops[0], f.unit)[0] is out and const_int(i.ops[1]) == 0:
            return True
        return False

    def is_zero_store(i):
        return i.op == "store" and strip_casts(i.ops[1]) is M and i.ops[0].is_const and i.ops[0].is_int and i.ops[0].uval == 0

    def is_set(i):
        if i.op == "store" and strip_casts(i.ops[1]) is M and not is_zero_store(i):
            return True
        return i.op == "call" and any(strip_casts(a) is M for a in i.ops if not a.is_const)

    def is_use(i):
        if i.op == "load" and strip_casts(i.ops[0]) is M:
            return True
        return i.op == "call" and any(strip_casts(a) is M for a in i.ops if not a.is_const)
    # state: (mask possibly non-zero, dirty)
    ins = {f.blocks[0]: frozenset([(False, False)])}
    work = [f.blocks[0]]
    bad = None
    nw = 0
    while work:
        b = work.pop(0)
        st = ins[b]
        for i in b.insts:
            if is_wipe(i):
                nw += 1
                st = frozenset((nz, nz) for (nz, d) in st)
            elif is_zero_store(i):
                st = frozenset([(False, False)])
            elif is_use(i):
                if any(d for (nz, d) in st) and bad is None:
                    bad = i
                if is_set(i):
                    st = frozenset((True, False) for (nz, d) in st)
            elif is_set(i):
                st = frozenset((True, d) for (nz, d) in st)
        for s in b.succs:
            cur = ins.get(s)
            nv = st if cur is None else cur | st
            if nv != cur:
                ins[s] = nv
                if s not in work:
                    work.append(s)
    chk.analysed(f)
    if bad is None and nw:
        chk.ok("K9-mask", "read_header:set_by_pax", M, "after every wipe of the decoded header the PAX mask is zeroed before it is used")
    else:
        chk.violation("K9-mask", "read_header:set_by_pax", bad or f, "the decoded header can be wiped while the 'set by PAX' mask keeps "
                      "its bits: later records skip fields that are now NULL (name == NULL is dereferenced)")


def cleanup_rule(chk):
    """C07-e "a failing run leaves no output file": the K1-cleanup rules of C13 (the output is unlinked whenever the
    status is not success, every function that fails after creating it removes it, the working directory is the one
    the output name is relative to when the cleanup runs), run here for both packers"""
    from .c13 import rule_cleanup
    for tool in ("gensquashfs", "tar2sqfs"):
        rule_cleanup(chk, load_program(tool), tool)
    chk.floor("K1-cleanup", 4)
    chk.note("entry-name canonicalisation (C07-f) is decided by the C18 check (K1-funnel, K5-funnel)")


def _second_pointer_kind(f, h, body, a, b2):
    """(True, text) if comparing the two loop-carried pointers detects every cycle: one of them follows the chain by
    itself (tortoise and hare), or it is moved up to the other one at intervals that grow (Brent).  (False, text) if it
    is only moved up at a fixed interval: a cycle longer than the interval is never noticed."""
    def header_phi(v):
        v = strip_casts(v)
        seen = set()
        work = [v]
        while work:
            x = work.pop()
            if id(x) in seen:
                continue
            seen.add(id(x))
            if x.is_inst and x.op == "phi" and x.bb is h:
                return x
            if x.is_inst and x.op in ("phi", "select", "bitcast"):
                work += [o for o in x.ops if o.is_inst]
        # the value computed in this round that becomes the header phi of the next round
        for exact in (True, False):
            for ph in h.insts:
                if ph.op != "phi":
                    break
                for val, pred in zip(ph.ops, ph.x["inc"]):
                    if pred not in body:
                        continue
                    if (exact and strip_casts(val) is v) or \
                            (not exact and any(y is v for y in backward_slice(val, phi_control=False, limit=100))):
                        return ph
        return None
    pa, pb = header_phi(a), header_phi(b2)
    if pa is None or pb is None or pa is pb:
        return (True, "two advancing pointers are compared (cycle detection)")
    verdicts = []
    for (p, other) in ((pa, pb), (pb, pa)):
        own_step = teleport = False
        tele_preds = []
        for val, pred in zip(p.ops, p.x["inc"]):
            if pred not in body:
                continue
            # leaves the value can come from, through merges
            leaves, work, seen = [], [(val, pred)], set()
            while work:
                x, src = work.pop()
                x = strip_casts(x)
                if id(x) in seen:
                    continue
                seen.add(id(x))
                if x.is_inst and x.op == "phi" and x.bb is not h:
                    work += [(o, q) for o, q in zip(x.ops, x.x["inc"])]
                elif x.is_inst and x.op == "select":
                    work += [(x.ops[1], src), (x.ops[2], src)]
                else:
                    leaves.append((x, src))
            for (x, src) in leaves:
                if x is p:
                    continue
                sl = list(backward_slice(x, phi_control=False, limit=200))
                if any(y is p for y in sl) and any(y.is_inst and y.op in ("call", "load") for y in sl):
                    own_step = True
                elif x is other or any(y is other for y in sl):
                    teleport = True
                    tele_preds.append(src)
        if own_step:
            verdicts.append((True, "a second pointer follows the chain at its own pace and is compared with the first (tortoise and hare)"))
        elif teleport:
            growing = False
            for src in tele_preds:
                for (cond, outcome, br) in f.guards_at(src):
                    if cond.is_inst and cond.op == "icmp" and cond.pred in ("eq", "uge", "ugt", "ule", "ult"):
                        for o in cond.ops:
                            o = strip_casts(o)
                            while o.is_inst and o.op in ("zext", "sext", "trunc"):
                                o = o.ops[0]
                            if o.is_inst and o.op == "phi" and o.bb is h:
                                for v2, p2 in zip(o.ops, o.x["inc"]):
                                    if p2 in body and any(y.is_inst and y.op in ("shl", "mul") or (y.is_inst and y.op == "add" and
                                                          any(z is o for z in y.ops) and not any(z.is_const for z in y.ops))
                                                          for y in backward_slice(v2, phi_control=False, limit=100)):
                                        growing = True
            if growing:
                verdicts.append((True, "the second pointer is moved up at growing intervals and compared with the first (Brent)"))
            else:
                verdicts.append((False, "the loop compares the current node with a check point that is only moved up every fixed "
                                 "number of hops: a cycle longer than that interval never contains the check point long enough "
                                 "to be noticed, the loop does not end"))
    bad = [v for v in verdicts if not v[0]]
    if bad:
        return bad[0]
    if verdicts:
        return verdicts[-1]
    return (True, "two advancing pointers are compared (cycle detection)")


def chase_rule(chk, prog):
    """K1-chase: a loop that follows links between tree nodes named by the input (hard link -> target -> ...) ends on every
    input: besides 'the chain ended' and 'back at the start' it has an exit that fires on any cycle -- a comparison of two
    pointers that both advance (tortoise and hare) or a hop counter with a bound"""
    n = 0
    # what "follows a link": the path lookup of the tree API, and static helpers that hand back what it (or another such
    # helper) returns for a node they were given -- found by shape, whatever they are called
    follow = {"fstree_get_node_by_path"}
    for _round in range(3):
        for g in prog.functions():
            if g.decl or not g.unit.src.startswith("lib/fstree/") or g.name in follow or not g.internal:
                continue
            if not (g.ret or "").endswith("struct.tree_node_t*"):
                continue
            g.build()
            if not any(a.ty.endswith("struct.tree_node_t*") for a in g.params):
                continue
            if any(norm_callee(c.callee) in follow for c in g.calls()):
                follow.add(g.name)
    for f in prog.functions():
        if f.decl or not f.unit.src.startswith("lib/fstree/"):
            continue
        f.build()
        for (h, body) in f.loops:
            phis = [i for i in h.insts if i.op == "phi" and i.ty.endswith("struct.tree_node_t*")]
            follows = []
            for p in phis:
                for val, pred in zip(p.ops, p.x["inc"]):
                    if pred not in body:
                        continue
                    for x in backward_slice(val, phi_control=False):
                        if x.is_inst and x.op == "call" and norm_callee(x.callee) in follow:
                            follows.append(p)
                        elif x.is_inst and x.op == "load":
                            g = strip_casts(x.ops[0])
                            if g.is_inst and g.op == "getelementptr" and g.fields() and g.fields()[0][1] == "data" and \
                                    x.ty.endswith("struct.tree_node_t*") and "hardlink" in f.unit.src:
                                follows.append(p)
            follows = list({id(p): p for p in follows}.values())
            if not follows:
                continue
            n += 1
            chk.analysed(f)
            inst = "%s:loop@%d" % (f.name, h.term.line or 0)
            ok = None
            weak = None
            bodyvals = set()
            for b in body:
                for i in b.insts:
                    bodyvals.add(id(i))
            def varying(v):
                v = strip_casts(v)
                return v.is_inst and id(v) in bodyvals
            for b in body:
                t = b.term
                if t.op == "br" and len(t.x["succ"]) == 2 and any(s_ not in body for s_ in t.x["succ"]) or t.op == "br" and len(t.x["succ"]) == 2:
                    for x in backward_slice(t.ops[0], phi_control=False, limit=200):
                        if x.is_inst and x.op == "icmp":
                            a, b2 = x.ops
                            if getattr(a, "ty", "").endswith("*") and varying(a) and varying(b2) and strip_casts(a) is not strip_casts(b2):
                                why = _second_pointer_kind(f, h, body, a, b2)
                                if why[0]:
                                    ok = why[1]
                                else:
                                    weak = why[1]
                            if not getattr(a, "ty", "").endswith("*") and x.pred in ("ult", "ugt", "uge", "ule", "slt", "sgt") and \
                                    any(varying(o) for o in x.ops) and any(i.op == "phi" and not i.ty.endswith("*") for i in h.insts):
                                ok = ok or "a hop counter is compared with a bound"
            if ok:
                chk.ok("K1-chase", inst, h.term, ok)
            else:
                chk.violation("K1-chase", inst, h.term, weak or "the loop follows links named by the input and stops only when the chain ends or "
                              "returns to its starting node: a cycle that does not contain the start (b -> c, c -> b, a -> b) never ends")
    return n


STRSCAN_EXCEPTIONS = {
    "from_base32": "decodes the hex strings the xattr writer made itself (to_base32 emits exactly two digits per byte); no input "
                   "reaches it undecoded",
}


S_IFMT, S_IFDIR = 0o170000, 0o040000


def _type_known(prog, f, bb, base, depth=0):
    """the file type that the guards in front of `bb` establish for the object `base` points to ((base->mode & S_IFMT) == T),
    None if there is none.  A parameter of a static helper is judged at the call sites."""
    base = strip_casts(base)
    if base.is_inst and base.op == "load":
        q = strip_casts(base.ops[0])
        if q.is_inst and q.op == "getelementptr" and q.field() and q.field()[1] == "root" and "fstree_t" in q.field()[0]:
            return S_IFDIR                      # the root is made as a directory and never anything else
    for cond, outcome, br in f.guards_at(bb):
        if not (cond.is_inst and cond.op == "icmp" and cond.pred in ("eq", "ne") and outcome == (cond.pred == "eq")):
            continue
        for x, y in ((cond.ops[0], cond.ops[1]), (cond.ops[1], cond.ops[0])):
            if not (y.is_const and y.is_int):
                continue
            while x.is_inst and x.op in ("zext", "sext", "trunc"):
                x = x.ops[0]
            if not (x.is_inst and x.op == "and" and any(o.is_const and o.is_int and o.uval == S_IFMT for o in x.ops)):
                continue
            for o in x.ops:
                while o.is_inst and o.op in ("zext", "sext", "trunc"):
                    o = o.ops[0]
                if o.is_inst and o.op == "load":
                    q = strip_casts(o.ops[0])
                    if q.is_inst and q.op == "getelementptr" and q.field() and q.field()[1] == "mode" and \
                            strip_casts(q.ops[0]) is base:
                        return y.uval
    if not base.is_inst and f.internal and depth < 2:
        k = next((i for i, a in enumerate(f.params) if a is base), None)
        cs = prog.callers_of(f)
        if k is not None and cs:
            ts = set()
            for c in cs:
                c.fn.build()
                ts.add(_type_known(prog, c.fn, c.bb, c.ops[k], depth + 1) if k < len(c.ops) else None)
            if len(ts) == 1:
                return ts.pop()
    return None


def retag_rule(chk, prog):
    """A1-retag: the mode of a tree node is the tag of its union (children / target / file data / device number).  A store to
    the mode of a node that already exists keeps the type: the guards in front of it establish the type of the node and the
    same type for the value that is stored.  Otherwise an entry of another type takes over a node whose union still holds
    the old member -- a directory's child list is read as a link target or a device number."""
    n = 0
    for f in prog.functions():
        if f.decl or "/test/" in f.unit.src or f.unit.src.startswith("extras/"):
            continue
        f.build()
        for st in f.insts():
            if st.op != "store":
                continue
            p = strip_casts(st.ops[1])
            if not (p.is_inst and p.op == "getelementptr" and p.field() == ("struct.tree_node_t", "mode")):
                continue
            base = strip_casts(p.ops[0])
            # a node that was allocated here has no union member yet
            fresh = base.is_inst and base.op == "call" and norm_callee(base.callee) in ("calloc", "malloc", "alloc_flex")
            if not fresh and base.is_inst and base.op == "load":
                loc = strip_casts(base.ops[0])
                for i in f.insts():
                    if i.op == "store" and strip_casts(i.ops[1]) is loc and f.inst_dominates(i, base):
                        v = strip_casts(i.ops[0])
                        if v.is_inst and v.op == "call" and norm_callee(v.callee) in ("calloc", "malloc", "alloc_flex"):
                            fresh = True
                if not fresh and loc.is_inst and loc.op == "getelementptr":
                    for i in f.insts():
                        if i.op == "store" and f.inst_dominates(i, base):
                            l2 = strip_casts(i.ops[1])
                            v = strip_casts(i.ops[0])
                            if l2.is_inst and l2.op == "getelementptr" and l2.field() == loc.field() and l2.field() and \
                                    v.is_inst and v.op == "call" and norm_callee(v.callee) in ("calloc", "malloc", "alloc_flex"):
                                fresh = True
            if fresh:
                continue
            n += 1
            chk.analysed(f)
            inst = "%s:mode@%d" % (f.name, st.line)
            old_t = _type_known(prog, f, st.bb, base)
            v = st.ops[0]
            while v.is_inst and v.op in ("zext", "sext", "trunc"):
                v = v.ops[0]
            new_t = None
            if v.is_inst and v.op == "load":
                q = strip_casts(v.ops[0])
                if q.is_inst and q.op == "getelementptr" and q.field() and q.field()[1] == "mode":
                    new_t = _type_known(prog, f, st.bb, q.ops[0])
            elif v.is_inst and v.op == "or":
                ks = [o.uval & S_IFMT for o in v.ops if o.is_const and o.is_int]
                rest = [o for o in v.ops if not o.is_const]
                if ks and ks[0] and all(o.is_inst and o.op == "and" and any(c.is_const and c.is_int and not (c.uval & S_IFMT)
                                                                       for c in o.ops) for o in rest):
                    new_t = ks[0]
            if old_t is not None and new_t == old_t:
                chk.ok("A1-retag", inst, st, "the node and the value stored are both known to be of type %o" % old_t)
            else:
                chk.violation("A1-retag", inst, st, "the mode (union tag) of an existing tree node is overwritten where %s: an entry "
                              "of another type takes over a node whose union still holds the member of the old type (a directory's "
                              "children read as a symlink target or device number)" % (
                                  "the type of the node is not established" if old_t is None else
                                  "the value stored is not established to be of the node's type"))
    return n


def run(chk):
    chk.explanation = (
        "Static rules for the untrusted-input front ends: (a) every size decoded from the archive reaches "
        "record_to_memory / read_pax_header / malloc only below a constant implementation limit (provenance-based bound "
        "proof, interprocedural for parameters); (b) a PAX record length parsed with strtol is bounded from above by the "
        "remaining buffer and from below by zero before it is used as a store index; (c) every decoder call in "
        "read_header is dominated by the magic/version test and a valid checksum; (d) K6 bounded sinks over all anchored "
        "parser units (split_line, get_line, base64/hex decode, canonicalize_name, libtar, fstree, xfrm streams, pack/"
        "sort/xattr file readers); (e) the codec wrappers re-enter their loop only on progress codes (K-codec, shared with C15); (f) the PAX 'already set' mask is zeroed whenever the decoded header is wiped. "
        "(g) K8-dangling: a freed pointer is not left in caller-visible memory; (h) K1-progress: the archive member stream never reports success with zero bytes; (i) K1-chase: the hard-link resolution loop has a cycle exit; (j) K5-optnull: an option field that is NULL when the option is absent (it is compared with NULL somewhere) is not dereferenced -- directly, by libc, or by a callee that does not test its parameter -- unless a non-NULL test dominates the use or the option parser ties it to a field known to be NULL there (pack-file lines reach such uses). (k) K6-strscan (sa/strscan.py): the cursor of a scan that stops at the terminator is advanced over a byte only where that byte was matched against a non-NUL value on every path (forward must-analysis per cursor and offset). (l) A1-retag: the mode of an existing tree node (the tag of its union) is overwritten only where the guards establish the same file type for the node and for the value stored. Termination in general is not decided.")
    chk.assumptions = ["cleanup after failure and name canonicalisation are decided by C13 and C18"]
    prog = load_program("all")
    files = anchored_files()
    limits_rule(chk, prog)
    pax_index_rule(chk, prog)
    validation_rule(chk, prog)
    run_k6(chk, prog, files, EXCEPTIONS, "K6")
    from ..k6idx import run_k6idx
    run_k6idx(chk, prog, "K6-index", files)          # out[count++] into a caller's buffer: the counter is tested first
    mask_rule(chk, prog)
    from ..dangling import run_dangling
    run_dangling(chk, prog, "K8-dangling",
                 lambda src: src.startswith(("lib/tar/", "lib/xfrm/", "lib/fstree/", "lib/util/", "bin/tar2sqfs/", "bin/gensquashfs/"))
                 and "/test/" not in src)
    chase_rule(chk, prog)
    from ..progress import run_progress
    run_progress(chk, prog, "K1-progress", lambda src: src.startswith("lib/tar/"))
    from .c15 import codec_rule, ok_progress_rule
    codec_rule(chk, load_program("tar2sqfs"))
    ok_progress_rule(chk, load_program("tar2sqfs"))     # corrupted compressed input must not make the wrappers spin
    cleanup_rule(chk)
    from ..optnull import run_optnull
    for tool in ("gensquashfs", "tar2sqfs"):
        run_optnull(chk, load_program(tool), "K5-optnull")
    chk.floor("K5-optnull", 6)
    # text scanners (quoting and escapes in pack/sort files, PAX keys, names): the cursor never steps over the terminator
    from ..strscan import run_strscan
    run_strscan(chk, prog, "K6-strscan", lambda src: "/test/" not in src and not src.startswith("extras/"), STRSCAN_EXCEPTIONS)
    chk.floor("K6-strscan", 5)
    # "EEXIST handling": an entry never takes over an existing node of another type
    retag_rule(chk, prog)
    chk.floor("A1-retag", 2)
    controls(chk)
    # one site per kind at least (long name/link records, the PAX record); shared helpers lower the count of sites
    chk.floor("K6-limit", 2)
    chk.floor("K6-index", 6)
    chk.floor("K1-validate", 6)
    chk.floor("K6", 30)
    chk.floor("K9-mask", 1)
    chk.floor("K8-dangling", 8)
    chk.floor("K1-progress", 1)
    chk.floor("K1-chase", 1)
    chk.floor("K1-okprogress", 4)
    chk.floor("K-codec", 4)


def controls(chk):
    from ..controls import control_program
    from ..report import Check
    from ..progress import run_progress
    prog = control_program("c07_controls.c")
    sub = Check("C07-control", chk.tier)
    run_progress(sub, prog, "K1-progress", lambda src: True)
    got = {(o["rule"], o["function"]) for o in sub.obl if o["verdict"] == "VIOLATED"}
    chk.control("K1-progress", ("K1-progress", "ctl_get_bad") in got, "success with a size that was never tested against zero")
    chk.control("K1-progress/silent", ("K1-progress", "ctl_get_good") not in got, "tested size must not be reported")
    from ..optnull import run_optnull
    sub9 = Check("C07-control", chk.tier)
    run_optnull(sub9, prog, "K5-optnull")
    got9 = {(o["rule"], o["function"]) for o in sub9.obl if o["verdict"] == "VIOLATED"}
    chk.control("K5-optnull", ("K5-optnull", "ctl_opt_bad") in got9, "option field handed to a callee that calls strlen on it")
    chk.control("K5-optnull/silent", ("K5-optnull", "ctl_opt_good") not in got9 and ("K5-optnull", "ctl_opt_tied") not in got9,
                "tested / parser-tied option fields must not be reported")
