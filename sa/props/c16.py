"""C16 -- rdsquashfs --describe output is valid gensquashfs --pack-file input: lexical agreement (A2).

The round trip goes through two independently written lexers.  They agree iff their character classes agree, and those
are constants in the code.  Extracted from LLVM IR (never from source text):

  parser   SEP   characters of the constant string handed to the tokenizer together with the raw line
           P     byte constants any function that receives the raw line compares bytes of it with, through a moving
                 pointer (anywhere in the line)            L0 = the same for the fixed first byte of the line
           E     byte constants the look-ahead byte (ptr[1]) is compared with: what may follow the escape introducer
           INTRO the byte whose match leads to the look-ahead; QUOTE the other in-quote special
  printer  T     characters that trigger quoting (constant needles of strpbrk/strchr/strcspn on a non-constant haystack
                 in a predicate function)
           X     bytes in front of which the escape character is emitted; ESC that character; QP quote characters emitted

Obligations: O1 SEP <= T; O2 P\\{0} <= T; O3 {INTRO, QUOTE} <= X; O4 X <= E; O5 ESC == INTRO and QUOTE in QP;
O6 no keyword starts with a byte of L0; O7 every raw emission (fputs / printf %s / fwrite to stdout) of a string that is
not a compile-time constant or a numeric buffer is dominated by the false edge of the trigger predicate on that very
string; O8 escaping is only done inside emitted quotes (or X <= T); O9 printed keywords are keywords of the parser's
table and 'nod' prints as many extra tokens as the parser demands.
"""
from ..ir import load_program, strip_casts, norm_callee, ExternFn
from ..build import AnalysisBroken
from ..effects import slot_call
from ..util import backward_slice, resolve_ptr


def cstr(f, v):
    v = strip_casts(v)
    if v.is_inst and v.op == "getelementptr" and all((el[0] in ("*", "[]") and el[1].is_const and el[1].sval == 0) for el in v.x["gep"]):
        v = strip_casts(v.ops[0])
    if v.is_const and getattr(v, "gname", None):
        g = f.unit.globals.get(v.gname)
        if g and g.get("init") and g["init"][0] == "s":
            b = bytes(x & 0xFF for x in g["init"][1])
            if b.endswith(b"\0"):
                b = b[:-1]
            return b.decode("latin-1")
    return None


def unext(v):
    while v.is_inst and v.op in ("sext", "zext", "trunc", "bitcast"):
        v = v.ops[0]
    return v


def byte_compares(f):
    """[(const byte, load inst, icmp inst)] for comparisons of a loaded byte with a constant"""
    out = []
    for i in f.insts():
        if i.op == "icmp" and i.pred in ("eq", "ne"):
            for a, b in ((i.ops[0], i.ops[1]), (i.ops[1], i.ops[0])):
                if b.is_const and b.is_int and 0 <= b.sval < 256:
                    x = unext(a)
                    if x.is_inst and x.op == "load" and x.ty == "i8":
                        out.append((b.sval, x, i))
        elif i.op == "switch":
            x = unext(i.ops[0])
            if x.is_inst and x.op == "load" and x.ty == "i8":
                for cv in i.x.get("cases", []):
                    out.append((cv, x, i))
    return out


def ptr_shape(f, p, param, field=None, prog=None):
    """how pointer p relates to parameter `param`: 'fixed0' (the parameter itself), 'fixedN', 'moving+K' (derived through a
    phi, K = constant offset from the moving pointer), None (unrelated).  With `field` (a byte offset) the parameter is a
    pointer to a cursor object and the text pointer is what that member of it holds."""
    off = 0
    seen = set()
    moving = False
    work = [(p, 0)]
    res = None

    def loc(q):
        if prog is None:
            return None
        b, o, ex = resolve_ptr(prog, q, f.unit)
        return (strip_casts(b), o) if ex else None
    while work:
        v, o = work.pop()
        v = strip_casts(v)
        if id(v) in seen:
            continue
        seen.add(id(v))
        if field is None and v is param:
            return ("moving", o) if moving else ("fixed", o)
        if v.is_inst and v.op == "getelementptr":
            k = 0
            const = True
            for el in v.x["gep"]:
                if el[0] in ("*", "[]") and el[1].is_const and el[1].is_int:
                    k += el[1].sval
                else:
                    const = False
            if not const:
                moving = True
                k = 0
            work.append((v.ops[0], o + k if not moving else o))
        elif v.is_inst and v.op == "phi":
            moving = True
            # offsets relative to the phi itself
            if res is None:
                res = o
            for x in v.ops:
                work.append((x, 0))
        elif v.is_inst and v.op == "load":
            # pointer variable kept in memory (address-taken local, member of a cursor object): treat as moving
            moving = True
            pl = strip_casts(v.ops[0])
            lp = loc(pl)
            if field is not None and lp is not None and lp[0] is param and lp[1] == field:
                return ("moving", o)
            for i in f.insts():
                if i.op == "store" and (strip_casts(i.ops[1]) is pl or (lp is not None and loc(i.ops[1]) == lp)):
                    work.append((i.ops[0], 0))
    return None


def lookahead_offset(f, ld):
    """constant offset of the loaded byte relative to the moving pointer it is loaded through (0 = current byte)"""
    p = strip_casts(ld.ops[0])
    if p.is_inst and p.op == "getelementptr":
        k, const = 0, True
        for el in p.x["gep"]:
            if el[0] in ("*", "[]") and el[1].is_const and el[1].is_int:
                k += el[1].sval
            else:
                const = False
        if const:
            return k
        return None
    return 0


class Lexer:
    pass


def extract_parser(chk, prog):
    f = prog.need_fn("fstree_from_file_stream")
    f.build()
    chk.analysed(f)
    gl = [c for c in f.calls() if norm_callee(c.callee) == "istream_get_line"]
    if not gl:
        raise AnalysisBroken("fstree_from_file_stream no longer reads lines with istream_get_line")
    slot = strip_casts(gl[0].ops[1])
    raw = [i for i in f.insts() if i.op == "load" and strip_casts(i.ops[0]) is slot]
    L = Lexer()
    L.sep, L.P, L.L0, L.E, L.cur_in_la_fn = set(), {}, {}, {}, {}
    L.intro, L.fns = None, []
    L.end = line_reader_specials(chk, prog, f, gl[0])
    # bytes of the line compared in the reader itself
    for (c, ld, ic) in byte_compares(f):
        base = resolve_ptr(prog, ld.ops[0], f.unit)
        b = strip_casts(base[0])
        if b in raw:
            if base[1] == 0 and base[2]:
                L.L0[c] = ic
            else:
                L.P[c] = ic
    # functions that receive the raw line
    work = []
    for c in f.calls():
        nm = norm_callee(c.callee)
        if nm in ("free", "strlen", "fprintf", "istream_get_line") or nm is None:
            continue
        for k, a in enumerate(c.ops):
            if strip_casts(a) in raw:
                for t in prog.fn_targets(c.callee_value, f.unit) if hasattr(c, "callee_value") else [prog.fn(c.callee, f.unit)]:
                    if t is not None and not isinstance(t, ExternFn):
                        work.append((t, k))
                for a2 in c.ops:
                    s = cstr(f, a2)
                    if s is not None:
                        L.sep |= set(ord(ch) for ch in s)
    seen = set()
    per = {}
    work = [(g, k, None) for (g, k) in work]
    while work:
        g, k, fld_ = work.pop()
        if (g.qname, k, fld_) in seen or g.decl:
            continue
        seen.add((g.qname, k, fld_))
        g.build()
        chk.analysed(g)
        if g.name not in L.fns:
            L.fns.append(g.name)
        par = g.params[k]
        d = per.setdefault(g.name, {"fn": g, "E": {}, "cur": {}})
        for (c, ld, ic) in byte_compares(g):
            sh = ptr_shape(g, ld.ops[0], par, fld_, prog)
            if sh is None:
                continue
            la = lookahead_offset(g, ld)
            if sh[0] == "fixed" and sh[1] == 0 and (la in (0, None)) and strip_casts(ld.ops[0]) is par:
                L.L0[c] = ic
            elif la is not None and la >= 1:
                d["E"][c] = ic
            else:
                L.P[c] = ic
                d["cur"][c] = ic
        # pass the moving pointer on
        for c in g.calls():
            t = prog.fn(c.callee, g.unit) if c.callee else None
            if t is None or isinstance(t, ExternFn) or t.decl:
                continue
            for kk, a in enumerate(c.ops):
                if getattr(a, "ty", "") == "i8*" and ptr_shape(g, a, par, fld_, prog) is not None:
                    work.append((t, kk, None))
                    continue
                # a cursor object handed on by address: the members of it that hold the text pointer
                ab = strip_casts(a)
                if not (getattr(a, "ty", "") or "").endswith("*") or kk >= len(t.params):
                    continue
                if fld_ is not None and ab is par:
                    work.append((t, kk, fld_))
                elif ab.is_inst and ab.op == "alloca":
                    for st in g.insts():
                        if st.op != "store" or not (getattr(st.ops[0], "ty", "") == "i8*"):
                            continue
                        b_, o_, ex_ = resolve_ptr(prog, st.ops[1], g.unit)
                        if ex_ and strip_casts(b_) is ab and ptr_shape(g, st.ops[0], par, fld_, prog) is not None:
                            work.append((t, kk, o_))
    # tokenizers: functions that look at the byte after the current one and compare it with something other than NUL.
    # the escape introducer is the current-byte constant whose equality edge leads to those look-ahead comparisons
    L.tok = []
    for name, d in sorted(per.items()):
        E = {c: ic for c, ic in d["E"].items() if c != 0}
        if not E:
            continue
        g = d["fn"]
        la_blocks = {ic.bb for ic in E.values()}
        intro = None
        for c, ic in d["cur"].items():
            if c == 0:
                continue
            for br in g.uses.get(ic, []):
                if br.op == "br" and len(br.x["succ"]) == 2:
                    tgt = br.x["succ"][0] if ic.pred == "eq" else br.x["succ"][1]
                    if all(g.dominates(tgt, b) or tgt is b for b in la_blocks):
                        intro = c
        L.tok.append({"fn": g, "E": E, "intro": intro, "inquote": {c for c in d["cur"] if c != 0}})
    L.E = {}
    for t in L.tok:
        L.E.update(t["E"])
    L.intro = L.tok[0]["intro"] if L.tok else None
    L.inquote = set(L.tok[0]["inquote"]) if L.tok else set()
    return L


def line_reader_specials(chk, prog, f_reader, gl_call):
    """bytes that the line reader itself removes from the end of a line before the tokenizer sees it: the carriage return
    in front of the line feed, and -- if the reader is asked to trim -- the whole isspace() class"""
    import os
    from ..controls import control_program
    from ..build import repo_root
    end = {}
    g = prog.fn(gl_call.callee, f_reader.unit)
    if g is None or isinstance(g, ExternFn) or g.decl:
        raise AnalysisBroken("istream_get_line is not part of gensquashfs")
    g.build()
    chk.analysed(g)
    for (c, ld, ic) in byte_compares(g):
        if c in (13,):
            end[c] = ic
    cp = control_program("c16_enums.c", flags=("-I" + os.path.join(repo_root(), "include"), "-I" + repo_root()))
    vals = None
    for unit in cp.by_src.values():
        gl = unit.globals.get("verif_line_flags")
        if gl and gl.get("init"):
            flat = []

            def walk(x):
                if isinstance(x, (list, tuple)):
                    for y in x:
                        walk(y)
                elif isinstance(x, int):
                    flat.append(x)
            walk(gl["init"][1:] if isinstance(gl["init"][0], str) else gl["init"])
            vals = flat
    if not vals or len(vals) < 3:
        raise AnalysisBroken("could not evaluate the ISTREAM_LINE_* flags")
    LTRIM, RTRIM = vals[0], vals[1]
    fl = gl_call.ops[3] if len(gl_call.ops) > 3 else None
    trim_end = False
    if fl is not None and fl.is_const and fl.is_int:
        trim_end = bool(fl.uval & RTRIM)
    elif fl is not None:
        trim_end = True         # unknown flags: assume the worst
    if trim_end:
        for c in (9, 11, 12, 13, 32):
            end.setdefault(c, gl_call)
    return end


def extract_printer(chk, prog):
    unit = prog.by_src.get("bin/rdsquashfs/src/describe.c")
    if unit is None:
        raise AnalysisBroken("bin/rdsquashfs/src/describe.c is not part of rdsquashfs")
    Pr = Lexer()
    Pr.T, Pr.X, Pr.esc, Pr.qp, Pr.pred_fns, Pr.esc_fns = {}, {}, set(), set(), {}, {}
    Pr.unit = unit
    fns = [f.build() for f in unit.functions.values() if not f.decl]
    for f in fns:
        chk.analysed(f)
        for c in f.calls():
            nm = norm_callee(c.callee)
            if nm in ("strpbrk", "strcspn", "strspn") and cstr(f, c.ops[0]) is None:
                s = cstr(f, c.ops[1])
                if s is not None:
                    # a needle set used for a decision (result compared / returned) is a trigger; one used to find the
                    # next byte to escape (function also emits single bytes) is an escape set
                    emits = [x for x in f.calls() if norm_callee(x.callee) in ("fputc", "putc", "putchar")]
                    tgt = Pr.X if emits else Pr.T
                    for ch in s:
                        tgt[ord(ch)] = c
                    if emits:
                        Pr.esc_fns[f.name] = f
                        for e in emits:
                            if e.ops[0].is_const:
                                Pr.esc.add(e.ops[0].sval)
                    else:
                        Pr.pred_fns[f.name] = f
            elif nm in ("strchr", "memchr") and cstr(f, c.ops[0]) is None and c.ops[1].is_const:
                Pr.T[c.ops[1].sval] = c
                Pr.pred_fns[f.name] = f
        # escape pair written as a constant string: fputs("\\\"")
        for e in f.calls():
            if norm_callee(e.callee) in ("fputs", "fwrite"):
                cs = cstr(f, e.ops[0])
                if cs is not None and len(cs) == 2 and not cs[0].isalnum() and cs[0] not in " \n\t":
                    Pr.X[ord(cs[1])] = e
                    Pr.esc.add(ord(cs[0]))
                    Pr.esc_fns.setdefault(f.name, f)
        # escape emission guarded by byte comparisons
        for e in f.calls():
            if norm_callee(e.callee) not in ("fputc", "putc") or not e.ops[0].is_const:
                continue
            got = set()
            for p in e.bb.preds:
                t = p.term
                if t.op == "br" and len(t.x["succ"]) == 2:
                    cnd = t.ops[0]
                    for (c, ld, ic) in byte_compares(f):
                        if ic is cnd and ((ic.pred == "eq" and t.x["succ"][0] is e.bb) or (ic.pred == "ne" and t.x["succ"][1] is e.bb)):
                            got.add(c)
            if got:
                for c in got:
                    Pr.X[c] = e
                Pr.esc.add(e.ops[0].sval)
                Pr.esc_fns[f.name] = f
    # quote characters: constant bytes emitted by functions that call an escaping function
    for f in fns:
        ec = [c for c in f.calls() if norm_callee(c.callee) in Pr.esc_fns and f.name != norm_callee(c.callee)]
        if not ec:
            continue
        for e in f.calls():
            if norm_callee(e.callee) in ("fputc", "putc") and e.ops[0].is_const:
                Pr.qp.add(e.ops[0].sval)
    Pr.fns = fns
    return Pr


def show(s):
    return "{" + ", ".join(repr(chr(c)) for c in sorted(s)) + "}"


def rule_classes(chk, L, Pr):
    anchor_p = list(L.P.values())[0] if L.P else None
    def ob(rule, inst, ok, where, good, bad):
        if ok:
            chk.ok(rule, inst, where, good)
        else:
            chk.violation(rule, inst, where, bad)
    T = set(Pr.T)
    X = set(Pr.X)
    miss = L.sep - T
    anyp = (list(Pr.T.values()) + list(Pr.X.values()))[0]
    ob("A2-class", "O1:separators", not miss, anyp,
       "token separators %s all trigger quoting %s" % (show(L.sep), show(T)),
       "separator(s) %s split a line in the parser but do not make the printer quote the token: a name containing one is "
       "read back as two tokens" % show(miss))
    miss = {c for c in L.P if c != 0} - T
    where = L.P[sorted(miss)[0]] if miss else anchor_p
    ob("A2-class", "O2:specials", not miss, where,
       "every byte the parser treats specially anywhere in a line %s triggers quoting" % show({c for c in L.P if c}),
       "the parser gives %s a special meaning (compared in %s) but the printer emits tokens containing it unquoted" % (
           show(miss), ", ".join(sorted(set(L.fns)))))
    miss = set(L.end) - T
    ob("A2-class", "O11:line-end", not miss, (L.end[sorted(miss)[0]] if miss else anyp),
       "bytes the line reader strips from the end of a line %s all trigger quoting, so they are never the last byte of a line" % show(set(L.end)),
       "the line reader removes %s from the end of a line, but the printer writes a token ending in it unquoted as the last thing on "
       "the line: the byte is lost (symlink targets, file locations)" % show(miss))
    inq = set(L.inquote)
    miss = inq - X
    ob("A2-class", "O3:in-quote", not miss and bool(inq), list(Pr.X.values())[0] if Pr.X else Pr.fns[0],
       "both in-quote specials %s are escaped by the printer %s" % (show(inq), show(X)),
       "inside quotes the parser treats %s specially but the printer does not escape it" % show(miss))
    miss = X - set(L.E)
    ob("A2-class", "O4:escapable", not miss and bool(X), list(Pr.X.values())[0] if Pr.X else Pr.fns[0],
       "everything the printer escapes %s is an escape the parser accepts %s" % (show(X), show(set(L.E))),
       "the printer escapes %s, which the parser rejects as a broken escape sequence" % show(miss))
    okq = L.intro is not None and Pr.esc == {L.intro} and bool((inq - {L.intro}) & Pr.qp)
    ob("A2-class", "O5:characters", okq, list(Pr.X.values())[0] if Pr.X else Pr.fns[0],
       "escape character %s and quote character %s are the same on both sides" % (show(Pr.esc), show((inq - {L.intro}) & Pr.qp)),
       "printer escape %s / emitted quotes %s do not match the parser's introducer %s / quote %s" % (
           show(Pr.esc), show(Pr.qp), show({L.intro} if L.intro is not None else set()), show(inq - {L.intro})))


def rule_keywords(chk, prog_r, prog_g, L, Pr):
    # printed keywords: constant first arguments of the line printers and constant strings written with fputs
    kws = {}
    for f in Pr.fns:
        for c in f.calls():
            t = prog_r.fn(c.callee, f.unit) if c.callee else None
            if t is not None and not isinstance(t, ExternFn) and t.unit is Pr.unit and c.ops:
                s = cstr(f, c.ops[0])
                if s is not None and s.strip():
                    kws[s.strip()] = c
            elif norm_callee(c.callee) == "fputs":
                s = cstr(f, c.ops[0])
                if s is not None and s.strip() and s.endswith(" "):
                    kws[s.strip()] = c
    # parser table
    g = prog_g.need_fn("fstree_from_file_stream")
    table = None
    for name, gl in g.unit.globals.items():
        if "file_list_hooks" in name:
            table = gl
    if table is None or not table.get("init"):
        raise AnalysisBroken("keyword table file_list_hooks not found")
    pk = set()
    def walk(x):
        if isinstance(x, (list, tuple)):
            if len(x) == 2 and x[0] == "g":
                gg = g.unit.globals.get(x[1])
                if gg and gg.get("init") and gg["init"][0] == "s":
                    pk.add(bytes(v & 0xFF for v in gg["init"][1]).rstrip(b"\0").decode("latin-1"))
            for y in x:
                walk(y)
    walk(table["init"])
    if not pk:
        raise AnalysisBroken("no keyword strings in file_list_hooks")
    for kw, c in sorted(kws.items()):
        if kw in pk:
            chk.ok("A2-keyword", "O9:%s" % kw, c, "printed keyword is in the parser's table")
        else:
            chk.violation("A2-keyword", "O9:%s" % kw, c, "describe prints keyword '%s', which the pack-file parser does not know %s" % (kw, sorted(pk)))
        if kw and ord(kw[0]) in L.L0:
            chk.violation("A2-keyword", "O6:%s" % kw, c, "a printed line starts with %r, which the reader treats specially at the start of a line" % kw[0])
    chk.ok("A2-keyword", "O6:line-start", list(kws.values())[0], "no printed line starts with a line-start special %s" % show(set(L.L0)))
    # arity of nod
    fmt = None
    for f in Pr.fns:
        for c in f.calls():
            if norm_callee(c.callee) in ("sprintf", "snprintf"):
                for a in c.ops:
                    s = cstr(f, a)
                    if s is not None and "%" in s:
                        fmt = (s, c)
    dev = prog_g.fn("add_device", g.unit)
    need = None
    if dev is not None:
        dev.build()
        for i in dev.insts():
            if i.op == "icmp" and i.pred in ("eq", "ne") and i.ops[1].is_const and i.ops[1].is_int:
                x = unext(i.ops[0])
                if x.is_inst and x.op == "load":
                    p = strip_casts(x.ops[0])
                    if p.is_inst and p.op == "getelementptr" and p.field() and p.field()[1] == "count":
                        need = i.ops[1].sval
    # O10: the two numbers are split off the device number by the C library's major()/minor(), the inverse of the makedev()
    # the parser combines them with
    if fmt:
        sp = fmt[1]
        fx = sp.bb.fn
        num_args = [a for a in sp.ops if getattr(a, "ty", "") in ("i32", "i64") and not a.is_const]
        split = [a for a in num_args if any(x.is_inst and x.op == "call" and norm_callee(x.callee) in ("gnu_dev_major", "gnu_dev_minor")
                                            for x in backward_slice(a, phi_control=False, limit=60))]
        comb = dev is not None and any(norm_callee(x.callee) == "gnu_dev_makedev" for x in dev.build().calls())
        if comb and len(split) >= 2:
            chk.ok("A2-keyword", "O10:devno", sp, "device numbers are split with major()/minor() and combined with makedev()")
        elif comb:
            chk.violation("A2-keyword", "O10:devno", sp, "the parser combines major and minor with makedev(), but the printer does not "
                          "split the device number with major()/minor(): the two ends need not be inverse to each other (e.g. minors "
                          "above 255 / 65535 are cut differently)")
        else:
            chk.note("A2-keyword O10: the parser does not use makedev(); agreement of the device number encoding not decided")
    if fmt and need is not None:
        n = len(fmt[0].split())
        if n == need:
            chk.ok("A2-keyword", "O9:nod-arity", fmt[1], "the device line prints %d extra tokens ('%s'), add_device demands %d" % (n, fmt[0], need))
        else:
            chk.violation("A2-keyword", "O9:nod-arity", fmt[1], "the device line prints %d extra tokens ('%s') but add_device demands %d" % (n, fmt[0], need))
    else:
        chk.note("A2-keyword nod arity: not decided (format or count test not found)")


def _safe_string(prog, f, v, depth=0):
    """compile-time constant, NULL, numeric buffer, or parameter whose every caller passes one of those"""
    v = strip_casts(v)
    if v.is_const:
        return True
    if cstr(f, v) is not None:
        return True
    base = strip_casts(resolve_ptr(prog, v, f.unit)[0])
    if base.is_inst and base.op == "alloca":
        ok = False
        for c in f.calls():
            if c.ops and strip_casts(resolve_ptr(prog, c.ops[0], f.unit)[0]) is base:
                nm = norm_callee(c.callee)
                if nm in ("sprintf", "snprintf"):
                    fm = [cstr(f, a) for a in c.ops[1:3]]
                    fm = [x for x in fm if x is not None]
                    if fm and "%s" not in fm[0]:
                        ok = True
                    else:
                        return False
                elif nm and not nm.startswith("llvm."):
                    return False
        return ok
    if not v.is_inst and depth < 3:
        callers = prog.callers_of(f)
        if not callers:
            return False
        for c in callers:
            cf = c.bb.fn
            cf.build()
            if not _safe_string(prog, cf, c.ops[v.idx], depth + 1):
                return False
        return True
    if v.is_inst and v.op in ("phi", "select"):
        return all(_safe_string(prog, f, o, depth) for o in (v.ops if v.op == "phi" else v.ops[1:]))
    return False


def _same_string(f, a, b):
    a, b = strip_casts(a), strip_casts(b)
    if a is b:
        return True
    # two loads of one local pointer variable that is only ever written through the call that produced it
    if a.is_inst and b.is_inst and a.op == "load" and b.op == "load":
        pa, pb = strip_casts(a.ops[0]), strip_casts(b.ops[0])
        if pa is pb and pa.is_inst and pa.op == "alloca":
            writers = [i for i in f.insts() if (i.op == "store" and strip_casts(i.ops[1]) is pa) or
                       (i.op == "call" and any(strip_casts(o) is pa for o in i.ops) and not (norm_callee(i.callee) or "").startswith("llvm."))]
            return all(f.inst_dominates(w, a) and f.inst_dominates(w, b) for w in writers)
    return False


def _is_stdout(prog, f, v):
    v = strip_casts(v)
    if v.is_inst and v.op == "load":
        p = strip_casts(v.ops[0])
        return p.is_const and getattr(p, "gname", None) == "stdout"
    return False



def _printf_string_args(f, c):
    fm = cstr(f, c.ops[0])
    if fm is None:
        return [c.ops[0]]
    args, k, j = [], 1, 0
    while j < len(fm):
        if fm[j] == "%":
            j += 1
            if j < len(fm) and fm[j] == "%":
                j += 1
                continue
            while j < len(fm) and fm[j] in "0123456789.-+ #lhzjt*":
                j += 1
            if j < len(fm) and fm[j] == "s" and k < len(c.ops):
                args.append(c.ops[k])
            k += 1
        j += 1
    return args


def _pred_calls_on(f, Pr, s_val, at_bb, want_negative):
    """is the quoting predicate known to have answered `want_negative ? no : yes` for string s_val on entry to at_bb"""
    for (cond, outcome, br) in f.guards_at(at_bb):
        x = cond
        pred_true = (outcome is True)
        if x.is_inst and x.op == "icmp" and x.ops[1].is_const and x.ops[1].is_int and x.ops[1].sval == 0:
            pred_true = (x.pred == "ne") == (outcome is True)
            x = unext(x.ops[0])
        x = unext(x)
        if x.is_inst and x.op == "call" and norm_callee(x.callee) in Pr.pred_fns and pred_true == (not want_negative):
            if _same_string(f, x.ops[0], s_val):
                return True
    return False


def _quote_flag_covers(prog, f, Pr, qv, s_val, depth=0):
    """the boolean qv is true whenever the quoting predicate holds for string s_val: its definition contains a predicate call
    on that very string (qv = pred(s) [|| ...]); through parameters: at every call site"""
    qv = unext(qv)
    s_val = strip_casts(s_val)
    if s_val.is_const or cstr(f, s_val) is not None:
        return True
    for x in backward_slice(qv, phi_control=True, through_loads=False):
        if x.is_inst and x.op == "call" and norm_callee(x.callee) in Pr.pred_fns and _same_string(f, x.ops[0], s_val):
            return True
    # both are parameters: decide at the call sites
    if not qv.is_inst and not qv.is_const and not s_val.is_inst and depth < 3:
        callers = prog.callers_of(f)
        if not callers:
            return False
        for c in callers:
            g = c.bb.fn
            g.build()
            if not _quote_flag_covers(prog, g, Pr, c.ops[qv.idx], c.ops[s_val.idx], depth + 1):
                return False
        return True
    return False


def rule_emissions(chk, prog, Pr, L):
    """O7/O8: every non-constant string that reaches the listing does so in a context that matches the quoting decision
    taken for that very string: inside unconditionally emitted quotes it goes through the escaper; outside quotes the
    predicate has answered 'no' for it; where the quotes depend on a flag, the flag covers the predicate on that string."""
    q = (set(L.inquote) - {L.intro}) if L.intro is not None else set()
    n = 0
    for f in Pr.fns:
        if f.name in Pr.esc_fns and f.name not in Pr.pred_fns:
            continue
        qem = [e for e in f.calls() if norm_callee(e.callee) in ("fputc", "putc") and e.ops[0].is_const and e.ops[0].sval in q]
        ems = []
        for c in f.calls():
            nm = norm_callee(c.callee)
            if nm == "fputs" and _is_stdout(prog, f, c.ops[1]):
                ems += [(c, c.ops[0], "raw")]
            elif nm == "puts":
                ems += [(c, c.ops[0], "raw")]
            elif nm == "fwrite" and _is_stdout(prog, f, c.ops[3]):
                ems += [(c, c.ops[0], "raw")]
            elif nm == "printf":
                ems += [(c, a, "raw") for a in _printf_string_args(f, c)]
            elif nm in Pr.esc_fns and nm != f.name:
                ems += [(c, c.ops[0], "escaped")]
        for (c, a, kind) in ems:
            if _safe_string(prog, f, a):
                continue
            n += 1
            inst = "%s:%s@%d" % (f.name, norm_callee(c.callee), c.line)
            opened = [e for e in qem if f.inst_dominates(e, c)]
            # quotes that may or may not have been emitted before c: conditional context
            maybe = [e for e in qem if not f.inst_dominates(e, c) and (f.reaches(e.bb, c.bb) or (e.bb is c.bb and e.pos < c.pos))]
            if opened:
                if kind == "escaped":
                    chk.ok("A2-emit", inst, c, "inside unconditionally emitted quotes and passed through the escaping routine")
                else:
                    chk.violation("A2-emit", inst, c, "a string is written verbatim between quotes: a quote or backslash in it ends the "
                                  "token early or is taken as an escape by the parser")
                continue
            if maybe:
                # the condition under which the opening quote is emitted
                conds = []
                for e in maybe:
                    for (cond, outcome, br) in f.guards_at(e.bb):
                        if not any(cond is c2 for (c2, o2, b2) in f.guards_at(c.bb)):
                            conds.append((cond, outcome))
                flag_ok = False
                for (cond, outcome) in conds:
                    x = cond
                    if x.is_inst and x.op == "icmp" and x.ops[1].is_const and x.ops[1].is_int and x.ops[1].sval == 0:
                        if (x.pred == "ne") != (outcome is True):
                            continue
                        x = x.ops[0]
                    elif outcome is not True:
                        continue
                    if _quote_flag_covers(prog, f, Pr, x, a):
                        flag_ok = True
                if flag_ok and (kind == "escaped") and set(Pr.X) <= set(Pr.T):
                    chk.ok("A2-emit", inst, c, "quotes are emitted exactly when a flag is set that covers the quoting predicate on this very "
                           "string; escaped either way (escaped bytes are all triggers, so nothing is escaped outside quotes)")
                elif flag_ok and kind == "escaped":
                    chk.violation("A2-emit", inst, c, "the string is escaped whether or not it is quoted, and %s is escaped without being a "
                                  "quoting trigger: outside quotes the parser copies the backslash verbatim" % show(set(Pr.X) - set(Pr.T)))
                elif flag_ok and kind == "raw":
                    chk.violation("A2-emit", inst, c, "a string is written verbatim in a context that is quoted whenever it needs quoting: "
                                  "inside the quotes its quote and backslash bytes are not escaped")
                else:
                    chk.violation("A2-emit", inst, c, "whether this string is put between quotes is decided by a condition that does not "
                                  "include the quoting predicate on this very string: it can be written outside quotes although it "
                                  "contains a separator, quote or backslash (or escaped outside quotes)")
                continue
            # no quote can have been emitted: the predicate must have said no
            if _pred_calls_on(f, Pr, a, c.bb, want_negative=True) and (kind == "raw" or set(Pr.X) <= set(Pr.T)):
                chk.ok("A2-emit", inst, c, "outside quotes, and only where the quoting predicate answered 'no' for this very string")
            else:
                chk.violation("A2-emit", inst, c, "an image- or user-provided string is written to the listing outside quotes without the "
                              "quoting decision having been taken for it: a space, tab, quote or backslash in it breaks the line for the parser")
    return n


def rule_token_integrity(chk, prog, Pr, L):
    """A2-token: a quoted string is a whole token.  The parser ends a token at the closing quote and treats a quote in
    the middle of a token as an ordinary character, so whatever the printer writes directly in front of an opening
    quote and directly behind a closing quote must be a separator or a line break (or the start of the output).
    Quoted units: a pair of quote emissions in one function (the first dominates the second, the second post-dominates
    the first), and calls of functions whose own output can begin and end with such a pair.  The neighbours of a unit
    are looked up along the control flow, through returns into the callers and through calls into the callees."""
    q = (set(L.inquote) - {L.intro}) if L.intro is not None else set()
    quote_chars = set(q)
    if not quote_chars:
        return 0
    sep = set(L.sep) | {10}
    unit = Pr.unit
    fns = [f for f in unit.functions.values() if not f.decl]
    for f in fns:
        f.build()
    byname = {f.name: f for f in fns}

    def event(c):
        """('chars', first set, last set) | ('call', g) | None for a call instruction"""
        nm = norm_callee(c.callee)
        f = c.fn
        if nm in ("fputc", "putc") and len(c.ops) >= 2 and _is_stdout(prog, f, c.ops[1]):
            if c.ops[0].is_const:
                return ("chars", {c.ops[0].sval & 0xFF}, {c.ops[0].sval & 0xFF})
            return ("chars", {"other"}, {"other"})
        if nm == "putchar":
            if c.ops[0].is_const:
                return ("chars", {c.ops[0].sval & 0xFF}, {c.ops[0].sval & 0xFF})
            return ("chars", {"other"}, {"other"})
        if nm in ("fputs", "puts", "fwrite", "printf"):
            if nm == "fputs" and not _is_stdout(prog, f, c.ops[1]):
                return None
            if nm == "fwrite" and not _is_stdout(prog, f, c.ops[3]):
                return None
            st = cstr(f, c.ops[0])
            if st is None or st == "":
                return ("chars", {"other"}, {"other"})
            first = "other" if st[0] == "%" and nm == "printf" else ord(st[0])
            last = ord(st[-1])
            if nm == "printf" and len(st) >= 2 and st[-2] == "%":
                last = "other"
            if nm == "puts":
                last = 10
            return ("chars", {first}, {last})
        if nm in byname and byname[nm] is not f:
            return ("call", byname[nm])
        return None

    def events_in(b, lo=None, hi=None):
        out = []
        for i in b.insts:
            if lo is not None and i.pos <= lo:
                continue
            if hi is not None and i.pos >= hi:
                continue
            if i.op == "call":
                e = event(i)
                if e is not None:
                    out.append((i, e))
        return out

    memo_first, memo_last = {}, {}

    def first_of(g, depth=0):
        """set of chars/'other'/'none' the output of g can begin with"""
        if g in memo_first:
            return memo_first[g]
        memo_first[g] = {"other"}
        res = neighbours(g, None, forward=True, depth=depth + 1, stop_at_exit=True)
        memo_first[g] = res
        return res

    def last_of(g, depth=0):
        if g in memo_last:
            return memo_last[g]
        memo_last[g] = {"other"}
        res = neighbours(g, None, forward=False, depth=depth + 1, stop_at_exit=True)
        memo_last[g] = res
        return res

    def neighbours(f, site, forward, depth=0, stop_at_exit=False):
        """chars that can directly follow (precede) the instruction `site` of f in the output; site None = entry/exit"""
        out = set()
        if depth > 6:
            return {"other"}
        seen = set()
        if site is None:
            start_blocks = [f.blocks[0]] if forward else [b for b in f.blocks if b.term.op == "ret"]
            work = [(b, None) for b in start_blocks]
        else:
            work = [(site.bb, site.pos)]
        while work:
            b, pos = work.pop()
            evs = events_in(b, lo=pos) if forward else events_in(b, hi=pos)
            if not forward:
                evs = list(reversed(evs))
            hit = False
            for (i, e) in evs:
                if e[0] == "chars":
                    out |= (e[1] if forward else e[2])
                    hit = True
                    break
                sub = first_of(e[1], depth) if forward else last_of(e[1], depth)
                out |= (sub - {"none"})
                if "none" not in sub:
                    hit = True
                    break
            if hit:
                continue
            nxt = b.succs if forward else [p_ for p_ in f.blocks if b in p_.succs]
            if forward and site is not None and b is site.bb and site.op == "call" and b.term.op == "br" and len(b.term.x["succ"]) == 2:
                # `if (print_name(...)) return -1;` -- where the printing call itself failed the listing is abandoned (the tool
                # exits with an error): what follows the token is what follows on the side where the call answered 0
                cnd = b.term.ops[0]
                if cnd.is_inst and cnd.op == "icmp" and cnd.pred in ("eq", "ne") and strip_casts(cnd.ops[0]) is site and \
                        cnd.ops[1].is_const and cnd.ops[1].is_int and cnd.ops[1].sval == 0:
                    nxt = [b.term.x["succ"][0 if cnd.pred == "eq" else 1]]
            if (forward and b.term.op == "ret") or (not forward and b is f.blocks[0]):
                if stop_at_exit:
                    out.add("none")
                else:
                    callers = [c for g in fns for c in g.calls() if norm_callee(c.callee) == f.name and g is not f]
                    if not callers:
                        out.add("edge")          # start / end of the whole output
                    for c in callers:
                        out |= neighbours(c.fn, c, forward, depth + 1)
                continue
            for n_ in nxt:
                if id(n_) not in seen:
                    seen.add(id(n_))
                    work.append((n_, None))
        return out

    def quoting_function(g):
        fo, lo_ = first_of(g), last_of(g)
        return bool(fo & quote_chars) and bool(lo_ & quote_chars)

    n = 0
    for f in fns:
        units = []
        qem = [c for c in f.calls() if (event(c) or ("", set(), set()))[0] == "chars" and (event(c)[1] & quote_chars)]
        used = set()
        for a in qem:
            if id(a) in used:
                continue
            for b_ in qem:
                if b_ is a or id(b_) in used:
                    continue
                if f.inst_dominates(a, b_) and f.postdominates(b_.bb, a.bb) if hasattr(f, "postdominates") else f.inst_dominates(a, b_):
                    units.append((a, b_, "quotes at lines %d/%d" % (a.line, b_.line)))
                    used.add(id(a))
                    used.add(id(b_))
                    break
        for c in f.calls():
            e = event(c)
            if e is not None and e[0] == "call" and quoting_function(e[1]):
                units.append((c, c, "call of %s" % e[1].name))
        for (a, b_, what) in units:
            n += 1
            chk.analysed(f)
            before = neighbours(f, a, forward=False)
            after = neighbours(f, b_, forward=True)
            okb = all(x in sep or x == "edge" for x in before)
            oka = all(x in sep or x == "edge" for x in after)
            inst = "%s:%s" % (f.name, what)
            if okb and oka:
                chk.ok("A2-token", inst, a, "a separator, a line break or the edge of the output on both sides of the quoted token")
            else:
                def sh(xs):
                    return ", ".join(sorted(repr(chr(x)) if isinstance(x, int) else x for x in xs if not (x in sep or x == "edge")))
                chk.violation("A2-token", inst, a if not okb else b_, "a quoted token is not a token of its own: %s the parser "
                              "ends the token at the closing quote and takes a quote inside a token as an ordinary character" % (
                                  ("directly in front of the opening quote the printer can write %s; " % sh(before) if not okb else "") +
                                  ("directly behind the closing quote the printer can write %s; " % sh(after) if not oka else "")))
    return n


def rule_chunk_cut(chk, prog):
    """K10-chunkcut: the line reader assembles a line from the chunks its source hands out, and where the chunks are cut is
    none of the line's business.  What is copied out of one chunk is decided by the position of the line feed alone: the
    length of the copy depends on no other comparison of a chunk byte with a constant.  (A carriage return dropped 'at
    the end of what was scanned' is dropped in the middle of a line whenever a chunk happens to end there.)"""
    g = prog.fn("istream_get_line")
    if g is None or g.decl:
        chk.broke("istream_get_line is not part of the program")
        return 0
    g.build()
    gets = [c for c in g.calls() if slot_call(c) == ("struct.sqfs_istream_t", "get_buffered_data")]
    if not gets:
        chk.broke("istream_get_line no longer reads its source through get_buffered_data")
        return 0
    slot = strip_casts(gets[0].ops[1])
    chunk_ptrs = [i for i in g.insts() if i.op == "load" and strip_casts(i.ops[0]) is slot]
    n = 0
    for c in g.calls():
        if norm_callee(c.callee) not in ("memcpy", "memmove"):
            continue
        if not any(x in chunk_ptrs for x in [strip_casts(c.ops[1])] + list(backward_slice(c.ops[1], phi_control=False))):
            continue
        n += 1
        chk.analysed(g)
        bad = None
        for x in backward_slice(c.ops[2], phi_control=True, limit=600):
            if not (x.is_inst and x.op == "icmp"):
                continue
            for a, b in ((x.ops[0], x.ops[1]), (x.ops[1], x.ops[0])):
                if not (b.is_const and b.is_int):
                    continue
                y = unext(a)
                if y.is_inst and y.op == "load" and y.ty == "i8" and \
                        any(z in chunk_ptrs for z in backward_slice(y.ops[0], phi_control=False)) and b.sval != 10:
                    bad = (x, b.sval)
        inst = "%s:copy@%d" % (g.name, c.line)
        if bad is None:
            chk.ok("K10-chunkcut", inst, c, "what is taken out of a chunk depends on the position of the line feed only")
        else:
            chk.violation("K10-chunkcut", inst, bad[0], "the number of bytes copied out of a chunk depends on a comparison of a chunk byte "
                          "with %d (%r): a byte of the line is dropped when the source happens to cut its chunk there, the same "
                          "listing is read differently depending on how the input is buffered" % (bad[1], chr(bad[1])))
    if n == 0:
        chk.broke("istream_get_line copies nothing out of the chunks it is handed")
    return n


def rule_every_entry(chk, prog):
    """K1-everyentry: the listing has a line for every entry, whatever its attributes.  In the function that walks the tree
    for --describe, a call that prints an entry's line is guarded only by what kind of entry it is (mode & S_IFMT, the
    inode type), by the root's empty name, by the unpack-root option, by the verdict of the file name sanitiser and by
    the results of the printing calls themselves.  A guard on anything else -- permission bits, owner, a helper that
    looks at the node -- makes the round trip lose entries (or their attributes) for some inputs."""
    f = prog.fn("describe_tree")
    if f is None or f.decl:
        chk.broke("describe_tree is not part of rdsquashfs")
        return 0
    f.build()
    unit = f.unit
    printers = set()
    for g in unit.functions.values():
        if g.decl:
            continue
        if any(norm_callee(c.callee) in ("fputs", "fputc", "printf", "putchar", "puts", "fwrite", "fprintf") for c in g.build().calls()):
            printers.add(g)
    changed = True
    while changed:
        changed = False
        for g in unit.functions.values():
            if g.decl or g in printers:
                continue
            if any(c.callee and prog.fn(c.callee, unit) in printers for c in g.calls()):
                printers.add(g)
                changed = True

    def allowed(g, cond):
        sl = [cond] + list(backward_slice(cond, phi_control=False, limit=200))
        calls = [x for x in sl if x.is_inst and x.op == "call" and not (norm_callee(x.callee) or "").startswith("llvm.")]
        for x in calls:
            t = prog.fn(x.callee, g.unit) if x.callee else None
            nm = norm_callee(x.callee) if x.callee else None
            if t in printers or nm in ("is_filename_sane", "canonicalize_name"):
                continue
            return False, "the answer of %s()" % (nm or "an indirect call")
        loads = [x for x in sl if x.is_inst and x.op == "load"]
        for ld in loads:
            q = strip_casts(ld.ops[0])
            if not (q.is_inst and q.op == "getelementptr"):
                continue
            fs = q.fields()
            if not fs:
                continue
            nm = fs[-1][1]
            if nm in ("name", "children", "next", "inode", "parent", "type", "base", "extra"):
                continue
            if nm == "mode":
                # only as the kind of entry: masked with S_IFMT
                masked = any(x.is_inst and x.op == "and" and any(o.is_const and o.is_int and o.uval == 0o170000 for o in x.ops) and
                             any(y is ld for y in [x.ops[0], x.ops[1]] + list(backward_slice(x, phi_control=False, limit=20)))
                             for x in sl)
                if masked:
                    continue
                return False, "the permission bits"
            return False, "the member '%s'" % nm
        return True, ""
    n = 0
    for g in sorted(printers, key=lambda x: x.name):
        for c in g.calls():
            t = prog.fn(c.callee, unit) if c.callee else None
            if t not in printers or t is g and False:
                continue
            # a call that prints (part of) an entry's line, in the walker or one of its helpers
            if g is not f and not any(cs.fn is f or cs.fn in printers for cs in prog.callers_of(g)):
                continue
            n += 1
            chk.analysed(g)
            bad = None
            for cond, outcome, br in g.guards_at(c.bb):
                ok, why = allowed(g, cond)
                if not ok and _omits(prog, g, br, outcome, printers):
                    bad = (br, why)
                    break
            inst = "%s:%s@%d" % (g.name, t.name, c.line)
            if bad is None:
                chk.ok("K1-everyentry", inst, c, "printed for every entry of its kind")
            else:
                chk.violation("K1-everyentry", inst, bad[0], "whether this part of the listing is printed depends on %s: entries that "
                              "differ in nothing but that are left out of (or cut short in) the listing, and the rebuilt image "
                              "lacks them or their attributes" % bad[1])
    return n


def _omits(prog, g, br, outcome, printers):
    """on the other side of the branch the function can answer success without having printed anything more: the guard
    decides about leaving something out, not about how to print it or about an error"""
    if br.op != "br" or len(br.x["succ"]) != 2 or not isinstance(outcome, bool):
        return True
    other = br.x["succ"][1 if outcome else 0]
    from ..errflow import ret_sources
    zero = set()
    for (v, b) in ret_sources(g):
        w = strip_casts(v)
        if not (w.is_const and w.is_int and w.sval != 0):
            zero.add(b)
    if g.ret == "void":
        zero = {r.bb for r in g.rets()}
    seen, st = set(), [other]
    while st:
        b = st.pop()
        if b in seen:
            continue
        seen.add(b)
        if any(i.op == "call" and i.callee and prog.fn(i.callee, g.unit) in printers for i in b.insts) or \
                any(i.op == "call" and norm_callee(i.callee) in ("fputs", "fputc", "printf", "putchar", "puts", "fwrite") for i in b.insts):
            continue
        if b in zero or (b.term.op == "ret" and any(p_ in zero for p_ in [b])):
            return True
        # the block that feeds a `return 0` phi
        if any(s_.term.op == "ret" and b in zero for s_ in b.succs):
            return True
        st.extend(b.succs)
    return False


def rule_type_twins(chk, prog):
    """K12-twins (sibling agreement): SquashFS inode types come in pairs, basic k and extended k+7, that describe the same
    kind of object.  A function that decides on the inode type and treats at least two pairs as pairs (both members named)
    but names only one member of a third, forgets the other: the extended fifo falls into `default`, the entry is
    silently left out of the listing."""
    n = 0

    def is_type(v):
        v = strip_casts(v)
        while v.is_inst and v.op in ("zext", "sext", "trunc"):
            v = v.ops[0]
        if v.is_inst and v.op == "load":
            p = strip_casts(v.ops[0])
            if p.is_inst and p.op == "getelementptr":
                fs = p.fields()
                return bool(fs) and fs[-1][1] == "type" and "sqfs_inode_t" in fs[-1][0]
        return False
    for f in prog.functions():
        if f.decl:
            continue
        S = {}
        for i in f.build().insts():
            if i.op == "icmp" and i.pred in ("eq", "ne"):
                for a, b in ((i.ops[0], i.ops[1]), (i.ops[1], i.ops[0])):
                    if b.is_const and b.is_int and is_type(a):
                        S.setdefault(b.sval, i)
            elif i.op == "switch" and is_type(i.ops[0]):
                for v, _s in i.x["cases"]:
                    S.setdefault(v, i)
        ks = [k for k in S if 1 <= k <= 14]
        pairs = [k for k in ks if k <= 7 and k + 7 in S]
        if len(pairs) < 2:
            continue
        n += 1
        chk.analysed(f)
        lone = sorted(k for k in ks if (k + 7 if k <= 7 else k - 7) not in S)
        inst = "%s:inode-types" % f.name
        if not lone:
            chk.ok("K12-twins", inst, S[pairs[0]], "%d basic/extended pairs are handled, none of them half" % len(pairs))
        else:
            chk.violation("K12-twins", inst, S[lone[0]], "inode type %d is decided on without its %s twin %d although %d other pairs are "
                          "handled as pairs: objects of the forgotten type take the default path (left out, or treated as "
                          "something else)" % (lone[0], "extended" if lone[0] <= 7 else "basic",
                                               lone[0] + 7 if lone[0] <= 7 else lone[0] - 7, len(pairs)))
    return n


def rule_mode_mask(chk, pr, pg):
    """O10: the listing carries every permission bit the parser takes.  The printer masks the inode's mode with a constant
    before it prints it in octal; the parser accepts an octal number up to a constant limit (07777).  Every bit of that
    limit is in the printer's mask, and no file type bit is: otherwise set-uid / set-gid / sticky are silently lost on the
    way (or the line is refused)."""
    limit = None
    for f in pg.functions():
        if f.decl or f.unit.src != "bin/gensquashfs/src/fstree_from_file.c":
            continue
        for c in f.build().calls():
            if norm_callee(c.callee) in ("parse_uint_oct",) and len(c.ops) >= 5 and c.ops[4].is_const and c.ops[4].is_int:
                limit = c.ops[4].uval if limit is None else max(limit, c.ops[4].uval)
    if limit is None:
        chk.note("O10: the pack file parser does not read the mode with parse_uint_oct and a constant limit: not decided")
        return 0
    n = 0
    for f in pr.functions():
        if f.decl or f.unit.src != "bin/rdsquashfs/src/describe.c":
            continue
        f.build()
        for a in f.insts():
            if a.op != "and":
                continue
            k = [o for o in a.ops if o.is_const and o.is_int]
            v = [o for o in a.ops if not o.is_const]
            if not k or not v:
                continue
            is_mode = any(x.is_inst and x.op == "load" and strip_casts(x.ops[0]).is_inst and strip_casts(x.ops[0]).op == "getelementptr"
                          and strip_casts(x.ops[0]).fields() and strip_casts(x.ops[0]).fields()[-1][1] == "mode"
                          for x in backward_slice(v[0], phi_control=False))
            if not is_mode:
                continue
            to_print = False
            work, seen = [a], set()
            while work:
                y = work.pop()
                if id(y) in seen:
                    continue
                seen.add(id(y))
                for u in f.uses.get(y, []):
                    if u.op in ("zext", "sext", "trunc"):
                        work.append(u)
                    elif u.op == "call" and norm_callee(u.callee) in ("printf", "fprintf"):
                        to_print = True
            if not to_print:
                continue
            n += 1
            chk.analysed(f)
            m = k[0].uval & 0xFFFF
            inst = "%s:mode-mask@%d" % (f.name, a.line)
            if (m & limit) == limit and not (m & 0o170000):
                chk.ok("O10", inst, a, "the printed mode keeps every bit the parser accepts (0%o) and no file type bit" % limit)
            else:
                chk.violation("O10", inst, a, "the mode is printed through the mask 0%o while the parser takes modes up to 0%o: the bits "
                              "0%o (set-uid, set-gid, sticky) are dropped from the listing and the rebuilt image has other "
                              "permissions" % (m, limit, limit & ~m))
    return n


def rule_unescape_once(chk, pg, tokenizer_units=("lib/util/src/split_line.c",)):
    """O11: a token of a pack file line is unescaped once, by the tokenizer.  The printer escapes a backslash as two; after
    the tokenizer made one of them again, no consumer of the tokens (the line handlers of gensquashfs) gives the backslash a
    meaning of its own: no byte of a token is compared with '\\' outside the tokenizer.  A second decoding pass turns the
    name `a\101` into `aA`."""
    n = 0
    for f in pg.functions():
        if f.decl or f.unit.src != "bin/gensquashfs/src/fstree_from_file.c":
            continue
        f.build()
        n += 1
        chk.analysed(f)
        hit = None
        for i in f.insts():
            if i.op == "icmp" and any(o.is_const and o.is_int and o.sval == 92 for o in i.ops):
                v = [o for o in i.ops if not o.is_const]
                if v:
                    x = v[0]
                    while x.is_inst and x.op in ("zext", "sext", "trunc"):
                        x = x.ops[0]
                    if x.is_inst and x.op == "load" and x.ty == "i8":
                        hit = i
            elif i.op == "switch" and any((k.sval if hasattr(k, "sval") else k) == 92 for k, _b in i.x["cases"]):
                hit = i
        inst = "%s:backslash" % f.name
        if hit is None:
            chk.ok("O11", inst, f, "no byte of a token is compared with the escape character behind the tokenizer", nontrivial=False)
        else:
            chk.violation("O11", inst, hit, "a consumer of the tokenizer's output compares a byte with '\\': the text is unescaped a "
                          "second time, a name or target that contains a backslash (printed as two) comes back changed")
    return n


def run(chk):
    chk.explanation = (
        "The full round trip (describe -> pack-file -> same tree) is value-level and not decided. Decided is the lexical "
        "agreement of printer and parser, from character constants extracted out of LLVM IR on both sides: separators and "
        "every byte the line reader / tokenizer treats specially trigger quoting in the printer (O1, O2); the in-quote "
        "specials are escaped (O3) and nothing else is (O4); escape and quote characters match (O5); no printed line starts "
        "with a line-start special (O6); every raw emission of a non-constant string is dominated by a negative quoting "
        "decision on that string (O7); escaping happens only inside quotes (O8); printed keywords and the device arity "
        "match the parser's table (O9). A2-token: whatever is written directly in front of an opening quote and directly behind a closing quote is a separator, a line break or the edge of the output (neighbours looked up through calls and returns). K12-twins: a function that handles basic/extended inode type pairs as pairs handles none of them half; K10-chunkcut: the line reader's result does not depend on where its source cuts the chunks. O10: the mask the printer applies to the mode keeps every bit of the parser's limit (07777) and no type bit; O11: behind the tokenizer no consumer of a token compares a byte with the escape character (one unescape only).")
    chk.assumptions = ["names containing a newline are excluded by the property", "istream_get_line yields the line without its terminator"]
    pg = load_program("gensquashfs")
    pr = load_program("rdsquashfs")
    L = extract_parser(chk, pg)
    Pr = extract_printer(chk, pr)
    chk.note("parser: SEP=%s P=%s L0=%s E=%s INTRO=%s in-quote=%s via %s" % (
        show(L.sep), show(set(L.P)), show(set(L.L0)), show(set(L.E)), show({L.intro} if L.intro is not None else set()),
        show(getattr(L, "inquote", set())), sorted(set(L.fns))))
    chk.note("printer: T=%s X=%s ESC=%s QP=%s predicates=%s escapers=%s" % (
        show(set(Pr.T)), show(set(Pr.X)), show(Pr.esc), show(Pr.qp), sorted(Pr.pred_fns), sorted(Pr.esc_fns)))
    if not L.sep or not L.P or not L.E or L.intro is None:
        chk.broke("could not extract the parser's character classes (SEP/P/E/INTRO)")
        return
    if not Pr.T and not Pr.X:
        chk.broke("could not extract any character class of the printer (no quoting predicate, no escape emission)")
        return
    rule_classes(chk, L, Pr)
    rule_keywords(chk, pr, pg, L, Pr)
    rule_emissions(chk, pr, Pr, L)
    rule_token_integrity(chk, pr, Pr, L)
    rule_type_twins(chk, pr)
    chk.floor("K12-twins", 5)
    rule_mode_mask(chk, pr, pg)
    chk.floor("O10", 1)
    rule_unescape_once(chk, pg)
    chk.floor("O11", 3)
    rule_chunk_cut(chk, pg)
    chk.floor("K10-chunkcut", 1)
    rule_every_entry(chk, pr)
    chk.floor("K1-everyentry", 6)
    chk.floor("A2-token", 3)
    chk.floor("A2-class", 6)
    chk.floor("A2-keyword", 6)
    chk.floor("A2-emit", 1)
