"""C08 -- deduplication never changes data (necessary structural conditions)."""
from ..ir import load_program, strip_casts, norm_callee, ExternFn
from ..build import AnalysisBroken
from ..util import resolve_ptr, backward_slice, const_int
from ..effects import slot_call, fields_in_slice, success_points
from ..errflow import ret_sources

HASH_COMPARE_ONLY = 0x01
PROC = "struct.sqfs_block_processor_t"
HT_CALLS = ("hash_table_search_pre_hashed", "hash_table_insert_pre_hashed", "hash_table_search", "hash_table_insert")


def fld(p):
    p = strip_casts(p)
    if p.is_inst and p.op == "getelementptr" and p.field():
        return p.field()[1]
    return None


def _object_missing(f, desc_stores, src_fields):
    """an instruction after which the writer's object (outfile / uncmp) is missing although a descriptor store is reachable"""
    def reach(b0):
        seen, work = set(), [b0]
        while work:
            b = work.pop()
            if b in seen:
                continue
            seen.add(b)
            work.extend(b.succs)
        return seen

    targets = {s.bb for s in desc_stores}
    for i in f.insts():
        if i.op == "store" and fld(i.ops[1]) in src_fields and strip_casts(i.ops[0]).is_const and strip_casts(i.ops[0]).is_null:
            if strip_casts(i.ops[1]).field()[0].startswith("struct.sqfs_writer_t") and \
                    (reach(i.bb) - {i.bb} | ({i.bb} if any(s.bb is i.bb and s.pos > i.pos for s in desc_stores) else set())) & targets:
                return i
        if i.op != "call":
            continue
        outs = [a for a in i.ops if fld(a) in src_fields and strip_casts(a).field()[0].startswith("struct.sqfs_writer_t")]
        if not outs:
            continue
        for u in f.uses.get(i, []):
            if u.op != "icmp" or not (u.ops[1].is_const and u.ops[1].is_int and u.ops[1].sval == 0):
                continue
            for br in f.uses.get(u, []):
                if br.op != "br" or len(br.x["succ"]) != 2:
                    continue
                fail = {"ne": br.x["succ"][0], "eq": br.x["succ"][1], "slt": br.x["succ"][0], "sge": br.x["succ"][1]}.get(u.pred)
                if fail is not None and reach(fail) & targets:
                    return br
    return None


def rule_a_tools_enable(chk, prog):
    f = prog.need_fn("sqfs_writer_init")
    chk.analysed(f)
    bw = [c for c in f.calls("sqfs_block_writer_create")]
    if not bw:
        chk.broke("sqfs_writer_init does not create a block writer")
        return
    for c in bw:
        fl = const_int(c.ops[1])
        if fl is not None and not (fl & HASH_COMPARE_ONLY):
            chk.ok("K12-compare", "block_writer flags", c, "SQFS_BLOCK_WRITER_HASH_COMPARE_ONLY is clear: block runs are compared byte by byte")
        else:
            chk.violation("K12-compare", "block_writer flags", c, "the tools create the block writer with HASH_COMPARE_ONLY (or a "
                          "non-constant flag word): equal size+checksum alone would share storage")
    # descriptor fields file / uncmp
    for want in ("file", "uncmp"):
        st = [i for i in f.insts() if i.op == "store" and fld(i.ops[1]) == want and
              strip_casts(i.ops[1]).field()[0].startswith("struct.sqfs_block_processor_desc_t")]
        ok = bool(st)
        for s in st:
            v = strip_casts(s.ops[0])
            if v.is_const and v.is_null:
                ok = False
            srcs = {n for (_s, n) in fields_in_slice(s.ops[0])}
            if not (srcs & {"outfile", "uncmp"}):
                ok = False
        inst = "blkdesc.%s" % want
        # ... and the object is there: where it could not be made, the descriptor is not filled in at all
        if ok:
            src_fields = {n for s in st for (_s, n) in fields_in_slice(s.ops[0])} & {"outfile", "uncmp"}
            why = _object_missing(f, st, src_fields)
            if why is not None:
                chk.violation("K13-compare", inst, why, "the block processor descriptor's '%s' is filled in on a path on which the "
                              "object could not be created (or was set to NULL): without it the block processor keeps no copies "
                              "to compare with and takes equal size+checksum for equal data" % want)
                continue
        if ok:
            chk.ok("K13-compare", inst, st[0], "the block processor is given the output file / uncompressor it needs to compare fragments")
        else:
            chk.violation("K13-compare", inst, st[0] if st else f, "the block processor descriptor's '%s' is not set from the opened "
                          "output file / uncompressor: fragment comparison degrades to size+checksum" % want)


def rule_b_block_runs(chk, prog):
    unit = prog.by_src.get("lib/sqfs/src/block_writer.c")
    if unit is None:
        raise AnalysisBroken("block_writer.c not in the closure")
    direct = [f for f in unit.functions.values() if not f.decl and any(True for _ in f.build().calls("check_file_range_equal"))]
    if not direct:
        chk.violation("K-dedup-exit", "block-run search", list(unit.functions.values())[0],
                      "no function compares block runs with check_file_range_equal any more")
        return
    # the compare may live in a helper: the search function is then its caller; the helper must answer 'equal' (0)
    # only with the result of the file comparison
    f, cmpc = None, None
    for d in direct:
        c0 = list(d.calls("check_file_range_equal"))[0]
        if any(c0.bb in l[1] for l in d.loops):
            f, cmpc = d, c0
    if f is None:
        for d in direct:
            c0 = list(d.calls("check_file_range_equal"))[0]
            for c in prog.callers_of(d):
                if c.fn.unit is unit and any(c.bb in l[1] for l in c.fn.loops):
                    f, cmpc = c.fn, c
                    chk.analysed(d)
                    for (v, b) in ret_sources(d):
                        vv = strip_casts(v)
                        inst = "%s:result" % d.name
                        if vv is c0:
                            chk.ok("K-dedup-exit", inst, b.term, "helper returns the result of check_file_range_equal")
                        elif vv.is_const and vv.is_int and vv.sval != 0:
                            chk.ok("K-dedup-exit", inst, b.term, "constant non-zero (different / error)", nontrivial=False)
                        else:
                            chk.violation("K-dedup-exit", inst, b.term, "the comparison helper %s can answer 'equal' with something "
                                          "other than the result of check_file_range_equal on the file ranges (%s)" % (
                                              d.name, "constant 0" if vv.is_const else "a value computed elsewhere, e.g. an in-memory compare"))
    if f is None:
        chk.violation("K-dedup-exit", "block-run search", direct[0], "check_file_range_equal is not reached from a search loop")
        return
    chk.analysed(f)
    # the search loop: outermost loop containing the compare
    loops = [l for l in f.loops if cmpc.bb in l[1]]
    if not loops:
        chk.violation("K-dedup-exit", "block-run search", cmpc, "check_file_range_equal is not called inside the search loop")
        return
    header, body = max(loops, key=lambda l: len(l[1]))
    n = 0
    for b in body:
        for sx in b.succs:
            if sx in body:
                continue
            n += 1
            t = b.term
            cond = t.ops[0] if t.ops else None
            why = None
            if cond is not None:
                sl = backward_slice(cond, phi_control=False)
                flds = {nm for (_s, nm) in fields_in_slice(cond)}
                if cmpc in sl:
                    why = "result of check_file_range_equal"
                elif "flags" in flds and any(x.is_inst and x.op == "and" and any(o.is_const and o.is_int and o.uval == HASH_COMPARE_ONLY
                                                                                  for o in x.ops) for x in sl):
                    why = "HASH_COMPARE_ONLY configuration test"
                elif b is header and "file_start" in flds:
                    why = "loop bound (candidate index < start of the current file)"
            inst = "%s:exit@%d" % (f.name, t.line)
            if why:
                chk.ok("K-dedup-exit", inst, t, "search loop left on: " + why)
            else:
                chk.violation("K-dedup-exit", inst, t, "the block-run search can stop (and take the candidate) on a condition that is "
                              "neither the loop bound, nor the hash-only configuration, nor the byte comparison: equal checksums "
                              "alone make one file's blocks stand in for another's")
    # every other call that compares data in this function is suspicious: candidate acceptance must go through the file compare
    for c in f.calls():
        nm = norm_callee(c.callee)
        if nm in ("memcmp", "bcmp"):
            chk.violation("K-dedup-exit", "%s:%s" % (f.name, nm), c, "block runs are compared by %s instead of (or in addition to) "
                          "check_file_range_equal on the written file ranges" % nm)
    # K13: arguments
    if norm_callee(cmpc.callee) != "check_file_range_equal":
        chk.ok("K13-dedup-args", f.name, cmpc, "comparison delegated to a helper (its arguments are its own obligation)", nontrivial=False)
        return
    a_off, b_off, size = cmpc.ops[3], cmpc.ops[4], cmpc.ops[5]
    def deep_fields(v):
        out = set()
        for x in backward_slice(v, through_loads=True, phi_control=False):
            if x.is_inst and x.op == "getelementptr":
                out |= {nm for (_s, nm) in x.fields()}
        return out
    fa, fb = deep_fields(a_off), deep_fields(b_off)
    okargs = "offset" in fa and "offset" in fb and "file_start" in fa and \
        any(x.is_inst and x.op == "phi" for x in backward_slice(size, phi_control=False))
    idx_b = any(x.is_inst and x.op == "phi" and x.bb is header
                for x in backward_slice(b_off, through_loads=True, phi_control=False))
    # the length is the whole run: the value of the loop that sums up the block sizes, not something derived from it by a
    # minimum / a difference of offsets
    def is_accumulator(v):
        v = strip_casts(v)
        while v.is_inst and v.op in ("zext", "sext", "trunc"):
            v = v.ops[0]
        return v.is_inst and v.op == "phi" and any(o.is_inst and o.op == "add" and any(strip_casts(q) is v for q in o.ops) for o in v.ops)
    leaves, work, seenv = [], [size], set()
    while work:
        v = strip_casts(work.pop())
        while v.is_inst and v.op in ("zext", "sext", "trunc"):
            v = v.ops[0]
        if id(v) in seenv:
            continue
        seenv.add(id(v))
        if is_accumulator(v):
            leaves.append(("acc", v))
        elif v.is_inst and v.op in ("phi", "select"):
            work += list(v.ops if v.op == "phi" else v.ops[1:])
        else:
            leaves.append(("other", v))
    shortened = [v for (k, v) in leaves if k == "other" and not (v.is_const and v.is_int and v.uval == 0)]
    if okargs and idx_b and shortened:
        chk.violation("K13-dedup-args", f.name, cmpc, "the number of bytes compared is not always the summed size of the run (it can be "
                      "%s): blocks beyond that are accepted on size and checksum alone" % (shortened[0].op if shortened[0].is_inst else "another value"))
    elif okargs and idx_b:
        chk.ok("K13-dedup-args", f.name, cmpc, "compares the current file's start offset with the candidate's offset over the summed block sizes")
    else:
        chk.violation("K13-dedup-args", f.name, cmpc, "the byte comparison is not given (current file start, candidate offset, summed size)")
    return n


def rule_c_fragments(chk, prog):
    unit = prog.by_src.get("lib/sqfs/src/block_processor/block_processor.c")
    if unit is None:
        raise AnalysisBroken("block_processor.c not in the closure")
    eqs = set()
    for f in prog.functions():
        for c in f.calls("hash_table_create"):
            if f.unit.src.startswith("lib/sqfs/src/block_processor/"):
                for t in prog.fn_targets(c.ops[1], f.unit):
                    if not isinstance(t, ExternFn):
                        eqs.add(t.build())
    if not eqs:
        chk.broke("no key_equals callback of the fragment hash table found")
        return
    for f in eqs:
        chk.analysed(f)
        n_true = 0
        for (v, b) in ret_sources(f):
            inst = "%s:true@%s" % (f.name, b)
            vv = strip_casts(v)
            if vv.is_const:
                if vv.is_int and vv.uval != 0:
                    n_true += 1
                    # constant true: only where comparison is disabled by configuration
                    # every way into this block must carry a NULL test of a configuration field
                    flds = None
                    entries = []
                    stack_, seen_ = [b], set()
                    while stack_:
                        bb_ = stack_.pop()
                        if bb_ in seen_:
                            continue
                        seen_.add(bb_)
                        for p_ in bb_.preds:
                            if len(p_.succs) == 1 and not [i for i in p_.insts if i.op not in ("br",)]:
                                stack_.append(p_)       # empty forwarding block
                            else:
                                entries.append((p_, bb_))
                    for (p_, tgt) in entries:
                        got = set()
                        facts = list(f.guards_at(p_))
                        t_ = p_.term
                        if t_.op == "br" and len(t_.x["succ"]) == 2:
                            facts.append((t_.ops[0], tgt is t_.x["succ"][0], t_))
                        for cond, outcome, br in facts:
                            if cond.is_inst and cond.op == "icmp" and any(o.is_const and o.is_null for o in cond.ops) and \
                                    outcome == (cond.pred == "eq"):
                                got |= {nm for (_s, nm) in fields_in_slice(cond)}
                        got &= {"uncmp", "file", "current_frag", "frag_tbl"}
                        flds = got if flds is None else (flds if got else set()) if False else (flds | got if got else set())
                        if not got:
                            flds = set()
                            break
                    flds = flds or set()
                    if flds & {"uncmp", "file", "current_frag", "frag_tbl"}:
                        chk.ok("K-frag-true", inst, b.term, "constant 'equal' only where byte comparison is configured off (%s == NULL)" % sorted(flds))
                    else:
                        chk.violation("K-frag-true", inst, b.term, "the fragment comparator answers 'equal' without comparing bytes and "
                                      "without a NULL test of the comparison configuration")
                continue
            # non-constant: must be memcmp(...) == 0
            ok = False
            for x in backward_slice(v, phi_control=False):
                if x.is_inst and x.op == "icmp" and x.pred == "eq":
                    c = strip_casts(x.ops[0])
                    if c.is_inst and c.op == "call" and norm_callee(c.callee) in ("memcmp", "bcmp") and \
                            x.ops[1].is_const and x.ops[1].is_int and x.ops[1].sval == 0:
                        a0 = {nm for (_s, nm) in fields_in_slice(c.ops[0])}
                        a1 = {nm for (_s, nm) in fields_in_slice(c.ops[1])}
                        a2 = {nm for (_s, nm) in fields_in_slice(c.ops[2])}
                        if "data" in (a0 | set()) or True:
                            if ({"offset"} & a0 or {"offset"} & a1) and ({"current_frag"} & (a0 | a1)) and "size" in a2:
                                ok = True
            n_true += 1
            if ok:
                chk.ok("K-frag-true", inst, b.term, "'equal' is memcmp(candidate block data + offset, current fragment data, size) == 0")
            else:
                chk.violation("K-frag-true", inst, b.term, "the fragment comparator's non-constant result is not a byte comparison of "
                              "the candidate's bytes (block data + offset) with the current fragment")
        if n_true == 0:
            chk.broke("%s never returns true" % f.name)


def rule_d_current_frag(chk, prog):
    """the comparator needs proc->current_frag: it is set before and cleared after every hash-table call on the
    fragment table, and the lookup error is tested afterwards (C08-e)"""
    n = 0
    for f in prog.functions():
        if not f.unit.src.startswith("lib/sqfs/src/block_processor/"):
            continue
        hts = [c for c in f.calls() if norm_callee(c.callee) in HT_CALLS and
               any(fld(x.ops[0]) == "frag_ht" for a in c.ops[:1] for x in backward_slice(a) if x.is_inst and x.op == "load")]
        if not hts:
            continue
        chk.analysed(f)
        # typestate of current_frag
        def kind(i):
            if i.op == "store" and fld(i.ops[1]) == "current_frag":
                return "null" if (i.ops[0].is_const and i.ops[0].is_null) else "set"
            return None
        ins = {f.blocks[0]: frozenset(["null"])}
        work = [f.blocks[0]]
        at = {}
        while work:
            b = work.pop(0)
            st = ins[b]
            for i in b.insts:
                k = kind(i)
                if k:
                    st = frozenset([k])
                if i in hts:
                    at[i] = st
            for s in b.succs:
                cur = ins.get(s)
                nv = st if cur is None else cur | st
                if nv != cur:
                    ins[s] = nv
                    if s not in work:
                        work.append(s)
        for c in hts:
            n += 1
            inst = "%s:%s" % (f.name, norm_callee(c.callee))
            if at.get(c) == frozenset(["set"]):
                chk.ok("K-frag-ctx", inst, c, "proc->current_frag is set on every path to this hash-table call")
            else:
                chk.violation("K-frag-ctx", inst, c, "the fragment hash table is queried while proc->current_frag may be NULL: the "
                              "comparator then answers 'equal' on size+checksum alone and a colliding fragment replaces or "
                              "shadows another")
            # lookup error tested after the call
            tested = False
            for i in _after(f, c):
                if i.op == "load" and fld(i.ops[0]) == "fblk_lookup_error":
                    for u in f.uses.get(i, []):
                        if u.op == "icmp":
                            tested = True
            if tested:
                chk.ok("K5-frag-err", inst, c, "fblk_lookup_error is tested after the call")
            else:
                chk.violation("K5-frag-err", inst, c, "a failure inside the comparator (fblk_lookup_error) is not looked at after the "
                              "hash-table call: a failed re-read counts as 'different' silently")
    if n == 0:
        chk.broke("no hash-table call on the fragment table found")


def _after(f, inst):
    out = list(inst.bb.insts[inst.pos + 1:])
    seen, stack = set(), list(inst.bb.succs)
    while stack:
        b = stack.pop()
        if b in seen:
            continue
        seen.add(b)
        out.extend(b.insts)
        stack.extend(b.succs)
    return out


BP_EXCEPTIONS = {
    ("process_block", "memcpy", 0):
        "the compressed bytes replace the block's own data: a compressor's do_block answers a positive value only if it is "
        "smaller than the input size (K1-contract of C03 re-verifies that for every compressor on every run), and the input "
        "was block->size bytes lying in block->data",
}


def rule_e_inflight(chk, prog):
    """in-flight copies of fragment blocks: taken before the block is handed to a worker (which compresses it in
    place), under the same configuration test as the comparator, and freed only where the block hits the disk"""
    from ..anchors import submitter
    cands = submitter(prog)
    if not cands:
        raise AnalysisBroken("no function of the block processor submits blocks to the thread pool")
    f = cands[0]
    chk.analysed(f)
    subs = [c for c in f.calls() if slot_call(c) == ("struct.thread_pool_t", "submit")]

    def local_copies(g, pidx):
        g.build()
        cps = [c for c in g.calls("memcpy") if any(x.is_arg and x.idx == pidx for x in backward_slice(c.ops[1]))]
        lks = [i for i in g.insts() if i.op == "store" and fld(i.ops[1]) == "fblk_in_flight"]
        return cps, lks
    # the copy may sit in this function or in a static helper that is handed the block: its place in the order of
    # events is then the call of the helper
    events = []          # (site in f, memcpy, guard fields)
    cps, lks = local_copies(f, 1)
    links = list(lks)
    for c in cps:
        gf = set()
        for cond, outcome, br in f.guards_at(c.bb):
            gf |= {nm for (_s, nm) in fields_in_slice(cond)}
        events.append((c, c, gf))
    for c in f.calls():
        if not c.callee:
            continue
        g = prog.fn(c.callee, f.unit)
        if g is None or g.decl or g is f or g.unit is not f.unit:
            continue
        for k, o in enumerate(c.ops):
            if strip_casts(o).is_arg and strip_casts(o).idx == 1:
                hc, hl = local_copies(g, k)
                if hc and hl:
                    links += hl
                    for m in hc:
                        gf = set()
                        for cond, outcome, br in f.guards_at(c.bb):
                            gf |= {nm for (_s, nm) in fields_in_slice(cond)}
                        for cond, outcome, br in g.guards_at(m.bb):
                            gf |= {nm for (_s, nm) in fields_in_slice(cond)}
                        events.append((c, m, gf))
    copies = [e[1] for e in events]
    if not subs or not copies or not links:
        chk.violation("K11-inflight", "enqueue_block:copy", f, "enqueue_block no longer keeps an in-flight copy of fragment blocks "
                      "(submit=%d copy=%d link=%d)" % (len(subs), len(copies), len(links)))
    else:
        bad = None
        for s_ in subs:
            for (site, m, _gf) in events:
                if f.inst_dominates(s_, site) or (f.reaches(s_.bb, site.bb) and not f.inst_dominates(site, s_)):
                    bad = site
        if bad is None:
            chk.ok("K11-inflight", "enqueue_block:copy-before-submit", copies[0],
                   "the block's bytes are copied before it is handed to a worker (workers compress the block in place)")
        else:
            chk.violation("K11-inflight", "enqueue_block:copy-before-submit", bad,
                          "the in-flight copy is taken after the block was submitted: a worker may already have compressed it in "
                          "place, so later duplicates are compared against garbage")
        # copy guarded by the comparison configuration
        g = events[0][2]
        if {"file", "uncmp"} <= g:
            chk.ok("K11-inflight", "enqueue_block:config", copies[0], "copy made whenever file and uncompressor are configured")
        else:
            chk.violation("K11-inflight", "enqueue_block:config", copies[0], "the in-flight copy is not tied to the byte-compare configuration")
    # frees of in-flight elements
    def ptr_roots(p):
        seen, st, out = set(), [strip_casts(p)], []
        while st:
            q = st.pop()
            if q.id in seen:
                continue
            seen.add(q.id)
            if q.is_inst and q.op in ("phi", "select"):
                st.extend(strip_casts(o) for o in (q.ops if q.op == "phi" else q.ops[1:]))
            else:
                out.append(q)
        return out

    def list_fields(v):
        """fields of every load behind v, also where the loaded-from pointer is a cursor (pointer-to-link phi)"""
        out = {nm for (_s, nm) in fields_in_slice(v)}
        for x in backward_slice(v):
            if x.is_inst and x.op == "load":
                for r in ptr_roots(x.ops[0]):
                    if r.is_inst and r.op == "getelementptr":
                        out |= {nm for (_s, nm) in r.fields()}
        return out

    def writes_block(h):
        return [x for x in h.calls() if slot_call(x) == ("struct.sqfs_block_writer_t", "write_data_block")]
    n = 0
    for g_ in prog.functions():
        if not g_.unit.src.startswith("lib/sqfs/src/block_processor/"):
            continue
        for c in g_.calls("free"):
            v = strip_casts(c.ops[0])
            src = list_fields(v)
            if "fblk_in_flight" in src and not g_.name.endswith("destroy"):
                n += 1
                wr = writes_block(g_)
                where = "freed in the function that writes the block to disk"
                if not wr:
                    # a static helper whose every caller is the function that writes the block
                    callers = [ci.fn for ci in prog.callers_of(g_)] if g_.internal else []
                    if callers and all(writes_block(h) for h in callers):
                        wr = True
                        where = "freed in a static helper called only from the function that writes the block to disk"
                if wr:
                    chk.ok("K2-inflight-free", "%s:free" % g_.name, c, where)
                else:
                    chk.violation("K2-inflight-free", "%s:free" % g_.name, c, "an in-flight fragment block copy is freed outside the "
                                  "function that puts the block on disk")
    if n == 0:
        chk.broke("no release of in-flight copies found")


def rule_f_fragcache(chk, prog):
    """the block processor's cache of a re-read fragment block: the tag (index) is only set on paths that filled the
    payload for that index"""
    n = 0
    for f in prog.functions():
        if not f.unit.src.startswith("lib/sqfs/src/block_processor/"):
            continue

        def via_cache(p):
            for x in backward_slice(p, through_loads=True, phi_control=False):
                if x.is_inst and x.op == "getelementptr" and x.field() and x.field()[1] == "cached_frag_blk":
                    return True
            return False
        tags = [i for i in f.insts() if i.op == "store" and fld(i.ops[1]) == "index" and via_cache(i.ops[1])]
        if not tags:
            continue
        chk.analysed(f)
        writes = []
        for c in f.calls():
            k = None
            sc = slot_call(c)
            if sc == ("struct.sqfs_file_t", "read_at"):
                k = 2
            elif sc == ("struct.sqfs_compressor_t", "do_block"):
                k = 3
            elif norm_callee(c.callee) in ("memcpy", "memmove"):
                k = 0
            if k is not None and k < len(c.ops) and via_cache(c.ops[k]) and \
                    any(x.is_inst and x.op == "getelementptr" and x.field() and x.field()[1] == "data"
                        for x in backward_slice(c.ops[k], phi_control=False)):
                writes.append(c)
        wb = {w.bb for w in writes}
        # the tag names a whole block: what fills the payload fills it from its first byte
        for w in writes:
            sc = slot_call(w)
            k = 2 if sc == ("struct.sqfs_file_t", "read_at") else 3 if sc == ("struct.sqfs_compressor_t", "do_block") else 0
            d = strip_casts(w.ops[k])
            off = None
            while d.is_inst and d.op == "getelementptr":
                idx = [el[1] for el in d.x["gep"] if el[0] in ("*", "[]")]
                if any(not (v.is_const and v.is_int and v.sval == 0) for v in idx):
                    off = d
                    break
                if d.field() and d.field()[1] == "data":
                    break
                d = strip_casts(d.ops[0])
            if off is not None:
                n += 1
                chk.violation("K9-fragcache", "%s:cached_frag_blk fill@%d" % (f.name, w.line), w,
                              "the cached fragment block is filled from an offset inside its payload while its index names the "
                              "whole block: the rest of the payload keeps the bytes of the block that was cached before, and "
                              "the next lookup of another chunk of this block is compared with them")
        for t in tags:
            n += 1
            # a path from entry to the tag store avoiding every payload write?
            seen, stack, bad = set(), [f.blocks[0]], False
            while stack:
                b = stack.pop()
                if b in seen:
                    continue
                seen.add(b)
                if b in wb:
                    continue
                if b is t.bb:
                    bad = True
                    break
                stack.extend(b.succs)
            inst = "%s:cached_frag_blk" % f.name
            if not bad and writes:
                chk.ok("K9-fragcache", inst, t, "the cached fragment block's index is set only after its data was read into the cache")
            else:
                chk.violation("K9-fragcache", inst, t, "a path sets the cached fragment block's index without having filled its data: "
                              "later duplicates are compared against stale bytes, so whether they are shared depends on which "
                              "copy (in-flight, current, re-read) happens to be consulted")
    if n == 0:
        chk.broke("no cached fragment block tag store found")


def rule_j_logged(chk, prog):
    """K11-logged: the block writer truncates the image behind the last block it has on record when it drops a duplicate
    run, so its record must be complete: in the function that writes a data block, every path that reaches the write
    (write_at) has put the block on record before (a call that appends to the writer's table, directly or in a helper).
    A kind of block that is written but left off the record is cut off by the next truncation while the tables keep
    pointing at it."""
    from .c13 import _e7_walk
    impls = prog.slot_impls(("struct.sqfs_block_writer_t", "write_data_block"))
    n = 0

    class _S:
        pass

    def records(c, f, depth=0):
        nm = norm_callee(c.callee)
        if nm == "array_append":
            return True
        if c.callee and depth < 3:
            t = prog.fn(c.callee, f.unit)
            if t is not None and not t.decl and t.unit is f.unit:
                t.build()
                return any(records(x, t, depth + 1) for x in t.calls())
        return False
    for f in sorted(impls, key=lambda x: x.qname):
        if f.decl:
            continue
        f.build()
        writes = [c for c in f.calls() if slot_call(c) == ("struct.sqfs_file_t", "write_at")]
        if not writes:
            continue
        n += 1
        chk.analysed(f)
        inst = "%s:record-before-write" % f.name
        st = _S()
        st.bb = f.blocks[0]
        bad = None
        for (v, r, path) in _e7_walk(prog, f, st, None, [], set()):
            for w in writes:
                if w.bb not in path:
                    continue
                cut = path.index(w.bb)
                rec = False
                for k in range(cut + 1):
                    for i in path[k].insts:
                        if k == cut and i.pos >= w.pos:
                            break
                        if i.op == "call" and records(i, f):
                            rec = True
                if not rec:
                    bad = w
            if bad is not None:
                break
        if bad is None:
            chk.ok("K11-logged", inst, writes[0], "every block that is written was put on the writer's record first")
        else:
            chk.violation("K11-logged", inst, bad, "a block can be written to the image without being put on the block writer's "
                          "record: the truncation after a duplicate run only knows the recorded blocks and cuts the unrecorded "
                          "one off while the fragment table keeps pointing at it")
    if n == 0:
        chk.broke("no implementation of sqfs_block_writer_t.write_data_block writes to the file")
    return n


def rule_compare_covers(chk, prog):
    """K10-resume: the byte comparison of two file ranges (check_file_range_equal) reads each range front to back.  A read
    that can follow an earlier read of the same comparison continues where that one ended: its position is formed from
    something besides the range's start -- a loop-carried position, an index, the amount already compared.  A position
    that is the bare start parameter again compares the first bytes twice and the last bytes never."""
    f = prog.fn("check_file_range_equal")
    if f is None or f.decl:
        chk.broke("check_file_range_equal is not part of the program")
        return 0
    f.build()
    cl, _e, _u = prog.reachable_from([f], stop=lambda g, u=f.unit: g.unit is not u)

    def reads_file(c):
        if slot_call(c) == ("struct.sqfs_file_t", "read_at"):
            return 1               # index of the position operand
        if c.callee:
            g = prog.fn(c.callee, f.unit)
            if g is not None and g in cl and g is not f:
                for x in g.build().calls():
                    if slot_call(x) == ("struct.sqfs_file_t", "read_at"):
                        return None if not g.params else -1
        return None
    sites = []
    for c in f.calls():
        k = reads_file(c)
        if k is None:
            continue
        if k == -1:
            # a helper: its 64 bit integer arguments are the positions (and the length)
            pos = [o for o in c.ops if (getattr(o, "ty", "") or "") == "i64"]
        else:
            pos = [c.ops[k]]
        sites.append((c, pos))
    if not sites:
        chk.broke("check_file_range_equal reads nothing")
        return 0
    n = 0
    starts = [p for p in f.params if p.ty == "i64"]
    for (c, pos) in sites:
        earlier = [c0 for (c0, _p) in sites if c0 is not c and f.reaches(c0.bb, c.bb)] or \
            ([c] if f.loop_of(c.bb) is not None else [])
        if not earlier:
            continue
        n += 1
        chk.analysed(f)
        inst = "%s:read@%d" % (f.name, c.line)
        bare = [p for p in pos if any(strip_casts(p) is s_ for s_ in starts[:2])]
        if not bare:
            chk.ok("K10-resume", inst, c, "a read that can follow an earlier one is positioned by more than the start of the range")
        else:
            chk.violation("K10-resume", inst, c, "this read can follow an earlier read of the same comparison but is positioned at the bare "
                          "start of the range: the first bytes are compared twice and the tail never, runs that differ only "
                          "there are taken for duplicates")
    if n == 0:
        chk.broke("check_file_range_equal: no read follows another (not a loop any more?)")
    return n


def rule_h_equals_reports(chk, prog):
    """the fragment comparison callback returns bool and cannot hand an error to its caller: whenever reading the candidate
    back fails, the failure is recorded in the processor's error field before 'not equal' is answered -- otherwise an
    unreadable candidate is silently taken for a different one and the error never stops the run"""
    from ..errflow import ErrModel, failure_edges
    from ..anchors import fragment_equals
    fs = fragment_equals(prog)
    if not fs:
        chk.broke("equality callback of the fragment hash table not found")
        return
    f = fs[0].build()
    chk.analysed(f)
    em = ErrModel(prog)
    n = 0
    from .c13 import _e7_walk
    root = f
    done = set()

    class _S:
        pass

    def verify(g, is_root):
        """every failure of something g calls is on record when control is back in the hash table: recorded in g, or (g a static
        helper) handed to g's caller as a non-zero status, where the same is asked of the caller"""
        nonlocal n
        if g in done:
            return
        done.add(g)
        g.build()
        chk.analysed(g)
        for c in g.calls():
            h = prog.fn(c.callee, g.unit) if c.callee else None
            if h is not None and not h.decl and h.internal and h.unit is g.unit and not em.call_is_err(c):
                verify(h, False)        # a helper that answers something else than a status: it records what fails in it
                continue
            if not em.call_is_err(c):
                continue
            n += 1
            inst = "%s:%s" % (g.name, norm_callee(c.callee) or "indirect")
            bad = None
            edges = failure_edges(g, c)
            if not edges:
                chk.violation("K5-frag-report", inst, c, "the result of %s is not tested against zero" % norm_callee(c.callee))
                continue
            # every path from the call, taken under the assumption that it failed (branches on the result against zero are
            # followed on the failing side; tests against particular error codes can go either way), records the error
            st = _S()
            st.bb = c.bb
            for (v, r, path) in _e7_walk(prog, g, st, None, [], set(), {id(c)}):
                recorded = False
                for k, b in enumerate(path):
                    insts = b.insts[c.pos + 1:] if (k == 0 and b is c.bb) else b.insts
                    if any(i.op == "store" and _fld(i.ops[1]) == "fblk_lookup_error" and
                           not (i.ops[0].is_const and i.ops[0].is_int and i.ops[0].sval == 0) for i in insts):
                        recorded = True
                if not recorded and not is_root and g in em.err:
                    # a static helper with a status of its own: the failure goes up as a non-zero answer and the caller is
                    # asked the same question at its call of the helper
                    vv = strip_casts(v)
                    if vv is c or (vv.is_const and vv.is_int and vv.sval != 0) or not vv.is_const:
                        recorded = True
                if not recorded:
                    bad = r.bb
                    break
            if bad is None:
                chk.ok("K5-frag-report", inst, c, "every failure of the read-back is recorded in fblk_lookup_error before the callback returns")
            else:
                chk.violation("K5-frag-report", inst, bad.term, "a failure of %s can end in 'not equal' without being recorded in "
                              "fblk_lookup_error: an I/O error while reading the candidate back is swallowed and the run goes on with a "
                              "cache that may hold half of another block" % norm_callee(c.callee))
            if h is not None and not h.decl and h.internal and h.unit is g.unit:
                verify(h, False)
    verify(root, True)
    if n == 0:
        chk.broke("chunk_info_equals no longer calls a function that can fail")


def rule_i_every_block(chk, prog):
    """every completed data block is handed to the block writer: the writer keeps per-file state (first block resets the
    file's start, last block triggers deduplication), so the call must not depend on the block's flags"""
    from .c17 import guards_with_mask, is_flag_word
    n = 0
    for f in prog.functions():
        if f.decl or not f.unit.src.startswith("lib/sqfs/src/block_processor/"):
            continue
        for c in f.calls():
            if slot_call(c) != ("struct.sqfs_block_writer_t", "write_data_block"):
                continue
            n += 1
            f.build()
            chk.analysed(f)
            inst = "%s:write_data_block" % f.name
            from .c17 import mask_test
            gs = [(v, m, st) for (v, m, st) in guards_with_mask(f, c.bb) if is_flag_word(f, v)]
            # a test of the block's flags decides whether the call happens at all: some branch on a flag mask from which the
            # call is reachable is not post-dominated by it
            for pb in f.blocks:
                tt = pb.term if pb.insts else None
                if tt is None or tt.op != "br" or len(tt.x["succ"]) != 2 or not f.reaches(pb, c.bb) or pb is c.bb:
                    continue
                cond = tt.ops[0]
                mts = []
                mt = mask_test(cond)
                if mt:
                    mts.append(mt)
                elif cond.is_inst and cond.op == "phi" and cond.ty == "i1":
                    for o in cond.ops:
                        m2 = mask_test(o)
                        if m2:
                            mts.append(m2)
                for mt in mts:
                    if is_flag_word(f, mt[0]) and not f.postdominates(c.bb, pb):
                        gs.append((mt[0], mt[1], "tested"))
            if not gs:
                chk.ok("K11-everyblock", inst, c, "the block writer sees every block, whatever its flags")
            else:
                chk.violation("K11-everyblock", inst, c, "blocks are handed to the block writer only when flag mask 0x%x is %s: the writer "
                              "misses first/last blocks of some files and attributes their data to the wrong file" % (gs[0][1], gs[0][2]))
    if n == 0:
        chk.broke("no call of write_data_block found in the block processor")
    return n


def rule_g_truncate(chk, prog):
    """after a duplicate run was found the output file is cut at the end of the last block that is *kept*: the argument of
    truncate is computed from the block list at the updated element count (offset and size of entry used-1), not from a
    position remembered before the bookkeeping was updated"""
    from ..util import backward_slice
    n = 0
    for f in prog.functions():
        if f.decl or f.unit.src != "lib/sqfs/src/block_writer.c":
            continue
        for c in f.calls():
            if slot_call(c) != ("struct.sqfs_file_t", "truncate"):
                continue
            n += 1
            chk.analysed(f)
            inst = "%s:truncate" % f.name
            used_stores = [i for i in f.insts() if i.op == "store" and _fld(i.ops[1]) == "used"]
            sl = backward_slice(c.ops[1], through_loads=True, phi_control=False)
            used_loads = [x for x in sl if x.is_inst and x.op == "load" and _fld(x.ops[0]) == "used" and
                          used_stores and all(f.inst_dominates(s_, x) or not f.reaches(x.bb, s_.bb) for s_ in used_stores) and
                          any(f.inst_dominates(s_, x) or f.reaches(s_.bb, x.bb) for s_ in used_stores)]
            if not used_loads and len(used_stores) == 1 and f.inst_dominates(used_stores[0], c):
                # the very value that was stored as the new count (a local that is both stored and used as the index)
                sv = strip_casts(used_stores[0].ops[0])
                if not sv.is_const:
                    used_loads = [x for x in sl if x is sv]
            offs = [x for x in sl if x.is_inst and x.op == "load" and _fld(x.ops[0]) == "offset"]
            sizes = [x for x in sl if x.is_inst and x.op == "load" and _fld(x.ops[0]) == "hash"]
            if used_loads and offs and sizes:
                chk.ok("K13-truncate", inst, c, "the new end of the output is offset + size of the block list entry at the updated count")
            elif not used_stores:
                chk.note("K13-truncate %s: the function does not change the block count; not decided" % inst)
                chk.ok("K13-truncate", inst, c, "no bookkeeping change next to this truncate")
            else:
                chk.violation("K13-truncate", inst, c, "the output file is truncated to a position that is not derived from the block list "
                              "after its element count was updated: when the duplicate run overlaps the file's own first blocks, blocks "
                              "that are still referenced are cut off (and overwritten by later data)")
    if n == 0:
        chk.broke("no truncate call found in block_writer.c")
    return n


def _fld(p):
    p = strip_casts(p)
    if p.is_inst and p.op == "getelementptr":
        fl = p.field()
        return fl[1] if fl else None
    return None


def run(chk):
    chk.explanation = (
        "Necessary structural conditions for 'equal checksum never shares storage', decided on LLVM IR of the "
        "gensquashfs closure: the tools enable byte comparison (flags and descriptor fields); every exit of the block-run "
        "search loop is the loop bound, the hash-only configuration test, or the result of check_file_range_equal on "
        "(current file start, candidate offset, summed size), and no other comparison decides; every 'equal' of the fragment "
        "comparator is memcmp(candidate bytes + offset, current fragment, size) == 0 or a constant under a NULL test of the "
        "comparison configuration; proc->current_frag is set at every query of the fragment hash table and the lookup error "
        "is tested afterwards; in-flight copies are taken before the block is submitted and freed only where the block is "
        "written. That identical files do share storage, and check_file_range_equal's arithmetic, are not decided. Further rules: K13-truncate (truncation point after a duplicate run is derived from the updated block list), K5-frag-report (a failed read-back is recorded before 'not equal' is answered), K11-everyblock (every completed block reaches the block writer), K13-dedup-args also demands the full summed length. K10-resume: a read of the byte comparison that follows another continues behind it (never at the bare start of the range); K6 over the block processor: copies into the read-back buffers fit the allocation sites that can be behind the member they go through.")
    chk.assumptions = ["check_file_range_equal and memcmp compare bytes faithfully"]
    prog = load_program("gensquashfs")
    rule_a_tools_enable(chk, prog)
    rule_b_block_runs(chk, prog)
    rule_c_fragments(chk, prog)
    rule_d_current_frag(chk, prog)
    rule_e_inflight(chk, prog)
    rule_f_fragcache(chk, prog)
    rule_g_truncate(chk, prog)
    rule_h_equals_reports(chk, prog)
    rule_i_every_block(chk, prog)
    rule_j_logged(chk, prog)
    chk.floor("K11-logged", 1)
    chk.floor("K9-fragcache", 1)
    chk.floor("K12-compare", 1)
    chk.floor("K13-compare", 2)
    chk.floor("K-dedup-exit", 3)
    chk.floor("K13-dedup-args", 1)
    # the buffers the comparison reads blocks back into: every copy into them fits the allocation that can be behind
    # the pointer member it goes through (a block taken over from another list has that list's capacity)
    rule_compare_covers(chk, prog)
    chk.floor("K10-resume", 1)
    from ..k6 import run_k6
    run_k6(chk, prog, {"lib/sqfs/src/block_processor/block_processor.c"}, BP_EXCEPTIONS, "K6")
    chk.floor("K6", 4)
    chk.floor("K-frag-true", 2)      # one memcmp result + at least one configured-off return (merged tests count once)
    chk.floor("K-frag-ctx", 2)
    chk.floor("K5-frag-err", 2)
    chk.floor("K11-inflight", 2)
    chk.floor("K2-inflight-free", 1)
