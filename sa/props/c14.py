"""C14 -- a killed packer never leaves a file that reads as complete (K11/K12/K2/K1)."""
from ..ir import load_program, strip_casts, norm_callee, ExternFn
from ..build import AnalysisBroken
from ..util import resolve_ptr, backward_slice, const_int
from ..effects import Effects, slot_call, fields_in_slice, success_points, reachable_after, OUTPUT_SLOTS

SUPER = "struct.sqfs_super_t"
TABLE_STARTS = ("id_table_start", "xattr_id_table_start", "inode_table_start", "directory_table_start",
                "fragment_table_start", "export_table_start")
ALL_ONES = (1 << 64) - 1


def super_field(p):
    p = strip_casts(p)
    while p.is_inst and p.op == "getelementptr":
        for (s, n) in reversed(p.fields()):
            if s == SUPER or s.startswith(SUPER + "."):
                return n
        p = strip_casts(p.ops[0])
    return None


def rule_a_super_init(chk, prog):
    f = prog.need_fn("sqfs_super_init")
    chk.analysed(f)
    succ = success_points(f)
    stores = {}
    for i in f.insts():
        if i.op == "store":
            n = super_field(i.ops[1])
            if n:
                stores.setdefault(n, []).append(i)
    zeroed = [c for c in f.calls("memset") if strip_casts(c.ops[0]) is f.params[0] or
              resolve_ptr(prog, c.ops[0], f.unit)[0] is f.params[0]]
    zero_ok = any(const_int(c.ops[1]) == 0 and all(f.dominates(c.bb, b) for b in succ) for c in zeroed)
    for fld in TABLE_STARTS:
        st = stores.get(fld, [])
        ok = bool(st) and all(s.ops[0].is_const and s.ops[0].is_int and s.ops[0].uval == ALL_ONES for s in st) and \
            any(all(f.dominates(s.bb, b) for b in succ) for s in st)
        if ok:
            chk.ok("K12-init", fld, st[0], "provisional superblock stores the all-ones constant on every success path")
        else:
            chk.violation("K12-init", fld, st[0] if st else f,
                          "sqfs_super_init does not leave '%s' at the all-ones sentinel on every success path: the "
                          "provisional superblock written first could pass the readers' table checks" % fld)
    st = stores.get("id_count", [])
    if not st and zero_ok:
        chk.ok("K12-init", "id_count", zeroed[0], "zeroed by memset, never stored: readers reject id_count == 0")
    else:
        chk.violation("K12-init", "id_count", st[0] if st else f,
                      "provisional superblock carries a non-zero id_count (or is not zeroed)")
    st = stores.get("bytes_used", [])
    size = prog.struct(SUPER)["size"]
    if st and all(const_int(s.ops[0]) == size for s in st):
        chk.ok("K12-init", "bytes_used", st[0], "bytes_used = sizeof(super) = %d: every table start is beyond it" % size)
    else:
        chk.violation("K12-init", "bytes_used", st[0] if st else f, "provisional bytes_used is not the superblock size")


def calls_to(f, name):
    return [c for c in f.calls() if norm_callee(c.callee) == name]


def rule_a_init_window(chk, prog):
    """in sqfs_writer_init no store to the sentinel fields between sqfs_super_init and the first sqfs_super_write"""
    f = prog.need_fn("sqfs_writer_init")
    chk.analysed(f)
    ini = calls_to(f, "sqfs_super_init")
    wr = calls_to(f, "sqfs_super_write")
    if len(ini) != 1 or len(wr) != 1:
        chk.violation("K11-window", "init->write", f, "expected exactly one sqfs_super_init and one sqfs_super_write in "
                      "sqfs_writer_init, found %d / %d" % (len(ini), len(wr)))
        return
    if not f.inst_dominates(ini[0], wr[0]):
        chk.violation("K11-window", "init->write", wr[0], "the first superblock write is not dominated by sqfs_super_init")
        return
    bad = None
    between = [i for i in reachable_after(f, ini[0]) if f.inst_dominates(i, wr[0]) or i.bb is wr[0].bb and i.pos < wr[0].pos]
    for i in between:
        if i.op == "store":
            n = super_field(i.ops[1])
            if n in TABLE_STARTS + ("id_count", "bytes_used"):
                bad = i
        elif i.op == "call" and i is not wr[0]:
            # a callee receiving the superblock could change it
            for a in i.ops:
                if not a.is_const and a.ty.startswith("%" + SUPER) and norm_callee(i.callee) not in ("sqfs_super_write",):
                    bad = i
    if bad is not None:
        chk.violation("K11-window", "init->write", bad, "superblock sentinel fields may change between sqfs_super_init "
                      "and the provisional sqfs_super_write")
    else:
        chk.ok("K11-window", "init->write", wr[0], "%d instructions between init and the provisional write touch no "
               "sentinel field" % len(between))
    # every output-writing call of sqfs_writer_init comes after the provisional superblock
    eff = Effects(prog)
    mwo = eff.may_write_output()
    for c in f.calls():
        if c is wr[0]:
            continue
        if eff.call_may(c, mwo, lambda i: slot_call(i) in OUTPUT_SLOTS):
            nm = norm_callee(c.callee) or str(slot_call(c))
            if f.inst_dominates(wr[0], c):
                chk.ok("K11-window", "after-provisional:%s" % nm, c, "output written only after the provisional superblock")
            else:
                chk.violation("K11-window", "after-provisional:%s" % nm, c,
                              "output may be written before the provisional (unreadable) superblock is in place")


def is_append_only(prog, g, eff):
    """every write_at in g (transitively trivial: g itself) uses get_size() of the same file as offset"""
    ws = [i for i in g.insts() if i.op == "call" and slot_call(i) in OUTPUT_SLOTS]
    if not ws:
        return False
    for w in ws:
        if slot_call(w) != ("struct.sqfs_file_t", "write_at"):
            return False
        off = w.ops[1]
        ok = any(x.is_inst and x.op == "call" and slot_call(x) == ("struct.sqfs_file_t", "get_size")
                 for x in backward_slice(off))
        if not ok:
            return False
    # and it calls nothing else that writes
    mwo = eff.may_write_output()
    for c in g.calls():
        ts, _ = prog.call_targets(c)
        if any((not isinstance(t, ExternFn)) and t in mwo for t in ts) and c not in ws:
            return False
    return True


def rule_b_finish(chk, prog):
    f = prog.need_fn("sqfs_writer_finish")
    chk.analysed(f)
    eff = Effects(prog)
    mwo = eff.may_write_output()
    commits = eff.closure("commit", lambda i: norm_callee(i.callee) == "sqfs_super_write")
    sw = [c for c in f.calls() if norm_callee(c.callee) == "sqfs_super_write" or
          (c.callee and prog.fn(c.callee, f.unit) in commits and prog.fn(c.callee, f.unit).internal)]
    if len(sw) == 0:
        chk.violation("K11-final", "single-commit", f, "sqfs_writer_finish never commits the superblock")
        return
    if len(sw) > 1:
        # several commit sites: everything between the first and the last one is written after a commit
        first = [c for c in sw if all(c is d or f.inst_dominates(c, d) or not f.reaches(d.bb, c.bb) for d in sw)]
        sw_first = first[0] if first else sw[0]
        chk.violation("K11-final", "single-commit", sw[1] if sw[1] is not sw_first else sw[0],
                      "sqfs_writer_finish commits the superblock at %d sites: the image becomes readable at the first "
                      "one although tables are still written before the last" % len(sw))
        sw = sw_first
    else:
        sw = sw[0]
    succ = success_points(f)
    if all(f.dominates(sw.bb, b) for b in succ) and succ:
        chk.ok("K11-final", "commit-dominates-success", sw, "every success return passes the final sqfs_super_write")
    else:
        chk.violation("K11-final", "commit-dominates-success", sw, "a success return of sqfs_writer_finish does not pass "
                      "the final sqfs_super_write")
    n = 0
    for c in f.calls():
        if c is sw:
            continue
        if not eff.call_may(c, mwo, lambda i: slot_call(i) in OUTPUT_SLOTS):
            continue
        nm = norm_callee(c.callee) or str(slot_call(c))
        n += 1
        after = c in reachable_after(f, sw)
        if not after:
            if f.inst_dominates(c, sw) or f.reaches(c.bb, sw.bb):
                chk.ok("K11-final", "before-commit:%s" % nm, c, "writes output strictly before the final superblock")
            else:
                chk.ok("K11-final", "before-commit:%s" % nm, c, "not on a path with the commit", nontrivial=False)
        else:
            g = prog.fn(norm_callee(c.callee), f.unit) if c.callee else None
            if g is not None and not g.decl and is_append_only(prog, g.build(), eff):
                chk.ok("K11-final", "after-commit:%s" % nm, c, "only appends at get_size() (padding); nothing the "
                       "superblock refers to is written after the commit")
            else:
                chk.violation("K11-final", "after-commit:%s" % nm, c,
                              "output is written after the final superblock was committed: a kill in between leaves a "
                              "file that reads as complete but is not")
    # bytes_used assigned from get_size after the last table write, before the commit (shared with C03-b)
    bu = [i for i in f.insts() if i.op == "store" and super_field(i.ops[1]) == "bytes_used"]
    okbu = False
    for s in bu:
        from_size = any(x.is_inst and x.op == "call" and slot_call(x) == ("struct.sqfs_file_t", "get_size")
                        for x in backward_slice(s.ops[0]))
        later_writers = [c for c in reachable_after(f, s) if c.op == "call" and c is not sw and
                         eff.call_may(c, mwo, lambda i: slot_call(i) in OUTPUT_SLOTS) and not c in reachable_after(f, sw)]
        if from_size and f.inst_dominates(s, sw) and not later_writers:
            okbu = True
    if okbu:
        chk.ok("K11-final", "bytes_used", bu[0], "bytes_used = outfile->get_size() after the last table write, before the commit")
    else:
        chk.violation("K11-final", "bytes_used", bu[0] if bu else f,
                      "bytes_used is not taken from the file size after the last table write and before the final commit")
    return n


def _only_called_from(prog, g, allowed, depth=0):
    """g is a static helper whose every caller is (a static helper of) one of the allowed functions"""
    if not g.internal or depth > 3:
        return False
    cs = prog.callers_of(g)
    if not cs:
        return False
    return all(c.fn.name in allowed or _only_called_from(prog, c.fn, allowed, depth + 1) for c in cs)


def rule_c_who_commits(chk, prog, tool):
    allowed = {"sqfs_writer_init", "sqfs_writer_finish"}
    n = 0
    for f in prog.functions():
        for c in f.calls():
            if norm_callee(c.callee) == "sqfs_super_write":
                n += 1
                if f.name in allowed or _only_called_from(prog, f, allowed):
                    chk.ok("K2-commit", "%s:%s" % (tool, f.name), c, "superblock written by the writer's init/finish%s" % (
                        "" if f.name in allowed else " (static helper of it)"))
                else:
                    chk.violation("K2-commit", "%s:%s" % (tool, f.name), c,
                                  "sqfs_super_write called outside sqfs_writer_init/sqfs_writer_finish in the %s closure" % tool)
            if c.op == "call" and slot_call(c) == ("struct.sqfs_file_t", "write_at") and len(c.ops) > 1:
                off = c.ops[1]
                if off.is_const and off.is_int and off.uval == 0:
                    n += 1
                    if f.name == "sqfs_super_write":
                        chk.ok("K2-commit", "%s:write_at(0):%s" % (tool, f.name), c, "offset-0 write is the superblock writer")
                    else:
                        chk.violation("K2-commit", "%s:write_at(0):%s" % (tool, f.name), c,
                                      "a write at constant offset 0 outside sqfs_super_write can overwrite the superblock")
    return n


def guard_on(fn, block, sname, field):
    """guards dominating `block` whose condition reads sname.field"""
    out = []
    for cond, outcome, br in fn.guards_at(block):
        fl = fields_in_slice(cond)
        if any((s == sname or s.startswith(sname + ".")) and n == field for (s, n) in fl):
            out.append((cond, outcome, br))
    return out


def rule_d_readers_reject(chk, prog):
    f = prog.need_fn("sqfs_super_read")
    chk.analysed(f)
    succ = success_points(f)
    ok = False
    for b in succ:
        for cond, outcome, br in guard_on(f, b, SUPER, "id_count"):
            if cond.is_inst and cond.op == "icmp" and cond.pred in ("eq", "ne"):
                z = [o for o in cond.ops if o.is_const and o.is_int and o.sval == 0]
                if z and outcome == (cond.pred == "ne"):
                    ok = True
    if ok and succ:
        chk.ok("K1-reject", "sqfs_super_read:id_count", f, "success is only reachable where id_count != 0")
    else:
        chk.violation("K1-reject", "sqfs_super_read:id_count", f,
                      "sqfs_super_read accepts a superblock with id_count == 0: the provisional superblock of an "
                      "interrupted run reads as valid")
    g = prog.need_fn("sqfs_id_table_read")
    chk.analysed(g)
    # the call that reads the table must be dominated by id_table_start < bytes_used
    ok = False
    reads = calls_to(g, "sqfs_read_table")
    for c in reads:
        for cond, outcome, br in g.guards_at(c.bb):
            if not (cond.is_inst and cond.op == "icmp"):
                continue
            fl0 = {n for (s, n) in fields_in_slice(cond.ops[0])}
            fl1 = {n for (s, n) in fields_in_slice(cond.ops[1])}
            p = cond.pred
            lt = None
            if "id_table_start" in fl0 and "bytes_used" in fl1:
                lt = (p in ("ult", "slt") and outcome is True) or (p in ("uge", "sge") and outcome is False)
            elif "bytes_used" in fl0 and "id_table_start" in fl1:
                lt = (p in ("ugt", "sgt") and outcome is True) or (p in ("ule", "sle") and outcome is False)
            if lt:
                ok = True
    if ok and reads:
        chk.ok("K1-reject", "sqfs_id_table_read:start<bytes_used", reads[0],
               "the id table is only read where id_table_start < bytes_used")
    else:
        chk.violation("K1-reject", "sqfs_id_table_read:start<bytes_used", reads[0] if reads else g,
                      "sqfs_id_table_read does not reject id_table_start >= bytes_used (the provisional state)")


def rule_e_finish_last(chk, prog, tool):
    eff = Effects(prog)
    mwo = eff.may_write_output()
    n = 0
    for f in prog.functions():
        fin = calls_to(f, "sqfs_writer_finish")
        for c in fin:
            chk.analysed(f)
            n += 1
            bad = None
            for i in reachable_after(f, c):
                if i.op == "call" and i is not c and eff.call_may(i, mwo, lambda x: slot_call(x) in OUTPUT_SLOTS):
                    # the other packer's cleanup may unlink, but must not write
                    bad = i
                    break
            if bad is None:
                chk.ok("K11-last", "%s:%s" % (tool, f.name), c, "no output-writing call is reachable after sqfs_writer_finish")
            else:
                chk.violation("K11-last", "%s:%s" % (tool, f.name), bad,
                              "%s may write to the image after sqfs_writer_finish committed the superblock" %
                              (norm_callee(bad.callee) or "an indirect call"))
    if n == 0:
        chk.broke("no call to sqfs_writer_finish in the %s closure" % tool)


def rule_commit_guard(chk, prog, tool):
    """K11-commitguard: the call that commits the image is reached only when everything the tool did with its input before
    has succeeded.  In main of a packer, sqfs_writer_finish cannot be reached from the failure edge of an earlier call of
    a stage of the tool (a function of the tool or of the writer / tree layer that answers a status which main tests).
    A run that failed on its input and still goes through finish leaves, until the cleanup removes it, a complete and
    readable image of a truncated input."""
    main = [f for f in prog.functions() if f.name == "main" and f.unit.src.startswith("bin/%s/" % tool)]
    if not main:
        chk.broke("main of %s not found" % tool)
        return 0
    m = main[0].build()
    fins = calls_to(m, "sqfs_writer_finish")
    n = 0
    for fin in fins:
        n += 1
        chk.analysed(m)
        bad = None
        for c in m.calls():
            if c is fin or not c.callee or not (m.inst_dominates(c, fin) or m.reaches(c.bb, fin.bb)):
                continue
            g = prog.fn(c.callee, m.unit)
            if g is None or g.decl or c.ty not in ("i32", "i64", "i8", "i1"):
                continue
            if not (g.unit.src.startswith(("bin/%s/" % tool, "lib/common/", "lib/fstree/", "lib/tar/"))):
                continue
            tests = [u for u in m.uses.get(c, []) if u.op == "icmp" and u.ops[1].is_const and u.ops[1].is_int and u.ops[1].sval == 0]
            # also through a status variable that is tested later (`ret = stage(); ... if (ret == 0) status = SUCCESS`)
            if not tests:
                continue
            # (a) the failure side of a test of the result does not lead to finish
            tblocks = set()
            for u in tests:
                for br in m.uses.get(u, []):
                    if br.op != "br" or len(br.x["succ"]) != 2:
                        continue
                    tblocks.add(br.bb)
                    fail = br.x["succ"][1] if u.pred == "eq" else (br.x["succ"][0] if u.pred in ("ne", "slt") else None)
                    if fail is not None and (fail is fin.bb or m.reaches(fail, fin.bb)):
                        bad = (c, br)
            # (b) and the result is tested before finish can be reached from the call
            if c.bb not in tblocks:
                seen_, st_ = set(), list(c.bb.succs)
                while st_:
                    b_ = st_.pop()
                    if b_ in seen_ or b_ in tblocks:
                        continue
                    seen_.add(b_)
                    if b_ is fin.bb:
                        bad = (c, c)
                        break
                    st_.extend(b_.succs)
        inst = "%s:main->sqfs_writer_finish@%d" % (tool, fin.line)
        if bad is None:
            chk.ok("K11-commitguard", inst, fin, "not reachable from the failure edge of any earlier stage")
        else:
            chk.violation("K11-commitguard", inst, bad[1], "sqfs_writer_finish can be reached although %s() failed: the image of a "
                          "truncated input is committed (and readable) before the cleanup removes it" % norm_callee(bad[0].callee))
    if n == 0:
        chk.broke("main of %s does not call sqfs_writer_finish" % tool)
    return n


def rule_no_signal(chk, prog, tool, units=None):
    """K2-nosignal (who-may-call): a kill ends the packer.  The closure of a packer installs no signal handler: a handled
    termination signal lets the run go on -- towards the commit of whatever was packed so far."""
    n = 0
    for f in prog.functions():
        if f.decl or (units is not None and f.unit.src not in units) or "/test/" in f.unit.src:
            continue
        n += 1
        for c in f.build().calls():
            if norm_callee(c.callee) in ("signal", "sigaction", "bsd_signal", "sysv_signal", "signalfd", "sigwait", "sigwaitinfo"):
                chk.analysed(f)
                chk.violation("K2-nosignal", "%s:%s:%s" % (tool, f.name, norm_callee(c.callee)), c, "the %s closure catches signals: a run "
                              "that was told to stop can continue to the final superblock" % tool)
                return n
    chk.ok("K2-nosignal", "%s:closure" % tool, None, "no function of the closure (%d) installs or waits for a signal handler" % n)
    return n


def _wt_scan(prog, f, bidx, depth=0):
    """(bad, write_sites) for function f whose parameter bidx is the caller's data"""
    buf = f.params[bidx]

    def derived(v, _seen=None):
        _seen = _seen or set()
        v = strip_casts(v)
        if id(v) in _seen:
            return False
        _seen.add(id(v))
        if v is buf:
            return True
        if v.is_inst and v.op == "getelementptr":
            return derived(v.ops[0], _seen)
        if v.is_inst and v.op in ("phi", "select"):
            return any(derived(o, _seen) for o in (v.ops[1:] if v.op == "select" else v.ops))
        return False
    bad = None
    writes = []
    for i in f.insts():
        if i.op != "call":
            continue
        name = norm_callee(i.callee)
        if name in ("memcpy", "memmove"):
            if derived(i.ops[1]):
                bad = (i, "copies the caller's data into memory of its own instead of writing it")
        elif name in ("pwrite", "pwrite64", "write", "WriteFile"):
            writes.append(i)
            if not derived(i.ops[1]):
                bad = (i, "writes bytes that are not the caller's buffer (staged data)")
        elif name and any(derived(a) for a in i.ops if not a.is_const):
            g = prog.fn(name, f.unit)
            if g is not None and not g.decl and depth < 3:
                k = [ai for ai, a in enumerate(i.ops) if not a.is_const and derived(a)][0]
                b2, w2 = _wt_scan(prog, g.build(), k, depth + 1)
                if b2 is not None:
                    bad = b2
                if w2:
                    writes.append(i)      # the helper is the write loop
    return bad, writes


def rule_writethrough(chk, prog):
    """C14-f: the file layer is write-through.  The ordering proved at the sqfs_file_t interface only carries over
    to the operating system if every write_at implementation hands the caller's bytes to a write system call
    before it returns and never parks them in memory of its own (helpers are followed)."""
    impls = prog.slot_impls(("struct.sqfs_file_t", "write_at"))
    if not impls:
        chk.broke("no implementation of sqfs_file_t.write_at found")
    for f in impls:
        f.build()
        chk.analysed(f)
        bad, sys_writes = _wt_scan(prog, f, 2)
        inst = "%s:write-through" % f.name
        succ = success_points(f)
        wblocks = {w.bb for w in sys_writes}
        skipped = None
        if sys_writes:
            seen, stack = set(), [f.blocks[0]]
            while stack:
                b = stack.pop()
                if b in seen or b in wblocks:
                    continue
                seen.add(b)
                if b in succ:
                    # reaching success without a write is fine only under a test of the size parameter (size == 0)
                    g_ok = False
                    for cond, outcome, br in f.guards_at(b):
                        if any(x is f.params[3] for x in backward_slice(cond)):
                            g_ok = True
                    if not g_ok:
                        skipped = b.term
                stack.extend(b.succs)
        if bad is None and sys_writes and skipped is None:
            chk.ok("K2-writethrough", inst, f, "the caller's buffer goes straight to the write system call; nothing is staged")
        else:
            site, why = bad if bad else (skipped or f, "can return success without having issued a write system call")
            chk.violation("K2-writethrough", inst, site, fn=f.name, detail="%s %s: writes issued in program order (data, tables, "
                          "then the final superblock) can reach the file in a different order" % (f.name, why))


def rule_open_atomic(chk, prog):
    """K12-open: an existing output file is emptied by the open() that opens it (O_TRUNC under the overwrite flag, O_EXCL
    otherwise).  Emptying it later (ftruncate after open) leaves a window in which a killed packer leaves the complete
    image of a previous run behind, which every reader accepts."""
    fs = [g for g in prog.functions() if g.name == "sqfs_native_file_open" and not g.decl and g.unit.src.endswith("unix.c")]
    if not fs:
        chk.broke("sqfs_native_file_open (unix) not found")
        return
    f = fs[0].build()
    chk.analysed(f)
    opens = [c for c in f.calls() if norm_callee(c.callee) in ("open", "open64")]
    if not opens:
        chk.broke("sqfs_native_file_open no longer calls open()")
        return
    O_TRUNC, O_EXCL, O_CREAT = 0o1000, 0o200, 0o100
    for c in opens:
        from ..util import backward_slice
        sl = backward_slice(c.ops[1], phi_control=False)
        consts = set()
        for x in sl:
            if x.is_const and x.is_int:
                consts.add(x.uval)
            if x.is_inst and x.op == "or":
                for o in x.ops:
                    if o.is_const and o.is_int:
                        consts.add(o.uval)
        has_trunc = any(k & O_TRUNC for k in consts)
        has_excl = any(k & O_EXCL for k in consts)
        has_creat = any(k & O_CREAT for k in consts)
        late = [x for x in f.calls() if norm_callee(x.callee) in ("ftruncate", "ftruncate64", "truncate")]
        inst = "sqfs_native_file_open:open"
        if has_creat and has_trunc and has_excl and not late:
            chk.ok("K12-open", inst, c, "a writable open either creates exclusively or truncates in the same system call")
        elif not has_creat:
            chk.ok("K12-open", inst, c, "read-only open")
        else:
            chk.violation("K12-open", inst, late[0] if late else c, "the output file is not emptied by the open() itself (O_TRUNC missing or "
                          "replaced by a later ftruncate): a packer killed in between leaves the previous, complete image in place")


def rule_super_one_write(chk, lib):
    """K11-onewrite: the commit is one write.  Readers tell a finished image from an unfinished one by the super block; between
    two writes of parts of it the file holds a mixture of the provisional and the final values that no guard was designed for.
    In sqfs_super_write (and the static helpers it calls) every sqfs_file_t.write_at is a write of the whole structure at
    offset 0, outside any loop."""
    f = lib.need_fn("sqfs_super_write")
    f.build()
    cl, _e, _u = lib.reachable_from([f], stop=lambda g, u=f.unit: g.unit is not u)
    st = lib.struct("struct.sqfs_super_t", f.unit)
    size = st["size"] if st and "size" in st else 96
    n = 0
    for g in cl:
        if g.decl:
            continue
        g.build()
        for c in g.calls():
            if slot_call(c) != ("struct.sqfs_file_t", "write_at") or len(c.ops) < 4:
                continue
            n += 1
            chk.analysed(g)
            inst = "%s:write_at@%d" % (g.name, c.line)
            off, ln = c.ops[1], c.ops[3]
            whole = off.is_const and off.is_int and off.sval == 0 and ln.is_const and ln.is_int and ln.uval == size
            looped = any(c.bb in body for (_h, body) in g.loops)
            if whole and not looped:
                chk.ok("K11-onewrite", inst, c, "the super block goes out as one write of %d bytes at offset 0" % size)
            else:
                chk.violation("K11-onewrite", inst, c, "the super block is written in parts (%s): a run that is killed between two of "
                              "these writes leaves a super block made of provisional and final fields, which the readers' guards "
                              "do not all reject" % ("inside a loop" if looped else "not the whole structure at offset 0"))
    return n


def run(chk):
    chk.explanation = (
        "Effect-ordering rules (K11/K12/K2/K1) on the image writer, decided on LLVM IR with a may-write-output "
        "effect summary over the call graph (calls through sqfs_file_t.write_at/.truncate, sqfs_ostream_t.append): "
        "the provisional superblock written first carries all-ones table starts, id_count 0 and bytes_used = "
        "sizeof(super) and is not modified before it is written; in sqfs_writer_finish the single final "
        "sqfs_super_write dominates the success return and nothing but an append-only padding helper writes after it; "
        "only the writer's init/finish call sqfs_super_write and only it writes at offset 0; the readers reject the "
        "provisional state; both packers write nothing after finish. K11-commitguard: the failure edge of a stage of a packer's main does not reach sqfs_writer_finish and the stage's result is tested before finish is reachable; K11-onewrite: sqfs_super_write issues the super block as one write of the whole structure at offset 0; E4-replaced (of C13, over both packers): the status of a stage is not replaced by the status of a later call unexamined; K2-nosignal: the packers install no signal handler (a caught signal would let the run go on to the commit).")
    chk.assumptions = ["that every reader rejects every intermediate prefix depends on which bytes the kernel flushed; "
                       "the rules decide the ordering of the writes the process issues"]
    lib = load_program("libsquashfs.la")
    rule_a_super_init(chk, lib)
    rule_d_readers_reject(chk, lib)
    rule_writethrough(chk, lib)
    for tool in ("gensquashfs", "tar2sqfs"):
        prog = load_program(tool)
        if tool == "gensquashfs":
            rule_a_init_window(chk, prog)
            rule_b_finish(chk, prog)
        rule_c_who_commits(chk, prog, tool)
        rule_e_finish_last(chk, prog, tool)
        rule_commit_guard(chk, prog, tool)
        rule_no_signal(chk, prog, tool)
    rule_open_atomic(chk, lib)
    rule_super_one_write(chk, lib)
    chk.floor("K11-onewrite", 1)
    # "committed only after all data is written": a failure while packing reaches main's decision -- it is not replaced by
    # the status of something that ran after it (E4-replaced of C13, over the two packers)
    from .c13 import rule_e4_replaced
    from ..errflow import ErrModel
    seen_r = set()
    for tool in ("gensquashfs", "tar2sqfs"):
        pt = load_program(tool)
        rule_e4_replaced(chk, pt, ErrModel(pt), tool, seen_r)
    chk.floor("K11-commitguard", 2)
    chk.floor("K2-nosignal", 2)
    chk.floor("K12-open", 1)
    chk.floor("K12-init", 8)
    chk.floor("K11-window", 2)
    chk.floor("K11-final", 4)   # commit, dominance, bytes_used and at least one writer before the commit (writers may share a helper)
    chk.floor("K2-commit", 6)
    chk.floor("K1-reject", 2)
    chk.floor("K11-last", 2)
    chk.floor("K2-writethrough", 1)
    controls(chk)


def controls(chk):
    from ..controls import control_program
    from ..report import Check
    prog = control_program("c14_controls.c")
    sub = Check("C14-control", chk.tier)
    rule_b_finish(sub, prog)
    rule_c_who_commits(sub, prog, "ctl")
    got = {(o["rule"], o["instance"]) for o in sub.obl if o["verdict"] == "VIOLATED"}
    chk.control("K11-final", ("K11-final", "after-commit:write_table") in got, "table written after the final superblock")
    chk.control("K2-commit", any(r == "K2-commit" for (r, _i) in got), "sqfs_super_write called by a stranger")
    sub2 = Check("C14-control", chk.tier)
    rule_no_signal(sub2, prog, "ctl", units={"c14_controls.c"})
    chk.control("K2-nosignal", any(o["rule"] == "K2-nosignal" and o["verdict"] == "VIOLATED" for o in sub2.obl), "sigaction in the closure")
