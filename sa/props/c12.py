"""C12 -- results do not depend on how the OS splits reads and writes (K2 confinement, K10 partial transfers)."""
from ..ir import load_program, strip_casts, norm_callee, ExternFn
from ..build import AnalysisBroken
from ..util import resolve_ptr, backward_slice, const_int
from ..effects import slot_call

RAW = {"read": (1, 2, None), "write": (1, 2, None), "pread": (1, 2, 3), "pwrite": (1, 2, 3),
       "pread64": (1, 2, 3), "pwrite64": (1, 2, 3)}      # buffer, size, offset argument positions
RAW_OTHER = {"readv", "writev", "preadv", "pwritev", "recv", "send", "recvfrom", "sendto", "fread", "fwrite",
             "fputs", "fputc", "putc", "fgetc", "getc", "fgets", "getline", "getdelim", "sendfile", "splice",
             "copy_file_range"}
IO_UNITS = ("lib/sqfs/src/io/file.c", "lib/sqfs/src/io/istream.c", "lib/sqfs/src/io/ostream.c")
EINTR = 4


def is_std_stream(prog, f, v):
    v = strip_casts(v)
    if v.is_inst and v.op == "load":
        p = strip_casts(v.ops[0])
        return p.is_const and p.gname in ("stdout", "stderr", "stdin")
    return False


def confinement(chk, progs):
    seen = set()
    n = 0
    for tool, prog in progs.items():
        for f in prog.functions():
            for c in f.calls():
                name = norm_callee(c.callee)
                if name not in RAW and name not in RAW_OTHER:
                    continue
                key = (f.unit.src, f.name, c.line, c.col)
                if key in seen:
                    continue
                seen.add(key)
                inst = "%s:%s" % (f.name, name)
                if name in RAW_OTHER:
                    # stdio on stdout/stderr is message output, not a data path
                    streams = [a for a in c.ops if not a.is_const and is_std_stream(prog, f, a)]
                    if streams:
                        continue
                    if name in ("fputs", "fputc", "putc", "fwrite", "fgets", "getline", "getdelim", "fgetc", "getc", "fread"):
                        n += 1
                        chk.violation("K2-raw", inst, c, "data is transferred with %s on a stream other than stdout/stderr: "
                                      "outside the four I/O primitives nothing handles short counts" % name)
                    else:
                        n += 1
                        chk.violation("K2-raw", inst, c, "raw transfer call %s outside the I/O primitives" % name)
                    continue
                n += 1
                chk.analysed(f)
                if f.unit.src in IO_UNITS:
                    chk.ok("K2-raw", inst, c, "raw transfer inside the I/O primitive layer (%s)" % f.unit.src)
                else:
                    chk.violation("K2-raw", inst, c, "%s is called outside lib/sqfs/src/io: a short count or EINTR here is "
                                  "not handled by the retry loops" % name)
    return n


def _carriers(f, v, loop_body, header):
    """state the operand depends on: header phis (SSA) and loads of memory fields inside the loop"""
    phis, loads = [], []
    for x in backward_slice(v, phi_control=False):
        if x.is_inst and x.op == "phi" and x.bb is header:
            phis.append(x)
        elif x.is_inst and x.op == "load" and x.bb in loop_body:
            p = strip_casts(x.ops[0])
            if p.is_inst and p.op == "getelementptr" and p.field():
                loads.append((x, p.field()))
            elif p.is_arg or (p.is_inst and p.op == "alloca"):
                loads.append((x, ("*", p)))          # a cursor kept behind a pointer:  *offset += ret
    return phis, loads


def _returns_count(f, c):
    """the function hands the transfer count of call c back to its caller (a chunk primitive)"""
    from ..errflow import ret_sources
    res = {id(c)}
    work = [c]
    while work:
        v = work.pop()
        for u in f.uses.get(v, []):
            if u.op in ("sext", "zext", "trunc", "phi", "select") and id(u) not in res:
                res.add(id(u))
                work.append(u)
    for (v, b) in ret_sources(f):
        w = v
        while w.is_inst and w.op in ("sext", "zext", "trunc"):
            w = w.ops[0]
        if id(w) in res or id(v) in res:
            return True
    return False


def _param_index(f, v):
    """index of the parameter of f that v is (modulo casts / a clamp of it), or None"""
    for x in backward_slice(v, phi_control=False, limit=50):
        if not x.is_inst and not x.is_const and x in f.params:
            return f.params.index(x)
    return None


def partial_transfer(chk, prog):
    n = 0
    for src in IO_UNITS:
        unit = prog.by_src.get(src)
        if unit is None:
            raise AnalysisBroken("I/O unit %s not in the closure" % src)
        for f in unit.functions.values():
            if f.decl:
                continue
            f.build()
            for c in f.calls():
                name = norm_callee(c.callee)
                if name not in RAW:
                    continue
                n += 1
                chk.analysed(f)
                bi, si, oi = RAW[name]
                if _returns_count(f, c) and f.internal:
                    # a chunk primitive: one transfer (with its own EINTR retry) whose count goes back to the caller.
                    # The loop / exit / progress obligations are the callers'; here only EINTR and 'zero is not progress'.
                    pb, ps = _param_index(f, c.ops[bi]), _param_index(f, c.ops[si])
                    _site(chk, prog, f, c, name, bi, si, oi, only=("eintr",))
                    sites = [x for x in prog.callers_of(f) if x.bb.fn.unit.src in IO_UNITS]
                    if pb is None or ps is None or not sites:
                        chk.violation("K10-loop", "%s:%s" % (f.name, name), c, "%s hands the short count of %s to its callers, but buffer / "
                                      "size are not its parameters or it has no caller in the I/O layer" % (f.name, name))
                        continue
                    chk.ok("K10-loop", "%s:%s" % (f.name, name), c, "chunk primitive: the count is returned; %d caller(s) carry the retry loop" % len(sites))
                    for x in sites:
                        g = x.bb.fn
                        g.build()
                        chk.analysed(g)
                        _site(chk, prog, g, x, f.name, pb, ps, None, skip=("eintr", "zero"))
                    continue
                _site(chk, prog, f, c, name, bi, si, oi)
    return n


class _Filter:
    """forwards only the verdicts of the wanted K10 sub-rules"""
    def __init__(self, chk, only, skip):
        self.chk, self.only, self.skip = chk, only, skip

    def _want(self, rule):
        k = rule.split("-", 1)[1] if "-" in rule else rule
        return (self.only is None or k in self.only) and k not in self.skip

    def ok(self, rule, *a, **kw):
        if self._want(rule):
            self.chk.ok(rule, *a, **kw)

    def violation(self, rule, *a, **kw):
        if self._want(rule):
            self.chk.violation(rule, *a, **kw)

    def __getattr__(self, k):
        return getattr(self.chk, k)


def _site(chk, prog, f, c, name, bi, si, oi, only=None, skip=()):
    if only is not None and "eintr" in only and f.loop_of(c.bb) is None:
        chk.violation("K10-eintr", "%s:%s" % (f.name, name), c, "an interrupted %s (EINTR) is not retried" % name)
        return
    chk = _Filter(chk, only, skip)
    if True:
        if True:
            if True:
                inst = "%s:%s" % (f.name, name)
                loop = f.loop_of(c.bb)
                if loop is None:
                    if _fast_path_with_fallback(prog, f, c, si):
                        chk.ok("K10-loop", inst, c, "single attempt; anything but a complete transfer is handed, advanced by the count, to a "
                               "helper that loops (judged there)")
                        return
                    chk.violation("K10-loop", inst, c, "%s is not called in a retry loop: a short count truncates the transfer" % name)
                    return
                header, body = loop
                chk.ok("K10-loop", inst, c, "called inside a loop")
                # result classification
                res = [c] + [u for u in f.uses.get(c, []) if u.op in ("sext", "zext", "trunc")]
                # two transfer calls on exclusive branches (read or write, chosen by a flag) whose results meet in a phi:
                # a test of that phi is a test of this call's result
                for r0 in list(res):
                    for u in f.uses.get(r0, []):
                        if u.op == "phi" and u.bb is not header and all(
                                o is r0 or (o.is_inst and (o.op == "call" or (o.op in ("sext", "zext", "trunc") and o.ops[0].is_inst and
                                                                                 o.ops[0].op == "call"))) for o in u.ops):
                            res.append(u)
                            res += [w for w in f.uses.get(u, []) if w.op in ("sext", "zext", "trunc")]
                neg_edges, zero_edges = [], []
                for r in res:
                    for u in f.uses.get(r, []):
                        if u.op != "icmp" or not (u.ops[1].is_const and u.ops[1].is_int and u.ops[1].sval == 0):
                            continue
                        for br in f.uses.get(u, []):
                            if br.op != "br" or len(br.x["succ"]) != 2:
                                continue
                            s0, s1 = br.x["succ"]
                            if u.pred == "slt":
                                neg_edges.append((br.bb, s0))
                            elif u.pred == "sge":
                                neg_edges.append((br.bb, s1))
                            else:
                                # `if (r > 0) ...; if (r == 0) ...;` -- what is left is the negative result
                                from ..tarrules import _facts_imply_negative
                                before = []
                                for cond, outcome, _b in f.guards_at(br.bb):
                                    if cond.is_inst and cond.op == "icmp" and cond.ops[0] in res and cond.ops[1].is_const and \
                                            cond.ops[1].is_int and cond.ops[1].sval == 0:
                                        before.append((cond.pred, outcome))
                                if not _facts_imply_negative(before):
                                    for k_, sx_ in ((True, s0), (False, s1)):
                                        if _facts_imply_negative(before + [(u.pred, k_)]):
                                            neg_edges.append((br.bb, sx_))
                            if u.pred == "eq":
                                zero_edges.append((br.bb, s0))
                            elif u.pred == "ne":
                                zero_edges.append((br.bb, s1))
                # (2) EINTR retried without progress being recorded
                eintr_ok = False
                for (b, s) in neg_edges:
                    for blk in _reach_within(s, body):
                        t = blk.term
                        if t.op == "br" and len(t.x["succ"]) == 2 and t.ops[0].is_inst and t.ops[0].op == "icmp":
                            cnd = t.ops[0]
                            k = [o for o in cnd.ops if o.is_const and o.is_int and o.sval == EINTR]
                            e = [x for x in backward_slice(cnd, through_loads=True) if x.is_inst and x.op == "call" and
                                 norm_callee(x.callee) == "__errno_location"]
                            if k and e:
                                retry = t.x["succ"][0] if cnd.pred == "eq" else t.x["succ"][1]
                                # the retry edge returns to the loop header with unchanged phis
                                if _back_to_header_unchanged(f, retry, header, body, c):
                                    eintr_ok = True
                # the same test written as  while (ret < 0 && errno == EINTR): the comparison feeds an i1 phi that is branched on
                if not eintr_ok:
                    for (b, s) in neg_edges:
                        for blk in _reach_within(s, body):
                            for cnd in blk.insts:
                                if cnd.op != "icmp" or cnd.pred != "eq":
                                    continue
                                k = [o for o in cnd.ops if o.is_const and o.is_int and o.sval == EINTR]
                                e = [x for x in backward_slice(cnd, through_loads=True) if x.is_inst and x.op == "call" and
                                     norm_callee(x.callee) == "__errno_location"]
                                if not (k and e):
                                    continue
                                for ph in f.uses.get(cnd, []):
                                    if ph.op == "phi" and ph.ty == "i1" and all(o is cnd or (o.is_const and o.is_int and o.sval == 0) for o in ph.ops):
                                        t = ph.bb.term
                                        if t.op == "br" and len(t.x["succ"]) == 2 and t.ops[0] is ph:
                                            if _back_to_header_unchanged(f, t.x["succ"][0], header, body, c):
                                                eintr_ok = True
                if eintr_ok:
                    chk.ok("K10-eintr", inst, c, "a negative result with errno == EINTR re-enters the loop with buffer/size/offset unchanged")
                else:
                    chk.violation("K10-eintr", inst, c, "an interrupted %s (EINTR) is not retried with unchanged arguments" % name)
                # a bare `do { r = call(...); } while (r < 0 && errno == EINTR);` inside the transfer loop is part of the
                # call: the obligations on zero, exits and progress are those of the loop around it
                if eintr_ok and _pure_eintr_retry(f, header, body, c):
                    outer = None
                    for (h2, b2) in f.loops:
                        if h2 is not header and header in b2 and all(x in b2 for x in body):
                            if outer is None or len(b2) < len(outer[1]):
                                outer = (h2, b2)
                    if outer is None:
                        chk.violation("K10-loop", inst, c, "%s is retried on EINTR only: a short count truncates the transfer" % name)
                        return
                    header, body = outer
                # (3) zero leaves the loop
                zero_ok = False
                for (b, s) in zero_edges:
                    if s not in body or not _reaches_header(s, header, body):
                        zero_ok = True
                if zero_ok:
                    chk.ok("K10-zero", inst, c, "a result of 0 leaves the loop (end of file / error), it is never treated as progress")
                else:
                    chk.violation("K10-zero", inst, c, "a result of 0 from %s does not end the loop: the transfer spins or "
                                  "a closed pipe is treated as progress" % name)
                # (3b) the loop ends only because everything was transferred, on end of file, or on an error
                bad_exit = None
                for b in body:
                    for sx in b.succs:
                        if sx in body:
                            continue
                        t = b.term
                        cnd = t.ops[0] if t.ops else None
                        why = None
                        if cnd is not None and cnd.is_inst and cnd.op == "icmp":
                            ops_ = [strip_casts(o) for o in cnd.ops]
                            on_res = any(o in res for o in cnd.ops) or any(o in res for o in ops_)
                            zero = any(o.is_const and o.is_int and o.sval == 0 for o in cnd.ops)
                            if on_res and zero:
                                why = "result compared with 0"
                            elif any(x.is_inst and x.op == "call" and norm_callee(x.callee) == "__errno_location"
                                     for x in backward_slice(cnd, through_loads=True)):
                                why = "errno test on the error path"
                            elif not on_res:
                                why = "loop condition on the remaining size / fill level (not on the result itself)"
                        if why is None:
                            bad_exit = t
                if bad_exit is None:
                    chk.ok("K10-exit", inst, c, "the retry loop is left only when done, at end of file or on an error")
                else:
                    chk.violation("K10-exit", inst, bad_exit, "the transfer loop around %s can end for a reason other than "
                                  "'all transferred', end of file or an error (e.g. on a short count): callers receive less "
                                  "than they asked for although more data is coming" % name)
                # (4) progress: every varying operand advances by the result
                ops = [("buffer", c.ops[bi]), ("size", c.ops[si])] + ([("offset", c.ops[oi])] if oi is not None else [])
                for (what, v) in ops:
                    phis, loads = _carriers(f, v, body, header)
                    ok = False
                    detail = ""
                    for p in phis:
                        for val, pred in zip(p.ops, p.x["inc"]):
                            if pred in body and any(x in res for x in backward_slice(val, phi_control=False)):
                                if what != "size" or any(x.is_inst and x.op == "sub" for x in backward_slice(val, phi_control=False)):
                                    ok = True
                                    detail = "loop-carried value updated with the result"
                    for (ld, fld) in loads:
                        for st in f.insts():
                            if st.op == "store" and st.bb in body:
                                q = strip_casts(st.ops[1])
                                if q.is_inst and q.op == "getelementptr" and q.field() == fld and \
                                        any(x in res for x in backward_slice(st.ops[0], phi_control=False)):
                                    ok = True
                                    detail = "fill level '%s' advanced by the result" % fld[1]
                                elif fld[0] == "*" and q is fld[1] and any(x in res for x in backward_slice(st.ops[0], phi_control=False)):
                                    ok = True
                                    detail = "cursor behind a pointer advanced by the result"
                    vb = strip_casts(resolve_ptr(prog, v, f.unit)[0])
                    zero_filler = strip_casts(v).is_const or (vb.is_inst and vb.op == "call" and norm_callee(vb.callee) in ("calloc", "alloc_array", "alloc_flex"))
                    if not phis and not loads and what == "buffer" and zero_filler:
                        chk.ok("K10-advance", inst + ":" + what, c, "constant block (every byte of it is the same filler): position-independent")
                        continue
                    if not phis and not loads:
                        chk.violation("K10-advance", inst + ":" + what, c, "the %s operand of %s is the same in every iteration "
                                      "of the retry loop: after a short count the same bytes are transferred again" % (what, name))
                        continue
                    if ok:
                        chk.ok("K10-advance", inst + ":" + what, c, detail)
                    else:
                        chk.violation("K10-advance", inst + ":" + what, c, "after a short %s the %s operand is not advanced by "
                                      "the number of bytes transferred: data is lost or duplicated" % (name, what))


def _fast_path_with_fallback(prog, f, c, si):
    """`r = xfer(fd, buf, n, off); if (r == n) done; else ... rest(fd, buf + r, n - r, off + r)`: the call is tried once, its
    result is compared with the full length, and no success return is reachable on the other side without a call of a
    same-unit function that issues the transfer itself and is given a length formed by subtracting the count"""
    res = [c] + [u for u in f.uses.get(c, []) if u.op in ("sext", "zext", "trunc")]
    # `r = n > 0 ? xfer(...) : 0`
    for r0 in list(res):
        for u in f.uses.get(r0, []):
            if u.op == "phi" and all(o is r0 or (o.is_const and o.is_int and o.sval == 0) for o in u.ops):
                res.append(u)
                res += [w for w in f.uses.get(u, []) if w.op in ("sext", "zext", "trunc")]
    n = strip_casts(c.ops[si])
    for r in res:
        for u in f.uses.get(r, []):
            if u.op != "icmp" or u.pred not in ("eq", "ne"):
                continue
            other = u.ops[1] if strip_casts(u.ops[0]) is strip_casts(r) or u.ops[0] is r else u.ops[0]
            o2 = other
            while o2.is_inst and o2.op in ("sext", "zext", "trunc"):
                o2 = o2.ops[0]
            if o2 is not n and strip_casts(o2) is not n:
                continue
            for br in f.uses.get(u, []):
                if br.op != "br" or len(br.x["succ"]) != 2:
                    continue
                short = br.x["succ"][1 if u.pred == "eq" else 0]
                # every way from `short` to a `return 0` passes a fallback call
                falls = []
                for k in f.calls():
                    if not k.callee:
                        continue
                    g = prog.fn(k.callee, f.unit)
                    if g is None or g.decl or g.unit is not f.unit or not _transfers(prog, g):
                        continue
                    if any(x.is_inst and x.op == "sub" and any(y in res for o in x.ops for y in [o] + list(backward_slice(o, phi_control=False)))
                           for a in k.ops for x in [strip_casts(a)] + list(backward_slice(a, phi_control=False))):
                        falls.append(k.bb)
                if not falls:
                    continue
                from ..errflow import ret_sources
                zero = [b for (v, b) in ret_sources(f) if strip_casts(v).is_const and strip_casts(v).is_int and strip_casts(v).sval == 0]
                seen, st, leak = set(), [short], False
                while st:
                    b = st.pop()
                    if b in seen or b in falls:
                        continue
                    seen.add(b)
                    if b in zero or b.term.op == "ret":
                        # a return reached without the fallback: fine only if it is not a success
                        if b in zero:
                            leak = True
                    st.extend(b.succs)
                if not leak:
                    return True
    return False


def _pure_eintr_retry(f, header, body, call):
    """the loop does nothing but repeat `call` while errno == EINTR: no loop-carried values, no stores, no other calls, and
    every way back to its header is the 'equal' side of a comparison of errno with EINTR"""
    if any(i.op == "phi" for i in header.insts):
        return False
    for b in body:
        for i in b.insts:
            if i.op == "store":
                return False
            if i.op == "call" and i is not call and norm_callee(i.callee) != "__errno_location" and \
                    not (i.callee or "").startswith("llvm."):
                return False

    def errno_eq(cnd):
        return cnd.is_inst and cnd.op == "icmp" and cnd.pred in ("eq", "ne") and \
            any(o.is_const and o.is_int and o.sval == EINTR for o in cnd.ops) and \
            any(x.is_inst and x.op == "call" and norm_callee(x.callee) == "__errno_location"
                for x in backward_slice(cnd, through_loads=True))
    n = 0
    for b in body:
        if header not in b.succs:
            continue
        n += 1
        t = b.term
        if not (t.op == "br" and len(t.x["succ"]) == 2):
            return False
        cnd = t.ops[0]
        if errno_eq(cnd):
            if t.x["succ"][0 if cnd.pred == "eq" else 1] is not header:
                return False
        elif cnd.is_inst and cnd.op == "phi" and cnd.ty == "i1":
            if t.x["succ"][0] is not header:
                return False
            for o in cnd.ops:
                if not ((o.is_const and o.is_int and o.uval == 0) or (errno_eq(o) and o.pred == "eq")):
                    return False
        else:
            return False
    return n > 0


def _reach_within(start, body):
    seen, stack = [], [start]
    while stack:
        b = stack.pop()
        if b in seen or b not in body:
            continue
        seen.append(b)
        stack.extend(b.succs)
    return seen


def _reaches_header(s, header, body):
    return header in _reach_within(s, body) or s is header


def _back_to_header_unchanged(f, retry, header, body, call):
    """from block `retry` the header is reached and header phis receive themselves (no progress recorded)"""
    if retry is header:
        preds = [call.bb]
    seen, stack = set(), [retry]
    ok = False
    while stack:
        b = stack.pop()
        if b in seen or b not in body:
            continue
        seen.add(b)
        if b is header:
            ok = True
            continue
        if any(i.op == "store" for i in b.insts):
            return False
        for s in b.succs:
            if s is header:
                # phis of the header must take their own value from b
                for p in header.insts:
                    if p.op != "phi":
                        break
                    for val, pred in zip(p.ops, p.x["inc"]):
                        if pred is b and strip_casts(val) is not p:
                            # unchanged also if the incoming value is another header phi copy of itself
                            return False
                ok = True
            else:
                stack.append(s)
    return ok


def stream_consumers(chk, progs):
    """C12-c: consumers advance a stream by an amount derived from what get_buffered_data delivered"""
    seen = set()
    n = 0
    for tool, prog in progs.items():
        for f in prog.functions():
            adv = [c for c in f.calls() if slot_call(c) == ("struct.sqfs_istream_t", "advance_buffer")]
            if not adv:
                continue
            gets = [(c, strip_casts(c.ops[2])) for c in f.calls() if slot_call(c) == ("struct.sqfs_istream_t", "get_buffered_data")]
            # a static helper that hands its own `size` parameter on to get_buffered_data is such a call
            for c in f.calls():
                if not c.callee:
                    continue
                h = prog.fn(c.callee, f.unit)
                if h is None or h.decl or h.unit is not f.unit or h is f:
                    continue
                for g2 in h.build().calls():
                    if slot_call(g2) == ("struct.sqfs_istream_t", "get_buffered_data"):
                        q = strip_casts(g2.ops[2])
                        if q.is_arg and q.idx < len(c.ops):
                            gets.append((c, strip_casts(c.ops[q.idx])))
            for a in adv:
                key = (f.unit.src, f.name, a.line, a.col)
                if key in seen:
                    continue
                seen.add(key)
                n += 1
                chk.analysed(f)
                inst = "%s:advance@%d" % (f.name, a.line)
                cnt = a.ops[1]
                # sizes delivered: loads of the alloca / pointer passed as the `size` out-parameter
                ok = False
                for (g, szp) in gets:
                    if not (f.inst_dominates(g, a) or f.reaches(g.bb, a.bb)):
                        continue
                    for x in backward_slice(cnt):
                        if x.is_inst and x.op == "load" and strip_casts(x.ops[0]) is szp:
                            ok = True
                        if x is szp:
                            ok = True
                        # consumed amount reported through an out-parameter of a callee that was given the delivered size
                        if x.is_inst and x.op == "load":
                            loc = strip_casts(x.ops[0])
                            if loc.is_inst and loc.op == "alloca":
                                for k in f.uses.get(loc, []):
                                    if k.op == "call" and k is not g and any(
                                            y.is_inst and y.op == "load" and strip_casts(y.ops[0]) is szp
                                            for arg in k.ops for y in backward_slice(arg)):
                                        ok = True
                if not gets:
                    # wrapper streams forward the caller's count to the wrapped stream
                    ok = any(x.is_arg for x in backward_slice(cnt))
                    why = "forwards the caller's count"
                else:
                    why = "count derives from the size the stream delivered"
                # what was consumed in the same loop must be the same amount
                if ok:
                    chk.ok("K10-consume", inst, a, why)
                else:
                    chk.violation("K10-consume", inst, a, "the stream is advanced by an amount that does not derive from what "
                                  "get_buffered_data delivered: with short chunks bytes are skipped or read twice")
    return n


def eof_only_positive(chk, progs):
    """loops over get_buffered_data end only on result > 0 (EOF) or < 0 (error); a short chunk continues"""
    seen = set()
    for tool, prog in progs.items():
        for f in prog.functions():
            for c in f.calls():
                if slot_call(c) != ("struct.sqfs_istream_t", "get_buffered_data"):
                    continue
                key = (f.unit.src, f.name, c.line, c.col)
                if key in seen:
                    continue
                seen.add(key)
                chk.analysed(f)
                inst = "%s:get_buffered_data@%d" % (f.name, c.line)
                used = bool(f.uses.get(c))
                if used:
                    chk.ok("K10-result", inst, c, "result of get_buffered_data is tested")
                else:
                    chk.violation("K10-result", inst, c, "the result of get_buffered_data (error / end of stream) is ignored")


RAW_OUT = ("pwrite", "pwrite64", "write", "WriteFile")


def _transfers(prog, g, depth=0, seen=None):
    """does g (transitively, same unit) issue a raw output call"""
    seen = seen if seen is not None else set()
    if g in seen or g.decl or depth > 3:
        return False
    seen.add(g)
    for c in g.build().calls():
        nm = norm_callee(c.callee) if c.callee else None
        if nm in RAW_OUT:
            return True
        if c.callee:
            t = prog.fn(c.callee, g.unit)
            if t is not None and not t.decl and t.unit is g.unit and _transfers(prog, t, depth + 1, seen):
                return True
    return False


def end_position(chk, prog):
    """K10-endpos: an implementation of sqfs_file_t.write_at that keeps the size of the file in a member (the one its
    get_size hands out) updates it with the position behind *everything* it transferred.  On every path to the store,
    the value stored depends on the result of each output call on that path; for a helper that transfers the rest and
    only answers a status, it is formed with the length that helper was given; or it is simply the function's own
    offset + size.  Otherwise a short write leaves the size behind the data and the next append overwrites the tail."""
    n = 0
    for f in sorted(prog.slot_impls(("struct.sqfs_file_t", "write_at")), key=lambda x: x.qname):
        if f.decl:
            continue
        f.build()
        # the member that get_size of the same unit returns
        size_fields = set()
        for g in prog.slot_impls(("struct.sqfs_file_t", "get_size")):
            if g.decl or g.unit is not f.unit:
                continue
            for r in g.build().rets():
                for x in backward_slice(r.ops[0]) if r.ops else []:
                    if x.is_inst and x.op == "load":
                        q = strip_casts(x.ops[0])
                        if q.is_inst and q.op == "getelementptr" and q.field():
                            size_fields.add(q.field())
        stores = [(i, i.ops[0]) for i in f.insts() if i.op == "store" and strip_casts(i.ops[1]).is_inst and
                  strip_casts(i.ops[1]).op == "getelementptr" and strip_casts(i.ops[1]).field() in size_fields]
        # the update may sit in a static helper that is handed the new end position
        for c in f.calls():
            if not c.callee:
                continue
            h = prog.fn(c.callee, f.unit)
            if h is None or h.decl or h.unit is not f.unit or h is f:
                continue
            for i in h.build().insts():
                if i.op == "store" and strip_casts(i.ops[1]).is_inst and strip_casts(i.ops[1]).op == "getelementptr" and \
                        strip_casts(i.ops[1]).field() in size_fields:
                    ps = [x for x in [strip_casts(i.ops[0])] + list(backward_slice(i.ops[0], phi_control=False)) if x.is_arg]
                    ps = list({id(x): x for x in ps if not (x.ty or "").endswith("*")}.values())
                    if len(ps) == 1 and ps[0].idx < len(c.ops):
                        stores.append((c, c.ops[ps[0].idx]))
        if not stores:
            continue
        chk.analysed(f)

        def is_transfer(c):
            nm = norm_callee(c.callee) if c.callee else None
            if nm in RAW_OUT:
                return True
            if c.callee:
                t = prog.fn(c.callee, f.unit)
                return t is not None and not t.decl and t.unit is f.unit and _transfers(prog, t)
            return False
        xfers = [c for c in f.calls() if is_transfer(c)]
        for (s_, sval_) in stores:
            n += 1
            inst = "%s:%s" % (f.name, sorted(size_fields)[0][1])
            bad = None
            paths = _acyclic_paths(f, s_.bb, cap=400)
            for path in paths:
                sl = _slice_on_path(sval_, path)
                ids = {id(x) for x in sl}
                # offset + size of the function itself
                if _is_sum_of_params(sval_, path, f):
                    continue
                for c in xfers:
                    if c.bb not in path or (c.bb is s_.bb and c.pos >= s_.pos) or c is s_:
                        continue
                    if id(c) in ids:
                        continue
                    nm = norm_callee(c.callee) if c.callee else None
                    if nm not in RAW_OUT:
                        # a helper that writes `len` bytes at `pos` and answers a status: the value is formed from the very
                        # position and length it was given
                        nums = [_resolve_on_path(o, path) for o in c.ops
                                if not (getattr(o, "ty", "") or "").endswith("*") and not o.is_const]
                        if nums and all(id(o) in ids for o in nums):
                            continue
                    bad = c
                    break
                if bad is not None:
                    break
            if bad is None:
                chk.ok("K10-endpos", inst, s_, "the size kept for get_size is set to the position behind everything that was written "
                       "(%d paths)" % len(paths))
            else:
                chk.violation("K10-endpos", inst, s_, "the file size kept by the object is updated with a position that does not account for "
                              "what %s (line %d) transferred: after a short write the size lies behind the data and the next "
                              "append overwrites the tail" % (norm_callee(bad.callee) or "the call", bad.line))
    return n


def _is_sum_of_params(v, path, f):
    v = _resolve_on_path(v, path)
    if not (v.is_inst and v.op == "add"):
        return False
    a, b = (_resolve_on_path(o, path) for o in v.ops)
    return {id(a), id(b)} == {id(f.params[1]), id(f.params[3])}


def _resolve_on_path(v, path):
    for _ in range(8):
        while v.is_inst and v.op in ("sext", "zext", "trunc", "bitcast"):
            v = v.ops[0]
        if v.is_inst and v.op == "phi" and v.bb in path:
            k = path.index(v.bb)
            if k == 0:
                return v
            nv = [val for val, p in zip(v.ops, v.x["inc"]) if p is path[k - 1]]
            if not nv:
                return v
            v = nv[0]
            continue
        return v
    return v


def _slice_on_path(v, path):
    """what v is computed from, phis resolved by the edge the path takes"""
    out, seen, st = [], set(), [v]
    while st:
        x = _resolve_on_path(st.pop(), path)
        if id(x) in seen:
            continue
        seen.add(id(x))
        out.append(x)
        if x.is_inst and x.op != "phi":
            st.extend(x.ops)
    return out


def _acyclic_paths(f, target, cap=400):
    out = []

    def dfs(b, path):
        if len(out) >= cap:
            return
        path = path + [b]
        if b is target:
            out.append(path)
            return
        for s_ in b.succs:
            if s_ not in path:
                dfs(s_, path)
    dfs(f.blocks[0], [])
    return out


def reposition_rule(chk, prog, units=None):
    """K10-reposition: what is repeated after EINTR has the same effect the second time.  Inside a loop that is re-entered
    because errno == EINTR, a seek is absolute (whence is the constant SEEK_SET or SEEK_END): a seek relative to the
    current position moves twice when the call after it was interrupted."""
    n = 0
    for f in prog.functions():
        src = f.unit.src
        if f.decl or not (src.startswith("lib/sqfs/src/io/") if units is None else src in units):
            continue
        seeks = [c for c in f.build().calls() if norm_callee(c.callee) in ("lseek", "lseek64")]
        for c in seeks:
            n += 1
            chk.analysed(f)
            inst = "%s:%s@%d" % (f.name, norm_callee(c.callee), c.line)
            wh = c.ops[2]
            absolute = wh.is_const and wh.is_int and wh.sval in (0, 2)
            retried = None
            for (h, body) in f.loops:
                if c.bb not in body:
                    continue
                for b in body:
                    if h not in b.succs:
                        continue
                    t = b.term
                    conds = [t.ops[0]] if t.op == "br" and len(t.x["succ"]) == 2 else []
                    for (cond, _o, _br) in f.guards_at(b):
                        conds.append(cond)
                    for cnd in conds:
                        for x in [cnd] + list(backward_slice(cnd, through_loads=True, limit=200)):
                            if x.is_inst and x.op == "icmp" and any(o.is_const and o.is_int and o.sval == EINTR for o in x.ops) and \
                                    any(y.is_inst and y.op == "call" and norm_callee(y.callee) == "__errno_location"
                                        for y in backward_slice(x, through_loads=True)):
                                retried = h
            if retried is None:
                chk.ok("K10-reposition", inst, c, "the seek is not part of anything that is repeated on EINTR")
            elif absolute:
                chk.ok("K10-reposition", inst, c, "repeated on EINTR, but absolute: the second attempt ends where the first did")
            else:
                chk.violation("K10-reposition", inst, c, "a seek that may be relative to the current position is inside a loop that is "
                              "repeated when a later call is interrupted (EINTR): the position moves twice, a hole comes out twice as long")
    return n


def run(chk):
    chk.explanation = (
        "K2 confinement and K10 partial-transfer discipline decided on LLVM IR of all tools: raw read/write/pread/"
        "pwrite (and stdio data transfers) occur only in lib/sqfs/src/io/{file,istream,ostream}.c; at each raw call: "
        "inside a loop, EINTR re-enters the loop with unchanged buffer/size/offset, a zero result leaves the loop, and "
        "every varying operand (loop-carried phi or fill-level field) is advanced by the result; every consumer of "
        "sqfs_istream_t advances by an amount derived from what get_buffered_data delivered and tests its result; the "
        "archive layer treats end of input inside a record as an error and compares every read count with the "
        "requested size (T1/T2). Equality of the outputs under all chunkings is value-level and not decided. A function that returns the transfer count of a single system call is a chunk primitive: the loop, exit and progress obligations are checked at its callers. K10-endpos: the size a write_at implementation keeps for get_size accounts for every transfer on the path; K10-reposition: no seek that may be relative is repeated on EINTR; K10-chunkcut: what the line reader copies out of a chunk depends on the position of the line feed alone; a single attempt whose incomplete outcomes are handed, advanced, to a looping helper is accepted by K10-loop.")
    chk.assumptions = ["POSIX semantics of short counts and EINTR"]
    progs = {t: load_program(t) for t in ("gensquashfs", "tar2sqfs", "sqfs2tar", "rdsquashfs", "sqfsdiff")}
    confinement(chk, progs)
    partial_transfer(chk, progs["tar2sqfs"])
    stream_consumers(chk, progs)
    eof_only_positive(chk, progs)
    from ..tarrules import t1_rule, t2_rule
    t1_rule(chk, progs["tar2sqfs"])
    t2_rule(chk, progs["tar2sqfs"])
    end_position(chk, progs["gensquashfs"])
    chk.floor("K10-endpos", 1)
    reposition_rule(chk, progs["gensquashfs"])
    chk.floor("K10-reposition", 1)
    from .c16 import rule_chunk_cut
    rule_chunk_cut(chk, progs["gensquashfs"])
    chk.floor("K10-chunkcut", 1)
    chk.floor("K2-raw", 4)
    chk.floor("K10-loop", 4)
    chk.floor("K10-eintr", 2)
    chk.floor("K10-zero", 2)
    chk.floor("K10-advance", 8)
    chk.floor("K10-exit", 2)
    chk.floor("K10-consume", 6)
    chk.floor("T1-eof", 1)
    chk.floor("T2-short", 5)
    controls(chk)


def controls(chk):
    from ..controls import control_program
    from ..report import Check
    prog = control_program("c12_controls.c")
    sub = Check("C12-control", chk.tier)
    global IO_UNITS
    saved = IO_UNITS
    IO_UNITS = ("c12_controls.c",)
    try:
        partial_transfer(sub, prog)
    finally:
        IO_UNITS = saved
    got = {(o["rule"], o["function"]) for o in sub.obl if o["verdict"] == "VIOLATED"}
    chk.control("K10-loop", ("K10-loop", "ctl_once") in got, "single write without a loop")
    chk.control("K10-advance", ("K10-advance", "ctl_noadvance") in got, "buffer not advanced after a short write")
    chk.control("K10-eintr", ("K10-eintr", "ctl_noeintr") in got, "EINTR treated as an error")
    chk.control("silent-on-good", not any(fn == "ctl_good" for (_r, fn) in got), "correct loop must not be reported")
    sub2 = Check("C12-control", chk.tier)
    reposition_rule(sub2, prog, units=("c12_controls.c",))
    got2 = {(o["rule"], o["function"]) for o in sub2.obl if o["verdict"] == "VIOLATED"}
    chk.control("K10-reposition", ("K10-reposition", "ctl_seek_again") in got2, "relative seek repeated after an interrupted truncate")
    chk.control("K10-reposition/silent", ("K10-reposition", "ctl_seek_once") not in got2, "seek once, retry only the truncate")
