"""C17 -- packing directives are honoured in the layout: transport of every directive from the sort file / command line to
the code that acts on it (K13), and the points of action (K1)."""
from ..ir import load_program, strip_casts, norm_callee, ExternFn
from ..build import AnalysisBroken
from ..util import backward_slice, resolve_ptr
from ..effects import slot_call
from ..cmpcheck import check_comparator, shaped_comparators

USER = 0x1F


def enum_values():
    """SQFS_BLK_* enumerators, compiled from the public header through the same pipeline"""
    from ..controls import control_program
    import os
    from ..build import repo_root
    prog = control_program("c17_enums.c", flags=("-I" + os.path.join(repo_root(), "include"),))
    vals = None
    for unit in prog.by_src.values():
        g = unit.globals.get("verif_blk_flags")
        if g and g.get("init"):
            vals = g["init"]
    if vals is None:
        raise AnalysisBroken("could not evaluate the SQFS_BLK_* enumerators")
    flat = []

    def walk(x):
        if isinstance(x, (list, tuple)):
            for y in x:
                walk(y)
        elif isinstance(x, int):
            flat.append(x)
    walk(vals[1:] if isinstance(vals[0], str) else vals)
    names = ["DONT_COMPRESS", "DONT_HASH", "DONT_FRAGMENT", "DONT_DEDUPLICATE", "IGNORE_SPARSE", "IS_SPARSE", "FIRST_BLOCK",
             "LAST_BLOCK", "IS_FRAGMENT", "FRAGMENT_BLOCK", "IS_COMPRESSED", "USER_SETTABLE_FLAGS"]
    if len(flat) < len(names):
        raise AnalysisBroken("enumerator table has %d entries, expected %d" % (len(flat), len(names)))
    return dict(zip(names, flat))


def unext(v):
    while v.is_inst and v.op in ("sext", "zext", "trunc", "bitcast"):
        v = v.ops[0]
    return v


def mask_test(cond):
    """(value tested, mask, True if the true edge means 'some bit set') for conditions of the form (x & M) != 0"""
    c = cond
    if not (c.is_inst and c.op == "icmp" and c.pred in ("eq", "ne")):
        return None
    a, b = c.ops
    if not (b.is_const and b.is_int and b.sval == 0):
        return None
    a = unext(a)
    if a.is_inst and a.op == "and":
        for x, m in ((a.ops[0], a.ops[1]), (a.ops[1], a.ops[0])):
            if m.is_const and m.is_int:
                return (unext(x), m.sval & 0xFFFFFFFF, c.pred == "ne")
    return None


def guards_with_mask(f, bb):
    """[(value, mask, 'set'|'clear')] facts about flag words known on entry to bb"""
    out = []
    for (cond, outcome, br) in f.guards_at(bb):
        mt = mask_test(cond)
        if mt and outcome in (True, False):
            v, m, ne = mt
            state = "set" if (outcome is True) == ne else "clear"
            out.append((v, m, state))
    return out


def field_of(v):
    """(struct, field) a value was loaded from"""
    v = unext(v)
    if v.is_inst and v.op == "load":
        p = strip_casts(v.ops[0])
        if p.is_inst and p.op == "getelementptr":
            return p.field()
    return None


def is_flag_word(f, v):
    fl = field_of(v)
    if fl and fl[1] in ("flags", "blk_flags"):
        return True
    v = unext(v)
    if not v.is_inst and not v.is_const and getattr(v, "name", "") == "flags":
        return True
    return False


def single_user_bit(mask, E):
    m = mask & E["USER_SETTABLE_FLAGS"]
    return m if m and (m & (m - 1)) == 0 else None


def rule_actions(chk, prog, E):
    """C17-a(5): each user flag is tested where it has to act; returns {action: bit}"""
    bits = {}
    # compress + sparse in the worker
    from ..anchors import worker_entry, fragment_finisher, block_run_dedup, sort_flag_decoder, export_adder
    we = worker_entry(prog)
    if not we:
        raise AnalysisBroken("worker function of the block processor not found")
    f = we[0]
    f.build()
    chk.analysed(f)
    calls = [c for c in f.calls() if slot_call(c) == ("struct.sqfs_compressor_t", "do_block")]
    if not calls:
        chk.broke("process_block no longer calls the compressor's do_block")
    for c in calls:
        got = [(v, m) for (v, m, st) in guards_with_mask(f, c.bb) if st == "clear" and is_flag_word(f, v) and single_user_bit(m, E)]
        if got:
            bits["compress"] = single_user_bit(got[0][1], E)
            chk.ok("K1-action", "process_block:do_block", c, "the compressor runs only with user bit 0x%x of the block's flags clear" % bits["compress"])
        else:
            chk.violation("K1-action", "process_block:do_block", c, "the compressor call is not guarded by a test of a user-settable block flag: "
                          "dont_compress cannot take effect")
    for i in f.insts():
        if i.op == "store":
            v = unext(i.ops[0])
            if v.is_inst and v.op == "or" and any(o.is_const and o.is_int and o.sval == E["IS_SPARSE"] for o in v.ops) and \
                    (field_of_ptr(i.ops[1]) or ("", ""))[1] == "flags":
                got = [(x, m) for (x, m, st) in guards_with_mask(f, i.bb) if st == "clear" and is_flag_word(f, x) and single_user_bit(m, E)]
                if got:
                    bits["sparse"] = single_user_bit(got[0][1], E)
                    chk.ok("K1-action", "process_block:IS_SPARSE", i, "a block is marked sparse only with user bit 0x%x clear" % bits["sparse"])
                else:
                    chk.violation("K1-action", "process_block:IS_SPARSE", i, "marking a zero block sparse is not guarded by a user flag: nosparse cannot take effect")
    # fragment in end_file
    f0 = prog.need_fn("sqfs_block_processor_end_file")
    f0.build()
    chk.analysed(f0)
    n = 0
    # the marking may sit in end_file itself or in a static helper it reaches within its unit
    closure, _e, _u = prog.reachable_from([f0], stop=lambda g: g.unit is not f0.unit)
    for f in sorted(closure, key=lambda g: g.qname):
      if f.decl:
          continue
      f.build()
      for i in f.insts():
        if i.op == "store":
            v = unext(i.ops[0])
            if v.is_inst and v.op == "or" and any(o.is_const and o.is_int and o.sval == E["IS_FRAGMENT"] for o in v.ops):
                n += 1
                got = [(x, m) for (x, m, st) in guards_with_mask(f, i.bb) if st == "clear" and is_flag_word(f, x) and single_user_bit(m, E)]
                if got:
                    bits["fragment"] = single_user_bit(got[0][1], E)
                    chk.ok("K1-action", "end_file:IS_FRAGMENT", i, "the tail becomes a fragment only with user bit 0x%x of the file's flags clear" % bits["fragment"])
                else:
                    chk.violation("K1-action", "end_file:IS_FRAGMENT", i, "the tail end is turned into a fragment without testing a user flag: "
                                  "dont_fragment / --no-tail-packing cannot take effect")
    if n == 0:
        chk.broke("sqfs_block_processor_end_file no longer marks a tail fragment")
    # dedup: fragment path and block writer
    ff = fragment_finisher(prog)
    if not ff:
        raise AnalysisBroken("the function that looks fragments up in the hash table was not found")
    f = ff[0]
    f.build()
    chk.analysed(f)
    hs = [c for c in f.calls() if norm_callee(c.callee) in ("hash_table_search_pre_hashed", "hash_table_search")]
    if not hs:
        chk.broke("process_completed_fragment no longer searches the fragment hash table")
    for c in hs:
        got = [(x, m) for (x, m, st) in guards_with_mask(f, c.bb) if st == "clear" and is_flag_word(f, x) and single_user_bit(m, E)]
        if got:
            bits["dedup"] = single_user_bit(got[0][1], E)
            chk.ok("K1-action", "process_completed_fragment:search", c, "an identical fragment is searched only with user bit 0x%x clear" % bits["dedup"])
        else:
            chk.violation("K1-action", "process_completed_fragment:search", c, "fragment deduplication is not guarded by a user flag: dont_deduplicate cannot take effect")
    bw = block_run_dedup(prog)
    if not bw:
        chk.broke("deduplicate_blocks not found in block_writer.c")
    for g in bw:
        g.build()
        chk.analysed(g)
        loops = [h for (h, body) in g.loops]
        ok = False
        for (h, body) in g.loops:
            got = [(x, m) for (x, m, st) in guards_with_mask(g, h) if st == "clear" and is_flag_word(g, x) and single_user_bit(m, E)]
            if got and single_user_bit(got[0][1], E) == bits.get("dedup"):
                ok = True
        # every loop that compares blocks must be behind the test: require it for the outermost search loops
        search = [(h, body) for (h, body) in g.loops if any(i.op == "call" and norm_callee(i.callee) not in (None,) and
                                                            "llvm." not in (norm_callee(i.callee) or "") for b in body for i in b.insts)
                  or len(body) > 3]
        bad = []
        for (h, body) in g.loops:
            facts = [(x, m) for (x, m, st) in guards_with_mask(g, h) if st == "clear" and is_flag_word(g, x) and
                     single_user_bit(m, E) == bits.get("dedup")]
            reads_prev = any(i.op == "icmp" for b in body for i in b.insts)
            if not facts and _loop_compares_hashes(g, body):
                bad.append(h)
        if not bad and g.loops:
            chk.ok("K1-action", "deduplicate_blocks:search", g, "the search for identical block runs is entered only with the dont_deduplicate bit clear")
        else:
            chk.violation("K1-action", "deduplicate_blocks:search", bad[0].insts[0] if bad else g,
                          "the block writer compares the new file's blocks with earlier ones without the dont_deduplicate bit having been tested")
    return bits


def _loop_compares_hashes(g, body):
    for b in body:
        for i in b.insts:
            if i.op == "icmp" and i.pred in ("eq", "ne"):
                for o in i.ops:
                    fl = field_of(o)
                    if fl and fl[1] in ("hash",):
                        return True
    return False


def field_of_ptr(p):
    p = strip_casts(p)
    if p.is_inst and p.op == "getelementptr":
        return p.field()
    return None


def cstr(f, v):
    from .c16 import cstr as c
    return c(f, v)


def rule_keywords(chk, prog, E, bits):
    """C17-a(1): the sort file's keyword decoder ORs, for every keyword, exactly the bit whose point of action matches the keyword"""
    WANT = {"dont_compress": "compress", "dont_fragment": "fragment", "dont_deduplicate": "dedup", "nosparse": "sparse"}
    from ..anchors import sort_flag_decoder
    f = sort_flag_decoder(prog, cstr)
    if not f:
        chk.broke("decode_flags not found in sort_by_file.c")
        return
    f = f[0].build()
    chk.analysed(f)
    found = {}
    for i in f.insts():
        if i.op != "store":
            continue
        v = unext(i.ops[0])
        if not (v.is_inst and v.op == "or"):
            continue
        consts = [o.sval for o in v.ops if o.is_const and o.is_int]
        if not consts:
            continue
        # which keyword guards this block: strcmp(arg, "kw") == 0
        for (cond, outcome, br) in f.guards_at(i.bb):
            if cond.is_inst and cond.op == "icmp" and cond.ops[1].is_const and cond.ops[1].is_int and cond.ops[1].sval == 0:
                c = unext(cond.ops[0])
                if c.is_inst and c.op == "call" and norm_callee(c.callee) == "strcmp" and ((cond.pred == "eq") == (outcome is True)):
                    kw = cstr(f, c.ops[1]) or cstr(f, c.ops[0])
                    if kw in WANT:
                        found.setdefault(kw, []).append((consts[0], i))
    for kw, act in sorted(WANT.items()):
        inst = "decode_flags:%s" % kw
        if kw not in found:
            chk.violation("K13-keyword", inst, f, "sort file keyword '%s' is not decoded into a block flag any more" % kw)
            continue
        val, site = found[kw][-1]
        # the innermost guard is the keyword's own branch: take the store whose block is guarded by fewest other keywords
        val, site = min(found[kw], key=lambda t: len(f.guards_at(t[1].bb)))
        if act not in bits:
            chk.note("K13-keyword %s: point of action for '%s' not established" % (inst, act))
            continue
        if val == bits[act]:
            chk.ok("K13-keyword", inst, site, "'%s' sets bit 0x%x, the bit tested at the %s decision" % (kw, val, act))
        else:
            chk.violation("K13-keyword", inst, site, "'%s' sets bit 0x%x but the %s decision tests bit 0x%x: the directive acts on "
                          "something else" % (kw, val, act, bits[act]))


def depends_on(v, pred, through_loads=True):
    for x in backward_slice(v, through_loads=through_loads, phi_control=False):
        if pred(x):
            return True
    return False


def cleared_user_bits(v, E, depth=0):
    """user bits that an expression built from flag words may have lost through AND masks"""
    v = unext(v)
    if depth > 12 or not v.is_inst:
        return 0
    if v.op == "and":
        for x, m in ((v.ops[0], v.ops[1]), (v.ops[1], v.ops[0])):
            if m.is_const and m.is_int:
                return ((~m.sval) & E["USER_SETTABLE_FLAGS"]) | cleared_user_bits(x, E, depth + 1)
        return 0
    if v.op == "or":
        # bits cleared in one operand may be supplied by the other only if that one is a flag word too; stay conservative
        a, b = cleared_user_bits(v.ops[0], E, depth + 1), cleared_user_bits(v.ops[1], E, depth + 1)
        if v.ops[0].is_const or v.ops[1].is_const:
            return a | b
        return a & b
    if v.op in ("phi", "select"):
        r = 0
        for o in (v.ops if v.op == "phi" else v.ops[1:]):
            r |= cleared_user_bits(o, E, depth + 1)
        return r
    return 0


def _is_splice_size(prog, g, v):
    """v is a load of the same location whose value the function passes as the block size to sqfs_istream_splice"""
    v = unext(v)
    if not (v.is_inst and v.op == "load"):
        return False
    for c in g.calls():
        if norm_callee(c.callee) == "sqfs_istream_splice":
            w = unext(c.ops[2])
            if w.is_inst and w.op == "load":
                pa, pb = strip_casts(v.ops[0]), strip_casts(w.ops[0])
                if pa.is_const and pb.is_const:
                    if pa.d == pb.d:
                        return True
                elif not pa.is_const and not pb.is_const:
                    ra, rb = resolve_ptr(prog, pa, g.unit), resolve_ptr(prog, pb, g.unit)
                    if ra[0] is rb[0] and ra[1] == rb[1] and ra[2] and rb[2]:
                        return True
    return False


def stores_via_helpers(prog, f, pred, depth=2, chain=()):
    """[(store, function, chain)]: stores selected by pred in f and in static helpers of the same unit that f calls;
    chain = ((caller, call inst), ...) from f down to the function holding the store"""
    out = []
    f.build()
    for i in f.insts():
        if i.op == "store" and pred(i):
            out.append((i, f, chain))
    if depth > 0:
        for c in f.calls():
            t = prog.fn(c.callee, f.unit) if c.callee else None
            if t is None or isinstance(t, ExternFn) or t.decl or t.unit is not f.unit or t is f or not t.internal:
                continue
            out += stores_via_helpers(prog, t, pred, depth - 1, chain + ((f, c),))
    return out


def lift(v, fn, chain):
    """values in the outermost caller's space that v (a value inside fn at the end of chain) is computed from: parameter
    leaves are replaced by the arguments of the call that leads there"""
    leaves = []
    params = []
    for x in backward_slice(v, through_loads=False, phi_control=False, limit=300):
        if not x.is_inst and not x.is_const and x in fn.params:
            params.append(x)
    if not chain:
        return [v]
    caller, call = chain[-1]
    outv = []
    if not params:
        return [v] if False else []
    for p in params:
        if p.idx < len(call.ops):
            outv += lift(call.ops[p.idx], caller, chain[:-1])
    return outv


def chain_guards(f_of_store, store, chain):
    """mask facts that hold at the store: its own block's guards plus those of every call site on the way down"""
    gs = list(guards_with_mask(f_of_store, store.bb))
    for (caller, call) in chain:
        gs += list(guards_with_mask(caller, call.bb))
    return gs


def rule_transport(chk, prog, E):
    """C17-a(2..4): every link of the chain sort file -> node -> ostream -> begin_file -> blk_flags -> block -> writer passes the word on"""
    def load_of(field):
        return lambda x: x.is_inst and x.op == "load" and (field_of(x) or ("", ""))[1] == field

    def is_param(name):
        return lambda x: (not x.is_inst) and (not x.is_const) and getattr(x, "name", None) == name

    links = []
    # (function, what receives, selector of the receiving value, predicate for the source, description)
    f = prog.need_fn("fstree_sort_files").build()
    chk.analysed(f)
    from ..anchors import sort_flag_decoder
    dnames = {g.name for g in sort_flag_decoder(prog, cstr)}
    df = [c for c in f.calls() if norm_callee(c.callee) in dnames]
    # the priority decoder: the static callee that parses a signed number (parse_int) into an i64 out-parameter
    dp = []
    for c in f.calls():
        t = prog.fn(c.callee, f.unit) if c.callee else None
        if t is not None and not isinstance(t, ExternFn) and t.unit is f.unit and not t.decl and \
                any(norm_callee(x.callee) == "parse_int" for x in t.build().calls()):
            dp.append(c)
    if not df or not dp:
        chk.broke("fstree_sort_files no longer calls decode_flags / decode_priority")
        return
    outs = {"flags": [strip_casts(a) for a in df[0].ops if a.is_inst and strip_casts(a).op == "alloca" and a.ty == "i32*"],
            "priority": [strip_casts(a) for a in dp[0].ops if a.is_inst and strip_casts(a).op == "alloca" and a.ty == "i64*"]}
    for fld in ("flags", "priority"):
        found = stores_via_helpers(prog, f, lambda i: not i.ops[0].is_const and (field_of_ptr(i.ops[1]) or ("", ""))[1] == fld and
                                   "anon" in (field_of_ptr(i.ops[1]) or ("", ""))[0])
        inst = "fstree_sort_files:node.%s" % fld
        if not found:
            chk.violation("K13-transport", inst, f, "a matched file no longer receives the %s decoded from its sort file line" % fld)
            continue
        for (s_, g_, ch) in found:
            for site in ([None] if not ch else [ch]):
                pass
            srcs = lift(s_.ops[0], g_, ch) if ch else [s_.ops[0]]
            where = "%s%s" % (g_.name, (" via " + " <- ".join(c.bb.fn.name for (_f, c) in ch)) if ch else "")
            src_ok = bool(srcs) and all(depends_on(v, lambda x: x.is_inst and x.op == "load" and strip_casts(x.ops[0]) in outs[fld]) for v in srcs)
            masked = fld == "flags" and (cleared_user_bits(s_.ops[0], E) or any(cleared_user_bits(v, E) for v in srcs))
            if src_ok and not masked:
                chk.ok("K13-transport", inst, s_, "the matched node receives the %s decoded from the line (%s)" % (fld, where))
            else:
                chk.violation("K13-transport", inst, s_, "the value stored as the file's %s does not come (unmasked) from the decoder of the line (%s)" % (fld, where))
            # first match wins: on the way to the store the ALREADY_MATCHED bit was tested clear, and the bit is set alongside
            facts = [(x, m, st) for (x, m, st) in chain_guards(g_, s_, ch) if st == "clear" and (field_of(x) or ("", ""))[1] == "flags"
                     and "tree_node_t" in (field_of(x) or ("", ""))[0]]
            mark_fns = [g_] + [c_[0] for c_ in ch]
            marks = [i for mf in mark_fns for i in mf.insts() if i.op == "store" and (field_of_ptr(i.ops[1]) or ("", ""))[1] == "flags" and
                     "tree_node_t" in (field_of_ptr(i.ops[1]) or ("", ""))[0]]
            inst2 = "fstree_sort_files:first-match.%s" % fld
            okf = False
            if facts:
                for mk_ in marks:
                    mk = unext(mk_.ops[0])
                    mval = [o.sval for o in (mk.ops if mk.is_inst and mk.op == "or" else []) if o.is_const and o.is_int]
                    if mval and (mval[0] & facts[0][1]):
                        okf = True
            if okf:
                chk.ok("K13-first", inst2, s_, "assigned only while the node's already-matched bit 0x%x is clear, and the bit is set with it (%s)" % (facts[0][1], where))
            else:
                chk.violation("K13-first", inst2, s_, "a later sort file line can overwrite the %s of a file an earlier line already matched: "
                              "on the way to this assignment (%s) the already-matched bit is not tested" % (fld, where))
    # pack_file -> ostream
    for tool, fname, what in (("gensquashfs", "pack_file", "node"), ("tar2sqfs", "write_file", None)):
        p2 = prog if tool == "gensquashfs" else load_program("tar2sqfs")
        gs = [g for g in p2.functions() if g.name == fname and g.unit.src.startswith("bin/" + tool)]
        if not gs:
            chk.broke("%s not found in %s" % (fname, tool))
            continue
        g = gs[0].build()
        chk.analysed(g)
        for c in g.calls():
            if norm_callee(c.callee) != "sqfs_block_processor_create_ostream":
                continue
            fl = c.ops[4]
            inst = "%s:create_ostream.flags" % fname
            if what == "node":
                ok = depends_on(fl, lambda x: x.is_inst and x.op == "load" and (field_of(x) or ("", ""))[1] == "flags" and
                                "anon" in (field_of(x) or ("", ""))[0]) and not cleared_user_bits(fl, E)
                if ok:
                    chk.ok("K13-transport", inst, c, "the per-file flags of the node are handed to the block processor")
                else:
                    chk.violation("K13-transport", inst, c, "the flags handed to the block processor do not carry the node's sort file flags")
            # --no-tail-packing: OR of the fragment bit only for files strictly larger than one block
            ors = [x for x in backward_slice(fl, phi_control=False) if x.is_inst and x.op == "or" and
                   any(o.is_const and o.is_int and o.sval == E["DONT_FRAGMENT"] for o in x.ops)]
            inst = "%s:no-tail-packing" % fname
            if not ors:
                chk.violation("K13-notail", inst, c, "--no-tail-packing no longer reaches the block processor flags")
            for o in ors:
                good = False
                for (cond, outcome, br) in g.guards_at(o.bb):
                    if cond.is_inst and cond.op == "icmp" and cond.pred in ("ugt", "ult", "sgt", "slt"):
                        a, b = unext(cond.ops[0]), unext(cond.ops[1])
                        big, small = (a, b) if cond.pred in ("ugt", "sgt") else (b, a)
                        fb = field_of(small)
                        if outcome is True and not small.is_const and ((fb and fb[1] == "block_size") or _is_splice_size(p2, g, small)):
                            good = True
                if good:
                    chk.ok("K13-notail", inst, o, "the dont_fragment bit is added only when the size is strictly greater than the block size")
                else:
                    chk.violation("K13-notail", inst, o, "--no-tail-packing is not limited to files strictly larger than one block")
    # ostream -> begin_file -> blk_flags -> block -> writer
    chain = [
        ("sqfs_block_processor_create_ostream", "call", "sqfs_block_processor_begin_file", 3, is_param("flags"), "ostream hands its flags to begin_file"),
        ("sqfs_block_processor_begin_file", "store", "blk_flags", None, is_param("flags"), "begin_file records the flags for the file"),
        ("sqfs_block_processor_append", "store", "flags", None, load_of("blk_flags"), "each new block inherits the file's flags"),
        ("add_sentinel_block", "store", "flags", None, load_of("blk_flags"), "the sentinel block inherits the file's flags"),
        ("process_completed_block", "slot", ("struct.sqfs_block_writer_t", "write_data_block"), 4, load_of("flags"), "the block's flags reach the block writer"),
    ]
    named = {fn for (fn, _k, _t, _a, _s, _w) in chain}
    expanded = []
    for (fn, kind, tgt, argi, srcp, what) in chain:
        g = [x for x in prog.functions() if x.name == fn]
        if not g and not fn.startswith("sqfs_"):
            # a static function: found by what it does, not by its name
            for x in prog.functions():
                if x.decl or x.name in named or not x.unit.src.startswith("lib/sqfs/src/block_processor/"):
                    continue
                x.build()
                if kind == "slot" and any(slot_call(c) == tgt for c in x.calls()):
                    g.append(x)
                elif kind == "store" and any(i.op == "store" and (field_of_ptr(i.ops[1]) or ("", ""))[1] == tgt and
                                             "sqfs_block" in (field_of_ptr(i.ops[1]) or ("", ""))[0] and
                                             depends_on(i.ops[0], srcp, through_loads=False) for i in x.insts()):
                    g.append(x)
        if not g:
            chk.broke("%s not found (and no function in the block processor does its job: %s)" % (fn, what))
            continue
        for x in g:
            expanded.append((x, fn if x.name == fn else x.name, kind, tgt, argi, srcp, what))
    for (g, fn, kind, tgt, argi, srcp, what) in expanded:
        g = g.build()
        chk.analysed(g)
        vals = []
        if kind == "call":
            vals = [(c.ops[argi], c) for c in g.calls() if norm_callee(c.callee) == tgt]
        elif kind == "slot":
            vals = [(c.ops[argi], c) for c in g.calls() if slot_call(c) == tgt]
        else:
            vals = []
            for (st_, gf_, ch_) in stores_via_helpers(prog, g, lambda i: (field_of_ptr(i.ops[1]) or ("", ""))[1] == tgt and
                                                      "sqfs_block" in (field_of_ptr(i.ops[1]) or ("", ""))[0]):
                if st_.ops[0].is_const:
                    # a constant written into the carrier: the file's flags do not get there at all
                    vals.append((st_.ops[0], st_))
                    continue
                if not ch_:
                    vals.append((st_.ops[0], st_))
                else:
                    lifted = lift(st_.ops[0], gf_, ch_)
                    if not lifted:
                        vals.append((st_.ops[0], st_))
                    for v_ in lifted:
                        vals.append((v_, st_))
                        if cleared_user_bits(st_.ops[0], E):
                            vals.append((st_.ops[0], st_))
        inst = "%s:%s" % (fn, tgt if isinstance(tgt, str) else tgt[1])
        if not vals:
            chk.violation("K13-transport", inst, g, "link missing: " + what)
            continue
        for (v, site) in vals:
            lost = cleared_user_bits(v, E)
            if depends_on(v, srcp, through_loads=False) and not lost:
                chk.ok("K13-transport", inst, site, what + " (no user bit masked out)")
            elif lost:
                chk.violation("K13-transport", inst, site, "user flag bit(s) 0x%x are masked out on the way: %s" % (lost, what))
            else:
                chk.violation("K13-transport", inst, site, "the value does not derive from the previous carrier: " + what)


def rule_order(chk, prog):
    """C17-d: sort file applied after post-processing, before packing"""
    mains = [g for g in prog.functions() if g.name == "main" and g.unit.src.startswith("bin/gensquashfs/")]
    if not mains:
        chk.broke("gensquashfs main not found")
        return
    m = mains[0].build()
    chk.analysed(m)
    def first(name):
        cs = [c for c in m.calls() if norm_callee(c.callee) == name]
        return cs[0] if cs else None
    pp, so = first("fstree_post_process"), first("fstree_sort_files")
    # the packing step: the call in main to a function of the tool from which the block processor's stream constructor is reached
    pk = None
    for c in m.calls():
        t = prog.fn(c.callee, m.unit) if c.callee else None
        if t is None or isinstance(t, ExternFn) or t.decl or not t.unit.src.startswith("bin/gensquashfs/"):
            continue
        cl, _e, _u = prog.reachable_from([t], stop=lambda g: not g.unit.src.startswith("bin/gensquashfs/"))
        if any(norm_callee(x.callee) == "sqfs_block_processor_create_ostream" for g in cl for x in g.build().calls()):
            pk = c
            break
    if not (pp and so and pk):
        chk.broke("main no longer calls fstree_post_process / fstree_sort_files / a packing function directly")
        return
    if m.inst_dominates(pp, so) and m.reaches(so.bb, pk.bb) and not m.reaches(pk.bb, so.bb):
        chk.ok("K11-order", "main:sort-before-pack", so, "the file list is built, then reordered by the sort file, then packed in that order")
    else:
        chk.violation("K11-order", "main:sort-before-pack", so, "the sort file is not applied between building the file list and packing it")
    # the packing loop walks the list the sorter produced
    pf = prog.fn(pk.callee, m.unit)
    if pf is None or isinstance(pf, ExternFn):
        chk.broke("pack_files is not a function of gensquashfs")
        return
    pf.build()
    chk.analysed(pf)
    # the walk may sit in a helper of pack_files (same tool)
    cl, _e, _u = prog.reachable_from([pf], stop=lambda g: not g.unit.src.startswith("bin/gensquashfs/"))
    walks = any(i.op == "load" and (field_of(i) or ("", ""))[1] == "next_by_type" for g in cl for i in g.build().insts()) and \
        any(i.op == "load" and (field_of(i) or ("", ""))[1] == "files" for g in cl for i in g.insts())
    if walks:
        chk.ok("K11-order", "pack_files:list", pf, "files are packed in fs->files / next_by_type order")
    else:
        chk.violation("K11-order", "pack_files:list", pf, "pack_files does not walk the sorted file list")


def _replace_side_strict(g, cmp):
    """the comparison decides a branch, and on one side of it the remembered node (a pointer phi) is replaced by one of the
    two nodes compared: is the relation that holds on *that* side strict?  None if the shape is not this one."""
    def base_node(v):
        v = unext(v)
        if v.is_inst and v.op == "load":
            p = strip_casts(v.ops[0])
            while p.is_inst and p.op == "getelementptr":
                p = strip_casts(p.ops[0])
            return p
        return None
    na, nb = base_node(cmp.ops[0]), base_node(cmp.ops[1])
    if na is None or nb is None:
        return None
    for br in g.uses.get(cmp, []):
        if br.op != "br" or len(br.x["succ"]) != 2:
            continue
        inc = {}
        for k, sx in enumerate(br.x["succ"]):
            pred, m = br.bb, sx
            if len(sx.insts) == 1 and sx.term.op == "br" and len(sx.succs) == 1:
                pred, m = sx, sx.succs[0]
            for ph in m.insts:
                if ph.op != "phi":
                    break
                if not ph.ty.endswith("*"):
                    continue
                for val, pr in zip(ph.ops, ph.x["inc"]):
                    if pr is pred:
                        inc.setdefault(id(ph), [ph, None, None])[1 + k] = strip_casts(val)
        sides = []
        for ph, v0, v1 in inc.values():
            if v0 is None or v1 is None or v0 is v1:
                continue
            if not ((v0 is na and v1 is nb) or (v0 is nb and v1 is na)):
                continue
            # the remembered node is the one the merged value flows back into
            for k, keep, new_ in ((0, v1, v0), (1, v0, v1)):
                if keep.is_inst and keep.op == "phi" and any(strip_casts(o) is ph for o in keep.ops):
                    sides.append(k)
        if len(set(sides)) != 1:
            continue
        holds = cmp.pred if sides[0] == 0 else {"slt": "sge", "sge": "slt", "sgt": "sle", "sle": "sgt"}[cmp.pred]
        return holds in ("slt", "sgt")
    return None


def rule_frag_flags(chk, prog):
    """K13-fragflags: a tail end that must not be compressed makes the fragment block it goes into uncompressed: where the
    block processor ORs masked flags into a block's flags, the masked flags are those of *another* block (the tail end
    that is being added).  `blk->flags |= blk->flags & MASK` takes nothing over."""
    n = good = 0
    for f in prog.functions():
        if f.decl or not f.unit.src.startswith("lib/sqfs/src/block_processor/"):
            continue
        for st in f.build().insts():
            if st.op != "store":
                continue
            q = strip_casts(st.ops[1])
            if not (q.is_inst and q.op == "getelementptr" and q.field() and "sqfs_block_t" in q.field()[0] and q.field()[1] == "flags"):
                continue
            v = strip_casts(st.ops[0])
            if not (v.is_inst and v.op == "or"):
                continue
            masked = [o for o in v.ops if strip_casts(o).is_inst and strip_casts(o).op == "and" and
                      any(c.is_const and c.is_int for c in strip_casts(o).ops)]
            if not masked:
                continue
            m = strip_casts(masked[0])
            src = [o for o in m.ops if not o.is_const]
            if not src:
                continue
            ld = strip_casts(src[0])
            if not (ld.is_inst and ld.op == "load"):
                continue
            sq = strip_casts(ld.ops[0])
            if not (sq.is_inst and sq.op == "getelementptr" and sq.field() and sq.field()[1] == "flags"):
                continue
            n += 1
            chk.analysed(f)
            tgt_base = strip_casts(resolve_ptr(prog, q, f.unit)[0])
            src_base = strip_casts(resolve_ptr(prog, sq, f.unit)[0])
            inst = "%s:flags|=@%d" % (f.name, st.line)
            same = tgt_base is src_base or (tgt_base.is_inst and src_base.is_inst and tgt_base.op == "load" and src_base.op == "load" and
                                            strip_casts(tgt_base.ops[0]) is strip_casts(src_base.ops[0]))
            if same:
                chk.violation("K13-fragflags", inst, st, "the flags that are masked and ORed into the block's flags are the block's own: "
                              "nothing is taken over from the tail end that is added, a dont_compress file's tail ends up in a "
                              "compressed fragment block")
            else:
                good += 1
                chk.ok("K13-fragflags", inst, st, "masked flags of the block that is added are ORed into the receiving block's flags")
    if good == 0 and n == 0:
        chk.broke("K13-fragflags: no block takes masked flags over from another one in the block processor")
    return n


def rule_sort_key(chk, prog):
    """K14-sortkey: files are ordered by priority, ties stay in the default order -- the order depends on nothing else.  In
    the functions of the sort-file module that relink the file list (stores to next_by_type), no branch looks at any
    other member of a node (its flags, its name, its mode): a list that is split by 'was matched by a line' and glued
    together again puts equal priorities in an order that depends on which files the sort file mentions."""
    n = 0
    ALLOWED = {"priority", "next_by_type", "files", "data", "file"}
    for f in prog.functions():
        if f.decl or not f.unit.src.endswith("bin/gensquashfs/src/sort_by_file.c"):
            continue
        f.build()
        relinks = [i for i in f.insts() if i.op == "store" and strip_casts(i.ops[1]).is_inst and
                   strip_casts(i.ops[1]).op == "getelementptr" and strip_casts(i.ops[1]).fields() and
                   strip_casts(i.ops[1]).fields()[-1][1] == "next_by_type"]
        if not relinks:
            continue
        n += 1
        chk.analysed(f)
        bad = None
        for b in f.blocks:
            t = b.term
            if not (t.op == "br" and len(t.x["succ"]) == 2):
                continue
            for x in [t.ops[0]] + list(backward_slice(t.ops[0], phi_control=False, limit=60)):
                if x.is_inst and x.op == "load":
                    q = strip_casts(x.ops[0])
                    if q.is_inst and q.op == "getelementptr" and q.fields():
                        for (sn, fn_) in q.fields():
                            if "tree_node_t" in sn and fn_ not in ALLOWED:
                                bad = (t, fn_)
        inst = "%s:order" % f.name
        if bad is None:
            chk.ok("K14-sortkey", inst, relinks[0], "the list is relinked on comparisons of priorities (and list ends) only")
        else:
            chk.violation("K14-sortkey", inst, bad[0], "a function that reorders the file list branches on the member '%s' of a node: "
                          "the final order depends on more than priority and default order (files with equal priority change "
                          "places depending on it)" % bad[1])
    return n


def rule_stable_sort(chk, prog):
    """ascending priority, ties in default order: the comparison is on the full-width priorities; a selection sort replaces
    the minimum only on strictly smaller; comparator functions are evaluated exhaustively"""
    unit_fns = [g.build() for g in prog.functions() if g.unit.src.endswith("bin/gensquashfs/src/sort_by_file.c") and not g.decl]
    n = 0
    for g in unit_fns:
        for i in g.insts():
            if i.op != "icmp":
                continue
            a, b = i.ops
            fa, fb = field_of(a), field_of(b)
            if fa and fb and fa[1] == "priority" and fb[1] == "priority":
                n += 1
                chk.analysed(g)
                inst = "%s:priority-compare@%d" % (g.name, i.line)
                la, lb = unext(a), unext(b)
                if la.ty != "i64" or lb.ty != "i64" or a.ty != "i64":
                    chk.violation("K14-sort", inst, i, "priorities are compared after narrowing to %s" % a.ty)
                elif i.pred in ("eq", "ne"):
                    chk.ok("K14-sort", inst, i, "equality test of two priorities (no order decision)")
                elif i.pred in ("slt", "sgt", "sle", "sge"):
                    strict = _replace_side_strict(g, i)
                    if strict is None:
                        strict = i.pred in ("slt", "sgt")
                    if strict:
                        chk.ok("K14-sort", inst, i, "full 64-bit signed comparison; the minimum is replaced on strictly smaller only, so an "
                               "equal priority never displaces an earlier file")
                    else:
                        chk.violation("K14-sort", inst, i, "non-strict comparison in the selection: among equal priorities a later file "
                                      "displaces an earlier one, ties are not kept in default order")
                else:
                    chk.violation("K14-sort", inst, i, "priorities compared with %s: not the signed order of the sort file" % i.pred)
    for g in shaped_comparators(prog, units_prefix=("bin/gensquashfs/src/sort_by_file.c",)):
        n += 1
        check_comparator(chk, prog, g, 0, 1, "K14-sort", want_total=False, lookup=False)
    if n == 0:
        chk.broke("no comparison of file priorities found in sort_by_file.c")


def rule_export(chk, prog):
    """C17-c: export table: entries indexed by inode number, high-water mark only grows, written when requested"""
    unit = prog.by_src.get("lib/sqfs/src/dir_writer.c")
    if unit is None:
        chk.broke("dir_writer.c not in gensquashfs")
        return
    from ..anchors import export_adder
    ea = export_adder(prog)
    if not ea:
        chk.broke("the function maintaining export_tbl.used was not found")
        return
    f = ea[0]
    f.build()
    chk.analysed(f)
    inum = f.params[1]
    n = 0
    for i in f.insts():
        if i.op == "store" and (field_of_ptr(i.ops[1]) or ("", ""))[1] == "used":
            n += 1
            ok = False
            for (cond, outcome, br) in f.guards_at(i.bb):
                if cond.is_inst and cond.op == "icmp" and cond.pred in ("uge", "ugt", "ule", "ult"):
                    a, b = cond.ops
                    da = depends_on(a, lambda x: x is inum, through_loads=False)
                    db = depends_on(b, lambda x: x is inum, through_loads=False)
                    ua = (field_of(a) or ("", ""))[1] == "used"
                    ub = (field_of(b) or ("", ""))[1] == "used"
                    if (da and ub and ((cond.pred in ("uge", "ugt")) == (outcome is True))) or \
                            (db and ua and ((cond.pred in ("ule", "ult")) == (outcome is True))):
                        ok = True
            if ok and depends_on(i.ops[0], lambda x: x is inum, through_loads=False):
                chk.ok("K13-export", "add_export_table_entry:used", i, "the number of table entries only grows: it is raised to the inode number "
                       "under a guard that the inode number is beyond it")
            else:
                chk.violation("K13-export", "add_export_table_entry:used", i, "the export table's entry count is set without checking that it "
                              "grows: an inode number below the current maximum truncates the table")
    if n == 0:
        chk.broke("add_export_table_entry no longer maintains export_tbl.used")
    # the slot written is inum - 1 and the value is the reference
    iref = f.params[2]
    slot = [i for i in f.insts() if i.op == "store" and strip_casts(i.ops[0]) is iref]
    if slot and any(depends_on(s.ops[1], lambda x: x is inum, through_loads=False) for s in slot):
        chk.ok("K13-export", "add_export_table_entry:slot", slot[0], "the inode reference is stored at the index derived from the inode number")
    else:
        chk.violation("K13-export", "add_export_table_entry:slot", f, "the inode reference is not stored at the index of its inode number")
    # callers pass the entry's own number and reference
    for c in prog.callers_of(f):
        g = c.bb.fn
        g.build()
        chk.analysed(g)
        names = [getattr(unext(c.ops[k]), "name", "") or "" for k in (1, 2)]
        par = [(not unext(c.ops[k]).is_inst) and (not unext(c.ops[k]).is_const) for k in (1, 2)]
        inst = "%s:add_export_table_entry" % g.name
        if all(par) and unext(c.ops[1]) is not unext(c.ops[2]):
            chk.ok("K13-export", inst, c, "called with the caller's inode number and reference parameters (%s, %s)" % tuple(names))
        else:
            chk.violation("K13-export", inst, c, "the export table entry is not built from the entry's own inode number and reference")
    # finish: requested -> written
    fin = [g for g in prog.functions() if g.name == "sqfs_writer_finish"]
    if fin:
        g = fin[0].build()
        chk.analysed(g)
        cs = [c for c in g.calls() if norm_callee(c.callee) == "sqfs_dir_writer_write_export_table"]
        if not cs:
            # the table writers may live in a static helper of finish
            cl, _e, _u = prog.reachable_from([g], stop=lambda h, u=g.unit: h.unit is not u)
            for h in cl:
                if h is g or h.decl:
                    continue
                hc = [c for c in h.build().calls() if norm_callee(c.callee) == "sqfs_dir_writer_write_export_table"]
                if hc:
                    g, cs = h, hc
                    chk.analysed(g)
                    break
        if cs and any((field_of(cond.ops[0] if cond.is_inst and cond.ops else cond) or ("", ""))[1] == "exportable" or
                      depends_on(cond, lambda x: x.is_inst and x.op == "load" and (field_of(x) or ("", ""))[1] == "exportable")
                      for (cond, outcome, br) in g.guards_at(cs[0].bb)):
            chk.ok("K13-export", "sqfs_writer_finish:exportable", cs[0], "the export table is written when the configuration asks for it")
        else:
            chk.violation("K13-export", "sqfs_writer_finish:exportable", cs[0] if cs else g, "--exportable no longer leads to an export table being written")


def rule_out_fresh(chk, prog, units=("bin/gensquashfs/src/sort_by_file.c",)):
    """K9-outfresh: a line of the sort file is decoded by helpers that hand their findings back through out-parameters
    (flags, glob mode, priority).  A helper that writes such an out-parameter on some way to `return 0` writes it on every
    way to `return 0` -- or the caller sets the variable afresh in the loop before each call.  Otherwise a line without the
    optional part inherits what the last line with it had: flags are applied to files that were listed without them."""
    from ..errflow import ret_sources
    n = 0
    for g in prog.functions():
        if g.decl or g.unit.src not in units or not g.internal:
            continue
        g.build()
        zero = {b for (v, b) in ret_sources(g) if strip_casts(v).is_const and strip_casts(v).is_int and strip_casts(v).sval == 0}
        if not zero:
            continue
        for k, par in enumerate(g.params):
            if (par.ty or "") not in ("i8*", "i32*", "i64*", "i1*", "i16*"):
                continue
            stores = [i for i in g.insts() if i.op == "store" and strip_casts(i.ops[1]) is par]
            if not stores:
                continue
            # is the parameter only written (an out-parameter), never read before it is written?  reads are fine, they just
            # make it in/out; the rule is about the ways to success that leave it alone
            sb = {i.bb for i in stores}
            seen, work, bad = set(), [g.blocks[0]], None
            while work and bad is None:
                b = work.pop()
                if b in seen or b in sb:
                    continue
                seen.add(b)
                if b in zero:
                    bad = b
                work.extend(b.succs)
            n += 1
            chk.analysed(g)
            inst = "%s:%s" % (g.name, par.name or ("arg%d" % k))
            if bad is None:
                chk.ok("K9-outfresh", inst, g, "every way to `return 0` writes the out-parameter")
                continue
            # the caller may set its variable afresh before every call
            fresh = True
            cs = prog.callers_of(g)
            for c in cs:
                f = c.fn
                f.build()
                a = strip_casts(c.ops[k]) if k < len(c.ops) else None
                if a is None or not (a.is_inst and a.op == "alloca"):
                    fresh = False
                    continue
                loop = None
                for (h, body) in f.loops:
                    if c.bb in body and (loop is None or len(body) < len(loop[1])):
                        loop = (h, body)
                if loop is None:
                    continue            # called once: the initialiser is the value
                init = {i.bb for i in f.insts() if i.op == "store" and strip_casts(i.ops[1]) is a and i.bb in loop[1] and
                        (i.bb is not c.bb or i.pos < c.pos)}
                seen2, work2 = set(), [loop[0]]
                hit = False
                while work2:
                    b = work2.pop()
                    if b in seen2 or b in init or b not in loop[1]:
                        continue
                    seen2.add(b)
                    if b is c.bb:
                        hit = True
                        break
                    work2.extend(b.succs)
                if hit:
                    fresh = False
            if fresh and cs:
                chk.ok("K9-outfresh", inst, g, "some way to `return 0` leaves the out-parameter alone, every caller sets its variable "
                       "afresh before the call")
            else:
                chk.violation("K9-outfresh", inst, bad.term, "%s writes '%s' on some ways to `return 0` and leaves it alone on others, "
                              "and a caller that calls it in a loop does not reset its variable in between: a line without the "
                              "optional part inherits what an earlier line set (flags, glob mode)" % (g.name, par.name or "the out-parameter"))
    return n


def run(chk):
    chk.explanation = (
        "The layout of produced images is value-level and not decided. Decided on LLVM IR is the transport of every "
        "directive to the code that acts on it: K1-action (each user-settable block flag is tested where it has to act: "
        "compressor call, sparse marking, tail fragment, fragment and block deduplication; the bit is derived from the "
        "guard, not assumed); K13-keyword (each sort file keyword ORs exactly the bit whose point of action matches its "
        "name); K13-transport (decoder -> node -> create_ostream -> begin_file -> blk_flags -> block -> block writer: each "
        "link's value derives from the previous carrier and no AND-mask on the way clears a user bit); K13-first (a file "
        "is assigned only while its already-matched bit is clear and the bit is set with it); K13-notail (--no-tail-"
        "packing adds the bit only for sizes strictly greater than the block size, in gensquashfs and tar2sqfs); "
        "K11-order (post-process, then sort, then pack; packing walks the sorted list); K14-sort (priorities compared at "
        "full width, strictly; comparator-shaped helpers evaluated exhaustively incl. truncated differences); K13-export "
        "(export table entry count only grows, slot index from the inode number, written when requested). K13-fragflags: the flags of a fragment block are built from constants and the fragment bit only, never from a file's flags; K14-sortkey: the whole file list is handed to the sort, no part of it is split off by whether a line matched. K9-outfresh: a decoder of a sort file line writes each of its out-parameters (flags, glob mode, priority) on every way to success, or its caller resets the variable before every call.")
    chk.assumptions = ["stability of an arbitrary sort algorithm is decided only for the selection-sort shape (strict comparison)"]
    E = enum_values()
    prog = load_program("gensquashfs")
    bits = rule_actions(chk, prog, E)
    rule_keywords(chk, prog, E, bits)
    rule_transport(chk, prog, E)
    rule_order(chk, prog)
    rule_stable_sort(chk, prog)
    rule_export(chk, prog)
    rule_frag_flags(chk, prog)
    chk.floor("K13-fragflags", 1)
    rule_sort_key(chk, prog)
    chk.floor("K14-sortkey", 1)
    rule_out_fresh(chk, prog)
    chk.floor("K9-outfresh", 1)
    # "none of these changes the contents read back": whatever a per-file flag does in the block writer, every block
    # that is written stays on its record (the truncation after a duplicate run knows nothing else) -- K11-logged of C08
    from .c08 import rule_j_logged, rule_g_truncate
    rule_j_logged(chk, prog)
    rule_g_truncate(chk, prog)
    chk.floor("K11-logged", 1)
    chk.floor("K1-action", 5)
    chk.floor("K13-keyword", 4)
    chk.floor("K13-transport", 7)
    chk.floor("K13-first", 2)
    chk.floor("K13-notail", 2)
    chk.floor("K11-order", 2)
    chk.floor("K14-sort", 1)
    chk.floor("K13-export", 4)
