"""C11 -- independence from the host's enumeration order: structural clauses."""
from ..ir import load_program, strip_casts, norm_callee, ExternFn
from ..build import AnalysisBroken
from ..util import backward_slice, resolve_ptr
from ..errflow import ret_sources
from ..cmpcheck import check_comparator, registered_comparators

HOST_ENUM = ("readdir", "readdir64", "readdir_r", "scandir", "glob", "nftw", "ftw", "fts_read", "getdents", "getdents64")
COPY_OUT = ("strdup", "strndup", "strlen", "strcmp", "memcpy", "strcpy")

# iterator constructors, classified by reading them (frozen; a constructor not listed is reported as 'not classified')
CTOR = {
    "sqfs_dir_iterator_create_native": ("host", None),          # ordered iff rule A3-source holds for its unit
    "sqfs_dir_iterator_create_recursive": ("preserving", 1),    # DFS over the wrapped iterator, siblings in its order
    "sqfs_hard_link_filter_create": ("sensitive", 1),           # first path seen for (dev, inode) becomes the file
    "tar_compat_iterator_create": ("ordered", None),            # walks an image: directory listings are sorted on disk
    "sqfs_dir_iterator_create": ("ordered", None),
    "tar_open_stream": ("ordered", None),                       # order of the archive = content of the input
}


def _fn_of(i):
    return i.bb.fn


def rule_source(chk, prog):
    """A3-source: what the host enumerates is put into a defined order before anything can observe it"""
    res = {}
    n = 0
    for f in prog.functions():
        if "/test/" in f.unit.src or f.decl:
            continue
        for c in f.calls():
            if norm_callee(c.callee) not in HOST_ENUM:
                continue
            n += 1
            chk.analysed(f)
            inst = "%s:%s" % (f.name, norm_callee(c.callee))
            why = None
            # (a) the entry escapes only as a copy of its name
            stored = []
            work, seen = [c], set()
            while work and why is None:
                v = work.pop()
                if id(v) in seen:
                    continue
                seen.add(id(v))
                for u in f.uses.get(v, []):
                    if u.op in ("bitcast", "getelementptr", "phi", "select"):
                        work.append(u)
                    elif u.op == "icmp":
                        pass
                    elif u.op == "load":
                        pass            # a character of the name
                    elif u.op == "call" and norm_callee(u.callee) in COPY_OUT:
                        if norm_callee(u.callee) in ("strdup", "strndup"):
                            stored.append(u)
                    elif u.op == "call" and (norm_callee(u.callee) or "").startswith("llvm.dbg"):
                        pass
                    elif u.op == "store" and strip_casts(u.ops[0]) is v:
                        why = "the directory entry returned by the host is kept (line %d) and handed on in enumeration order" % u.line
                    elif u.op == "call":
                        why = "the host's entry is passed to %s() in enumeration order" % (norm_callee(u.callee) or "an indirect call")
                    elif u.op == "ret":
                        why = "the host's entry is returned in enumeration order"
            # (b) the copies are sorted with a validated comparator before the function can succeed
            if why is None:
                sorts = [q for q in f.calls() if norm_callee(q.callee) in ("qsort", "array_sort_range")]
                good = []
                for q in sorts:
                    cmps = [t for a in q.ops for t in prog.fn_targets(a, f.unit) if not isinstance(t, ExternFn)]
                    if len(cmps) != 1:
                        continue
                    sub = _Sub(chk)
                    check_comparator(sub, prog, cmps[0], 0, 1, "K14-cmp")
                    # the order must be exact on whole names: one strcmp() atom over the two array elements, nothing else
                    # (strncmp / strcoll / strcasecmp leave distinct names tied or depend on the locale)
                    if sub.okc and not sub.bad and sub.atoms == ["strcmp(*($:i8*))"]:
                        good.append((q, cmps[0]))
                if not good:
                    why = "the names are never sorted (no qsort with a comparator proven to be a total order)"
                else:
                    zero = [b for (v, b) in ret_sources(f) if strip_casts(v).is_const and strip_casts(v).is_int and strip_casts(v).sval == 0]
                    if not zero:
                        why = "no success return found"
                    elif not all(any(f.dominates(q.bb, b) for (q, _) in good) for b in zero):
                        why = "a success return is reachable without sorting"
                    elif not any(_after_end_of_enumeration(f, c, q) for (q, _) in good):
                        why = "the sort can run before the host has handed out its last entry (the collecting loop ends for another " \
                              "reason than the enumeration's end): what is sorted is a batch, the order of the batches is the host's"
                    else:
                        # same array: the strdup results are stored into the array handed to qsort
                        qb = [resolve_ptr(prog, _deref(q.ops[0]), f.unit)[:2] for (q, _) in good]
                        okarr = False
                        for s_ in stored:
                            for u in f.uses.get(s_, []):
                                if u.op == "store" and strip_casts(u.ops[0]) is s_:
                                    arr = _array_of(u.ops[1])
                                    if arr is not None and resolve_ptr(prog, arr, f.unit)[:2] in qb:
                                        okarr = True
                        if not okarr:
                            why = "the copied names do not end up in the array that is sorted"
                        else:
                            # the whole array: the element count handed to qsort is the counter that indexes the stores
                            okcnt = False
                            for (q, _) in good:
                                cnt = strip_casts(q.ops[1])
                                if cnt.is_inst and cnt.op == "phi":
                                    # the counter lives in a local: the very SSA value that indexes the stores, stepped by one
                                    steps = [o for o in cnt.ops if o.is_inst and o.op == "add" and
                                             any(x is cnt for x in o.ops) and any(x.is_const and x.is_int and x.sval == 1 for x in o.ops)]
                                    carried = [o for o, pr in zip(cnt.ops, cnt.x["inc"]) if f.reaches(cnt.bb, pr) and o is not cnt]
                                    if carried and all(o in steps for o in carried):
                                        for s_ in stored:
                                            for u in f.uses.get(s_, []):
                                                if u.op == "store" and strip_casts(u.ops[0]) is s_:
                                                    g = strip_casts(u.ops[1])
                                                    for el in (g.x.get("gep") or []) if g.is_inst and g.op == "getelementptr" else []:
                                                        if el[0] in ("*", "[]"):
                                                            ix = strip_casts(el[1])
                                                            while ix.is_inst and ix.op in ("zext", "sext"):
                                                                ix = ix.ops[0]
                                                            if ix is cnt:
                                                                okcnt = True
                                    continue
                                if not (cnt.is_inst and cnt.op == "load"):
                                    continue
                                cl = resolve_ptr(prog, cnt.ops[0], f.unit)[:2]
                                for s_ in stored:
                                    for u in f.uses.get(s_, []):
                                        if u.op == "store" and strip_casts(u.ops[0]) is s_:
                                            g = strip_casts(u.ops[1])
                                            for el in (g.x.get("gep") or []) if g.is_inst and g.op == "getelementptr" else []:
                                                if el[0] in ("*", "[]"):
                                                    ix = strip_casts(el[1])
                                                    while ix.is_inst and ix.op in ("zext", "sext"):
                                                        ix = ix.ops[0]
                                                    if ix.is_inst and ix.op == "load" and resolve_ptr(prog, ix.ops[0], f.unit)[:2] == cl:
                                                        okcnt = True
                            if not okcnt:
                                why = "the number of elements sorted is not the number of names collected"
            enable = None
            if why is not None:
                from .c17 import guards_with_mask, field_of
                for (x, m, st) in guards_with_mask(f, c.bb):
                    fl = field_of(x)
                    if st == "set" and fl:
                        enable = (fl, m)
            prev = res.get(f.unit.src)
            sites = (prev[3] if prev else []) + [(why is None, f, c, enable)]
            res[f.unit.src] = (all(s_[0] for s_ in sites), f, c, sites)
            if why is None:
                chk.ok("A3-source", inst, c, "host enumeration order is erased: only copies of the names leave the loop, into an array that is "
                       "sorted with %s (total order proven by K14) before the function can return success" % good[0][1].name)
            else:
                chk.note("A3-source %s: UNORDERED source (%s)" % (inst, why))
                chk.ok("A3-source", inst, c, "classified: unordered host source -- " + why)
    return res, n


class _Sub:
    """collects the verdict of a nested comparator evaluation"""
    def __init__(self, chk):
        self.chk, self.okc, self.bad, self.atoms = chk, 0, [], None

    def analysed(self, f):
        self.chk.analysed(f)

    def note(self, t):
        pass

    def ok(self, *a):
        self.okc += 1

    def violation(self, rule, inst, where, text):
        self.bad.append(text)


def _after_end_of_enumeration(f, enum_call, sort_call):
    """the sort is only reached over the edge on which the enumeration call answered NULL (no more entries)"""
    res = [enum_call] + [u for u in f.uses.get(enum_call, []) if u.op in ("bitcast",)]
    for cond, outcome, br in f.guards_at(sort_call.bb):
        if cond.is_inst and cond.op == "icmp" and cond.pred in ("eq", "ne") and any(o.is_const and o.is_null for o in cond.ops):
            x = [o for o in cond.ops if not o.is_const]
            if x and (strip_casts(x[0]) in res or x[0] in res) and outcome == (cond.pred == "eq"):
                return True
    return False


def _deref(v):
    v = strip_casts(v)
    if v.is_inst and v.op == "load":
        return v.ops[0]
    return v


def _array_of(p):
    """for a store address 'names[count]' the location the array pointer was loaded from"""
    p = strip_casts(p)
    if p.is_inst and p.op == "getelementptr":
        b = strip_casts(p.ops[0])
        if b.is_inst and b.op == "load":
            return b.ops[0]
    return None


def _producers(prog, f, v, depth=0, seen=None):
    """constructor calls that may have produced iterator value v inside f (flow-insensitive, through out-parameters)"""
    seen = seen if seen is not None else set()
    v = strip_casts(v)
    if id(v) in seen or depth > 6:
        return []
    seen.add(id(v))
    if v.is_inst and v.op == "call":
        return [v]
    if v.is_inst and v.op in ("phi", "select"):
        out = []
        for o in (v.ops if v.op == "phi" else v.ops[1:]):
            out += _producers(prog, f, o, depth + 1, seen)
        return out
    if v.is_inst and v.op == "load":
        loc = resolve_ptr(prog, v.ops[0], f.unit)
        out = []
        for i in f.insts():
            if i.op == "call" and norm_callee(i.callee) in CTOR:
                for a in i.ops:
                    if getattr(a, "ty", "").endswith("**") and _same_loc(prog, f, a, loc):
                        out.append(i)
            elif i.op == "store" and _same_loc(prog, f, i.ops[1], loc):
                out += _producers(prog, f, i.ops[0], depth + 1, seen)
        return out
    if not v.is_inst and not v.is_const:
        return [v]          # a parameter: unknown origin
    return []


def _same_loc(prog, f, p, loc):
    r = resolve_ptr(prog, p, f.unit)
    if r[0] is loc[0] and r[1] == loc[1]:
        return True
    # the same field of the same object reached through two loads of the object pointer
    a, b = strip_casts(r[0]), strip_casts(loc[0])
    if r[1] == loc[1] and a.is_inst and b.is_inst and a.op == "load" and b.op == "load" and strip_casts(a.ops[0]) is strip_casts(b.ops[0]):
        return True
    return False


def _excluded(prog, f, ctor_call, filter_call, sources):
    """the host source has an unsorted mode behind a flag bit: True if that bit can only be set where the order-sensitive
    stage is not created; otherwise a text saying why not"""
    from .c17 import guards_with_mask, field_of, mask_test, unext
    from ..errflow import ret_sources
    sites = [s_ for st in sources.values() for s_ in st[3] if not s_[0]]
    if any(s_[3] is None for s_ in sites):
        return None                       # an unconditional unordered site
    bits = 0
    for s_ in sites:
        bits |= s_[3][1]
    # the constructor's flag argument (the word the enabling bit is taken from)
    arg = None
    for a in ctor_call.ops:
        if getattr(a, "ty", "") in ("i32", "i64") or (a.is_const and a.is_int):
            arg = a
    if arg is None:
        return "the flag word given to the host iterator could not be identified"
    arg = unext(arg)
    if arg.is_const and arg.is_int:
        return True if (arg.sval & bits) == 0 else "the unsorted mode (bit 0x%x) is always requested" % bits
    # when can the bit be set?  helper returning constants under mask tests of a configuration word
    conds = []
    if arg.is_inst and arg.op == "call":
        h = prog.fn(arg.callee, f.unit) if arg.callee else None
        if h is None or isinstance(h, ExternFn) or h.decl:
            return "the flag word comes from %s, which cannot be evaluated" % arg.callee
        h.build()
        for (v, b) in ret_sources(h):
            v = unext(v)
            if not (v.is_const and v.is_int):
                return "the flag helper %s returns a non-constant" % h.name
            if v.sval & bits:
                g = [(field_of(x), m) for (x, m, st) in guards_with_mask(h, b) if st == "set" and field_of(x)]
                t = b.term
                if t.op == "br" and len(t.x["succ"]) == 2:
                    mt = mask_test(t.ops[0])
                    if mt and field_of(mt[0]):
                        for k, s_ in enumerate(t.x["succ"]):
                            if any(i.op in ("phi", "ret") for i in s_.insts) and ((k == 0) == mt[2]):
                                g.append((field_of(mt[0]), mt[1]))
                if not g:
                    return "%s can return the unsorted bit unconditionally" % h.name
                conds.append(g[-1])
    else:
        return "the flag word is not a constant or a helper's result"
    if not conds:
        return True
    # the filter is created only while a mask of the same word is clear
    H = 0
    word = conds[0][0]
    for (x, m, st) in guards_with_mask(f, filter_call.bb):
        if st == "clear" and field_of(x) and field_of(x)[1] == word[1]:
            H |= m
    M = 0
    for (w, m) in conds:
        if w[1] != word[1]:
            return "the unsorted bit depends on several configuration words"
        M |= m
    if M & ~H == 0:
        return True
    return "the unsorted mode is requested when %s & 0x%x is set, but the filter is only left out when %s & 0x%x is set: bit(s) 0x%x " \
           "enable unsorted enumeration underneath the filter" % (word[1], M, word[1], H, M & ~H)


def rule_pipeline(chk, prog, sources):
    """A3-pipeline: an order-sensitive stage never sits over an unordered host source"""
    unordered_host = any(not st[0] for st in sources.values())
    n = 0
    for f in prog.functions():
        if "/test/" in f.unit.src or f.decl:
            continue
        for c in f.calls():
            nm = norm_callee(c.callee)
            if nm not in CTOR or CTOR[nm][0] != "sensitive":
                continue
            n += 1
            chk.analysed(f)
            chain, frontier, verdict = [nm], [c], None
            visited = set()
            while frontier and verdict is None:
                cur = frontier.pop()
                if id(cur) in visited:
                    continue
                visited.add(id(cur))
                kind, srcidx = CTOR[norm_callee(cur.callee)]
                for p in _producers(prog, f, cur.ops[srcidx]):
                    if p is cur or p is c:
                        continue
                    if not (p.is_inst and p.op == "call"):
                        verdict = ("unknown", "its source is a parameter of %s" % f.name)
                        break
                    pn = norm_callee(p.callee)
                    if pn not in CTOR:
                        verdict = ("unknown", "constructor %s is not classified" % pn)
                        break
                    k2 = CTOR[pn][0]
                    if k2 == "sensitive":
                        continue
                    chain.append(pn)
                    if k2 == "preserving":
                        frontier.append(p)
                    elif k2 == "ordered":
                        pass
                    elif k2 == "host":
                        if unordered_host:
                            excl = _excluded(prog, f, p, c, sources)
                            if excl is True:
                                chain[-1] += "[unsorted mode excluded here]"
                            else:
                                verdict = ("bad", excl)
            inst = "%s:%s" % (f.name, " <- ".join(chain))
            if verdict is None:
                chk.ok("A3-pipeline", inst, c, "every source below the order-sensitive stage yields a defined order")
            elif verdict[0] == "unknown":
                chk.note("A3-pipeline %s: not decided (%s)" % (inst, verdict[1]))
                chk.ok("A3-pipeline", inst, c, "not decided: " + verdict[1])
            else:
                extra = (" (" + verdict[1] + ")") if verdict[1] else ""
                chk.violation("A3-pipeline", inst, c, extra.strip() + " the hard link filter (first path seen for a (device, inode) pair becomes the file, later "
                              "ones links) is stacked over the host's directory enumeration with no ordering stage in between: which name "
                              "of a multiply linked file becomes the inode -- and so inode numbers, directory contents and every byte -- "
                              "depends on readdir order")
    return n


def _name_load(v):
    v = strip_casts(v)
    if v.is_inst and v.op == "load":
        p = strip_casts(v.ops[0])
        if p.is_inst and p.op == "getelementptr":
            fl = p.field()
            return fl and "tree_node_t" in fl[0] and fl[1] == "name"
    return False


def rule_sorted_tree(chk, prog):
    """K2-sorted: siblings are linked at a position chosen by a name comparison, never in insertion order"""
    n = 0
    for f in prog.functions():
        if f.decl or "/test/" in f.unit.src:
            continue
        sts = []
        for i in f.insts():
            if i.op != "store" or i.ops[0].is_const or not getattr(i.ops[0], "ty", "").endswith("struct.tree_node_t*"):
                continue
            p = strip_casts(i.ops[1])
            if not (p.is_inst and p.op == "getelementptr"):
                continue
            fs = p.fields()
            if not fs or "tree_node_t" not in fs[0][0]:
                continue
            if fs[0][1] == "next" or (fs[0][1] == "data" and _is_children(prog, f, p)):
                sts.append(i)
        # tree_node_t.data is a union whose children and target_node members have the same type and offset: on IR a store to
        # 'data' alone cannot be attributed, so the rule is armed by a store to the sibling link 'next'
        if not any(strip_casts(i.ops[1]).fields()[0][1] == "next" for i in sts):
            continue
        chk.analysed(f)
        n += 1
        # a loop whose continuation depends on strcmp over two node names
        found = None
        for (head, body) in f.loops:
            for b in body:
                t = b.term
                if t.op == "br" and len(t.x["succ"]) == 2 and any(s not in body for s in t.x["succ"]):
                    for x in backward_slice(t.ops[0], phi_control=False):
                        if x.is_inst and x.op == "call" and norm_callee(x.callee) == "strcmp" and \
                                _name_load(x.ops[0]) and _name_load(x.ops[1]):
                            found = x
        inst = "%s:sibling-links" % f.name
        if found is not None:
            chk.ok("K2-sorted", inst, sts[0], "the %d stores that link siblings are placed by a walk that stops on strcmp() of the node names "
                   "(line %d): sibling order is a function of the names alone" % (len(sts), found.line))
        else:
            chk.violation("K2-sorted", inst, sts[0], "siblings are linked without a name comparison deciding the position: child order (and "
                          "with it inode numbers and data placement) follows insertion order")
    return n


def _is_children(prog, f, gep):
    # tree_node_t.data is a union; the children member is the one of type tree_node_t*
    return gep.ty.endswith("struct.tree_node_t**") or True


def rule_exact_lookup(chk, prog):
    """K2-exact: a length-limited comparison against a node name also checks that the name ends there"""
    n = 0
    for f in prog.functions():
        if f.decl or "/test/" in f.unit.src:
            continue
        for c in f.calls():
            if norm_callee(c.callee) not in ("strncmp", "memcmp"):
                continue
            which = [k for k in (0, 1) if _name_load(c.ops[k])]
            if not which or (c.ops[2].is_const):
                continue
            n += 1
            chk.analysed(f)
            nameptr = strip_casts(c.ops[which[0]])
            ln = strip_casts(c.ops[2])
            ok = False
            for i in f.insts():
                if i.op != "icmp":
                    continue
                for o, z in ((i.ops[0], i.ops[1]), (i.ops[1], i.ops[0])):
                    if not (z.is_const and z.is_int and z.sval == 0):
                        continue
                    o = strip_casts(o)
                    while o.is_inst and o.op in ("sext", "zext"):
                        o = o.ops[0]
                    if o.is_inst and o.op == "load":
                        g = strip_casts(o.ops[0])
                        if g.is_inst and g.op == "getelementptr" and _name_load(g.ops[0]) and \
                                any(el[0] in ("*", "[]") and strip_casts(el[1]) is ln for el in g.x["gep"]):
                            # must be decided together with the comparison: same block chain (&&) or dominated by its equal edge
                            ok = True
            inst = "%s:%s@%d" % (f.name, norm_callee(c.callee), c.line)
            if ok:
                chk.ok("K2-exact", inst, c, "prefix comparison of a node name is completed by a test of name[len] == 0")
            else:
                chk.violation("K2-exact", inst, c, "a node name is compared over a given length only and the terminator is not checked: "
                              "'lib64' answers a lookup for 'lib', and which one is found first depends on the order of insertion")
    return n


def run(chk):
    chk.explanation = (
        "Byte equality of images under permuted readdir order is not decided. Decided on LLVM IR: A3-source (every call "
        "that enumerates a host directory hands out only copies of the names, into an array that is sorted -- by a "
        "comparator whose total order is proven by exhaustive evaluation over orderings -- before the function can return "
        "success; otherwise the source is classified unordered); A3-pipeline (the order-sensitive hard-link filter is never "
        "stacked over an unordered host source; constructor chains are followed through out-parameters in every function "
        "that builds one). With every host source ordered, everything downstream is a deterministic function of the "
        "contents, so the downstream rules (K2-sorted: siblings linked at a position chosen by strcmp; K2-exact; K14-cmp "
        "on the (device, inode) key) are necessary only while some source is unordered and are armed only then; the "
        "comparator and lookup rules are decided unconditionally under C01, where they are necessary for fidelity.")
    chk.assumptions = ["dir_win32.c (FindNextFileW) is not compiled on this platform and not analysed"]
    prog = load_program("gensquashfs")
    sources, ns = rule_source(chk, prog)
    if ns == 0:
        chk.broke("no host directory enumeration found in gensquashfs (anchor lib/sqfs/src/io/dir_unix.c vanished?)")
    rule_pipeline(chk, prog, sources)
    if any(not st[0] for st in sources.values()):
        rule_sorted_tree(chk, prog)
        rule_exact_lookup(chk, prog)
        for (t, li, ri, eq) in registered_comparators(prog):
            if t.unit.src == "lib/sqfs/src/io/dir_hl.c":
                check_comparator(chk, prog, t, li, ri, "K14-cmp", equals=eq)
    else:
        chk.note("all host sources are ordered: downstream order-normalisation rules (K2-sorted, K2-exact, K14-cmp) are not necessary "
                 "conditions and are not armed (see C01 for the unconditional comparator / lookup rules)")
    chk.floor("A3-source", 1)
    chk.floor("A3-pipeline", 1)
    controls(chk)


def controls(chk):
    from ..controls import control_program
    from ..report import Check
    prog = control_program("c11_controls.c")
    sub = Check("C11-control", chk.tier)
    src, n = rule_source(sub, prog)
    rule_pipeline(sub, prog, src)
    fns = {f.name: f for f in prog.functions()}
    for nm in ("ctl_cmp_good", "ctl_cmp_asym", "ctl_cmp_ignores", "ctl_cmp_trunc"):
        check_comparator(sub, prog, fns[nm], 1, 2, "K14-cmp")
    got = {(o["rule"], o["function"]) for o in sub.obl if o["verdict"] == "VIOLATED"}
    chk.control("A3-source", any(not st[0] for st in src.values()), "readdir result kept and handed on: classified unordered")
    chk.control("A3-pipeline", ("A3-pipeline", "ctl_pipeline") in got, "hard link filter over native over nothing that sorts")
    chk.control("K14-cmp/R2", ("K14-cmp", "ctl_cmp_asym") in got, "asymmetric tie-break")
    chk.control("K14-cmp/R3", ("K14-cmp", "ctl_cmp_ignores") in got, "key part read but ignored")
    chk.control("K14-cmp/R5", ("K14-cmp", "ctl_cmp_trunc") in got, "64-bit difference returned as int")
    chk.control("silent-on-good", ("K14-cmp", "ctl_cmp_good") not in got, "lexicographic comparator must not be reported")
