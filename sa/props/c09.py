"""C09 -- worker pool: lockset + condition-variable discipline (K4), DESIGN.md C09."""
from collections import defaultdict

from ..ir import load_program, strip_casts, norm_callee, ExternFn
from ..build import AnalysisBroken
from ..util import resolve_ptr, backward_slice, const_int

UNIT = "lib/util/src/threadpool.c"
POOL = "struct.thread_pool_impl_t"
WORKER = "struct.worker_t"

# frozen field classes (DESIGN.md C09); every field of the pool struct must be classified
SHARED = {"queue", "queue_last", "done", "status", "next_ticket", "next_dequeue_ticket"}
MAIN_ONLY = {"item_count", "safe_done", "safe_done_last", "recycle"}
CONFIG = {"workers.user"}
IMMUTABLE = {"num_workers", "workers.fun", "workers.pool", "workers.thread", "base", "workers"}
SYNC = {"mtx", "queue_cond", "done_cond"}
SHUTDOWN_FLAG = "status"

# L5 exceptions: (function, field, condvar) -> reason
L5_EXCEPTIONS = {
    ("store_completed", "status", "queue_cond"):
        "a failure status only has to stop idle workers from taking new items; they wait on queue_cond until "
        "destroy() broadcasts queue_cond, which rule L10 proves it does on every path before joining",
}

H, NH, MIX = "held", "not-held", "mixed"


def pool_field(inst):
    """field name (dotted) of the pool struct a load/store/GEP pointer addresses, else None"""
    p = inst
    if p.is_inst and p.op in ("load",):
        p = p.ops[0]
    elif p.is_inst and p.op == "store":
        p = p.ops[1]
    p = strip_casts(p)
    if not (p.is_inst and p.op == "getelementptr"):
        return None
    names = []
    hit = False
    for (s, n) in p.fields():
        s = s.split(".")[0] + "." + ".".join(s.split(".")[1:])
        if s.startswith(POOL):
            hit = True
            names = [n]
        elif hit:
            names.append(n)
    if not hit:
        # access through a worker_t* (worker->pool / worker->user / worker->fun)
        fs = p.fields()
        if fs and fs[0][0].startswith(WORKER):
            return "workers." + fs[0][1]
        return None
    # chained GEPs: pool->workers + i  then  ->user
    return ".".join(names[:2]) if names[0] == "workers" and len(names) > 1 else names[0]


def worker_elem_field(inst, fn):
    """pool->workers[i].x split over two GEPs: second GEP has a worker_t step"""
    return None


class LockFlow:
    def __init__(self, chk, prog, unit):
        self.chk, self.prog, self.unit = chk, prog, unit
        self.fns = [f.build() for f in unit.functions.values() if not f.decl]
        self.entry_state = {}
        self.exit_state = {}
        self.in_states = {}
        self.point_state = {}

    def is_mutex_arg(self, v):
        p = strip_casts(v)
        if p.is_inst and p.op == "getelementptr":
            f = p.fields()
            return bool(f) and f[-1][0].startswith(POOL) and f[-1][1] == "mtx"
        return False

    def cond_name(self, v):
        p = strip_casts(v)
        if p.is_inst and p.op == "getelementptr":
            f = p.fields()
            if f and f[-1][0].startswith(POOL):
                return f[-1][1]
        return None

    def transfer_inst(self, i, st, events):
        if i.op != "call":
            return st
        name = norm_callee(i.callee)
        if name == "pthread_mutex_lock" and self.is_mutex_arg(i.ops[0]):
            if st == H:
                events.append(("L3", "nested-lock", i, "mutex acquired while already held"))
            elif st == MIX:
                events.append(("L3", "lock-unknown-state", i, "mutex acquired where the lock state differs between paths"))
            return H
        if name == "pthread_mutex_unlock" and self.is_mutex_arg(i.ops[0]):
            if st != H:
                events.append(("L3", "unlock-not-held", i, "mutex released on a path where it is %s" % st))
            return NH
        if name == "pthread_cond_wait":
            return st
        if name:
            g = self.unit.functions.get(name)
            if g is not None and not g.decl and g in self.exit_state:
                ex = self.exit_state[g]
                if ex == "same":
                    return st
                return ex
        return st

    def run_fn(self, f, entry, events):
        ins = {f.blocks[0]: entry}
        work = [f.blocks[0]]
        point = {}
        while work:
            b = work.pop(0)
            st = ins[b]
            for i in b.insts:
                point[i] = st
                st = self.transfer_inst(i, st, events if False else [])
            for s in b.succs:
                if s not in ins:
                    ins[s] = st
                    work.append(s)
                elif ins[s] != st and ins[s] != MIX:
                    ins[s] = MIX
                    work.append(s)
        # second pass to collect events with final states
        for b in f.blocks:
            if b not in ins:
                continue
            st = ins[b]
            for i in b.insts:
                point[i] = st
                st = self.transfer_inst(i, st, events)
        outs = set()
        for r in f.rets():
            if r in point:
                outs.add(point[r])
        return point, outs

    def solve(self, entries):
        """entries: functions entered from outside with the lock not held"""
        for f in self.fns:
            self.exit_state[f] = "same"
        for f in entries:
            self.entry_state[f] = NH
        callers = defaultdict(list)
        for f in self.fns:
            for c in f.calls():
                g = self.unit.functions.get(c.callee or "")
                if g is not None and not g.decl:
                    callers[g].append(c)
        self.callers = callers
        for _round in range(6):
            changed = False
            for f in self.fns:
                if f in entries:
                    ent = NH
                else:
                    sts = {self.point_state.get(c) for c in callers.get(f, [])}
                    sts.discard(None)
                    if not sts:
                        ent = self.entry_state.get(f, None)
                        if ent is None:
                            continue
                    else:
                        ent = sts.pop() if len(sts) == 1 else MIX
                if self.entry_state.get(f) != ent:
                    self.entry_state[f] = ent
                    changed = True
                ev = []
                point, outs = self.run_fn(f, ent, ev)
                for k, v in point.items():
                    if self.point_state.get(k) != v:
                        self.point_state[k] = v
                        changed = True
                ex = "same"
                if len(outs) == 1:
                    o = list(outs)[0]
                    ex = "same" if o == ent else o
                elif len(outs) > 1:
                    ex = MIX
                if self.exit_state[f] != ex:
                    self.exit_state[f] = ex
                    changed = True
            if not changed:
                break
        events = []
        for f in self.fns:
            if f in self.entry_state:
                self.run_fn(f, self.entry_state[f], events)
        return events


def reads_fields(prog, unit, f, seen=None):
    """SHARED/other pool fields loaded by f, transitively through unit-local callees"""
    seen = seen if seen is not None else set()
    if f in seen:
        return set()
    seen.add(f)
    out = set()
    for i in f.insts():
        if i.op == "load":
            fld = pool_field(i)
            if fld:
                out.add(fld)
        elif i.op == "call":
            g = unit.functions.get(i.callee or "")
            if g is not None and not g.decl:
                out |= reads_fields(prog, unit, g.build(), seen)
    return out


def run(chk):
    prog = load_program("libsquashfs.la")
    unit = prog.by_src.get(UNIT)
    if unit is None:
        raise AnalysisBroken("unit %s is not part of libsquashfs" % UNIT)
    chk.explanation = (
        "K4 lockset and condition-variable discipline on the threaded pool (lib/util/src/threadpool.c) decided "
        "on LLVM IR: a forward lock-state dataflow over every function of the unit (helpers take the meet of "
        "their call sites) proves L1 shared fields only under the mutex, L2 main-only fields unreachable from "
        "the thread entry, L3 balanced lock/unlock on every path, L4 every pthread_cond_wait under the mutex "
        "inside a loop whose exit re-reads shared state, L5 every store to a field of a wait predicate is followed "
        "by a broadcast on that condvar before the unlock (or is on the waiter's own side), L6 every wait "
        "predicate contains the shutdown/failure flag, L7 ticket discipline; L8/L9 the block processor's use of "
        "set_worker_ptr / dequeue+get_status; L11 a node that becomes the tail of a queue (threaded and serial pool) has "
        "a NULL link: fresh from calloc, or cleared on every path since it left its last list; L12 every way on which dequeue may hand an item back passes the decrement of the count of items in flight.")
    chk.assumptions = ["pthread primitives behave as specified by POSIX",
                       "sortedness of the done list, exactly-once as a counting argument and fairness are not decided"]
    st = prog.struct(POOL)
    if st is None:
        raise AnalysisBroken("anchor struct %s vanished" % POOL)
    known = SHARED | MAIN_ONLY | IMMUTABLE | SYNC | {"workers"}
    for e in st["elems"]:
        n = e.get("n")
        if n and n not in known:
            chk.broke("pool field '%s' is not classified in the C09 field table" % n)
    for f in unit.functions.values():
        if not f.decl:
            chk.analysed(f.build())

    # roles
    slot_fns = set()
    for fld in ("submit", "dequeue", "get_status", "destroy", "get_worker_count", "set_worker_ptr"):
        impls = [f for f in prog.slot_impls(("struct.thread_pool_t", fld)) if f.unit is unit]
        if len(impls) != 1:
            chk.broke("slot thread_pool_t.%s has %d implementations in %s" % (fld, len(impls), UNIT))
        slot_fns |= set(impls)
    thread_entries = set()
    ctor = None
    for f in unit.functions.values():
        if f.decl:
            continue
        for c in f.calls("pthread_create"):
            ctor = f
            for t in prog.fn_targets(c.ops[2], unit):
                if not isinstance(t, ExternFn):
                    thread_entries.add(t.build())
    if not thread_entries or ctor is None:
        raise AnalysisBroken("no pthread_create / thread entry found in %s" % UNIT)
    entries = set(slot_fns) | thread_entries | {ctor}
    lf = LockFlow(chk, prog, unit)
    events = lf.solve(entries)
    worker_reach, _, _ = prog.reachable_from(thread_entries, stop=lambda f: f.unit is not unit)
    worker_reach = {f for f in worker_reach if f.unit is unit}

    # L3
    l3 = [e for e in events if e[0] == "L3"]
    nlock = 0
    for f in lf.fns:
        for c in f.calls():
            if norm_callee(c.callee) in ("pthread_mutex_lock", "pthread_mutex_unlock") and lf.is_mutex_arg(c.ops[0]):
                nlock += 1
                bad = [e for e in l3 if e[2] is c]
                if bad:
                    chk.violation("L3", "%s:%s" % (f.name, bad[0][1]), c, bad[0][3])
                else:
                    chk.ok("L3", "%s:%s" % (f.name, norm_callee(c.callee)), c, "state before: %s" % lf.point_state.get(c))
        if f in entries:
            for r in f.rets():
                s = lf.point_state.get(r)
                if s in (H, MIX):
                    chk.violation("L3", "%s:return-held" % f.name, r, "returns with the mutex %s" % s)
                else:
                    chk.ok("L3", "%s:return" % f.name, r, "mutex not held at return")

    # L1 / L2
    jp = join_points(prog, unit)
    pre_create = pre_create_blocks(ctor)
    for f in lf.fns:
        for i in f.insts():
            if i.op not in ("load", "store"):
                continue
            fld = pool_field(i)
            if fld is None:
                continue
            base = fld.split(".")[0]
            if fld in SHARED:
                s = lf.point_state.get(i)
                inst = "%s:%s:%s" % (f.name, fld, i.op)
                if s == H:
                    chk.ok("L1", inst, i, "mutex held")
                elif after_join(f, jp, i):
                    chk.ok("L1", inst, i, "after every worker was joined: no other thread exists")
                elif f is ctor and i.bb in pre_create:
                    chk.ok("L1", inst, i, "before the first pthread_create")
                else:
                    chk.violation("L1", inst, i, "shared field '%s' %s with the mutex %s" % (
                        fld, "read" if i.op == "load" else "written", s))
            elif fld in MAIN_ONLY:
                inst = "%s:%s" % (f.name, fld)
                if f in worker_reach:
                    chk.violation("L2", inst, i, "main-thread-only field '%s' accessed in code reachable from the "
                                  "worker thread entry" % fld)
                else:
                    chk.ok("L2", inst, i, "function not reachable from %s" % ",".join(t.name for t in thread_entries))
            elif fld in CONFIG:
                inst = "%s:%s:%s" % (f.name, fld, i.op)
                if i.op == "store":
                    s = lf.point_state.get(i)
                    if f in worker_reach:
                        chk.violation("L2", inst, i, "per-worker context written from worker code")
                    elif s == H:
                        chk.ok("L1", inst, i, "configuration field written under the mutex")
                    else:
                        chk.violation("L1", inst, i, "per-worker context pointer written without the mutex")

    # L4 / L5 / L6
    waits = []
    for f in lf.fns:
        for c in f.calls("pthread_cond_wait"):
            waits.append(c)
    wait_info = []
    for w in waits:
        f = w.fn
        cv = lf.cond_name(w.ops[0])
        inst = "%s:%s" % (f.name, cv)
        s = lf.point_state.get(w)
        if s != H or not lf.is_mutex_arg(w.ops[1]):
            chk.violation("L4", inst + ":held", w, "pthread_cond_wait with the pool mutex %s" % s)
        else:
            chk.ok("L4", inst + ":held", w, "mutex held at the wait")
        loop = f.loop_of(w.bb)
        if loop is None:
            chk.violation("L4", inst + ":loop", w, "pthread_cond_wait is not inside a loop (spurious wake-ups)")
            continue
        head, body = loop
        # exit edges of the loop and the fields their conditions depend on
        pred_fields = set()
        exits = 0
        all_reread = True
        for b in body:
            for sx in b.succs:
                if sx in body:
                    continue
                exits += 1
                t = b.term
                deps = set()
                for v in backward_slice(t.ops[0] if t.ops else t, through_loads=False):
                    if v.is_inst and v.bb in body:
                        if v.op == "load":
                            fl = pool_field(v)
                            if fl:
                                deps.add(fl)
                        elif v.op == "call":
                            g = unit.functions.get(v.callee or "")
                            if g is not None and not g.decl:
                                deps |= reads_fields(prog, unit, g.build())
                if not (deps & SHARED):
                    all_reread = False
                pred_fields |= deps
        # conditions of conditional branches inside the body that skip the wait also belong to the predicate
        pred_fields &= SHARED
        if exits and all_reread:
            chk.ok("L4", inst + ":reread", w, "every exit of the wait loop depends on shared fields %s re-read in the loop"
                   % sorted(pred_fields))
        else:
            chk.violation("L4", inst + ":reread", w, "an exit of the wait loop does not re-read shared state")
        wait_info.append((w, cv, pred_fields, body))
        if SHUTDOWN_FLAG in pred_fields:
            chk.ok("L6", inst, w, "wait predicate reads %s" % sorted(pred_fields))
        else:
            chk.violation("L6", inst, w,
                          "the wait predicate reads only %s, not the failure/shutdown flag '%s': once a worker has "
                          "reported an error the workers stop consuming, so an item still queued is never completed "
                          "and this wait never ends" % (sorted(pred_fields), SHUTDOWN_FLAG))

    # L5
    for (w, cv, pfields, body) in wait_info:
        wf = w.fn
        waiter_is_main = wf not in worker_reach
        for f in lf.fns:
            for i in f.insts():
                if i.op != "store":
                    continue
                fld = pool_field(i)
                if fld is None or fld not in pfields:
                    continue
                inst = "%s:%s->%s" % (f.name, fld, cv)
                if f is ctor and i.bb in pre_create:
                    continue
                if after_join(f, jp, i):
                    continue
                if f is wf:
                    chk.ok("L5", inst, i, "store on the waiter's own side (same function as the wait)")
                    continue
                if waiter_is_main and f not in worker_reach:
                    chk.ok("L5", inst, i, "store by main-thread-only code; the only waiter on %s is the main thread" % cv)
                    continue
                if follows_broadcast(lf, unit, i, cv):
                    chk.ok("L5", inst, i, "followed by a broadcast/signal on %s before the unlock" % cv)
                elif (f.name, fld, cv) in L5_EXCEPTIONS:
                    chk.exception("L5", inst, i, L5_EXCEPTIONS[(f.name, fld, cv)])
                else:
                    chk.violation("L5", inst, i, "store to '%s' (part of the predicate of the wait on %s in %s) is not "
                                  "followed by a broadcast/signal on %s before the mutex is released: lost wake-up"
                                  % (fld, cv, wf.name, cv))

    # L10 shutdown wake-up
    worker_waits = {cv for (w, cv, pf, body) in wait_info if w.fn in worker_reach}
    destroy_fns = [f for f in prog.slot_impls(("struct.thread_pool_t", "destroy")) if f.unit is unit]
    shutdown_wakes(chk, lf, unit, prog, destroy_fns, worker_waits)

    # L7 ticket discipline
    nt_sites = []
    ndq_sites = []
    for f in lf.fns:
        for i in f.insts():
            if i.op == "store":
                fld = pool_field(i)
                if fld == "next_ticket":
                    nt_sites.append(i)
                elif fld == "next_dequeue_ticket":
                    ndq_sites.append(i)
    if len(nt_sites) != 1:
        if not nt_sites:
            chk.broke("no store to next_ticket found")
        for s in nt_sites[1:]:
            chk.violation("L7", "next_ticket:single-writer", s, "next_ticket is written at %d sites" % len(nt_sites))
    for s in nt_sites[:1]:
        f = s.fn
        # the item's ticket_number store in the same block takes the loaded old value
        okv = False
        v = s.ops[0]
        ld = None
        if v.is_inst and v.op == "add" and const_int(v.ops[1]) == 1:
            ld = v.ops[0]
        for i in f.insts():
            if i.op == "store" and i.ops[0] is ld and ld is not None:
                p = strip_casts(i.ops[1])
                if p.is_inst and p.op == "getelementptr" and p.fields() and p.fields()[-1][1] == "ticket_number":
                    okv = True
        if okv and lf.point_state.get(s) == H:
            chk.ok("L7", "next_ticket:assign", s, "incremented by one under the mutex; the item receives the old value")
        else:
            chk.violation("L7", "next_ticket:assign", s, "ticket assignment is not 'item.ticket = next_ticket++' under the mutex")
    for s in ndq_sites:
        f = s.fn
        g_ok = False
        for cond, outcome, br in f.guards_at(s.bb):
            if cond.is_inst and cond.op == "icmp" and cond.pred in ("eq", "ne"):
                flds = set()
                tn = False
                for o in cond.ops:
                    for v in backward_slice(o):
                        if v.is_inst and v.op == "load":
                            fl = pool_field(v)
                            if fl:
                                flds.add(fl)
                            p = strip_casts(v.ops[0])
                            if p.is_inst and p.op == "getelementptr" and p.fields() and p.fields()[-1][1] == "ticket_number":
                                tn = True
                if "next_dequeue_ticket" in flds and tn and outcome == (cond.pred == "eq"):
                    g_ok = True
        v = s.ops[0]
        inc = v.is_inst and v.op == "add" and const_int(v.ops[1]) == 1
        if g_ok and inc:
            chk.ok("L7", "next_dequeue_ticket:guarded", s, "incremented only where head-of-done ticket == next_dequeue_ticket")
        else:
            chk.violation("L7", "next_dequeue_ticket:guarded", s,
                          "next_dequeue_ticket is advanced without the equality test against the head of the done list")

    block_processor_rules(chk, prog)
    tail_append_rule(chk, prog)
    count_balance_rule(chk, prog, unit)
    chk.floor("L12", 1)
    chk.floor("L11", 2)       # one per pool implementation at least (a shared append helper counts once)
    chk.floor("L1", 25)
    chk.floor("L2", 10)
    chk.floor("L3", 15)
    chk.floor("L4", 4)
    chk.floor("L5", 8)
    chk.floor("L6", 2)
    chk.floor("L7", 2)
    chk.floor("L10", 1)
    controls(chk)


def follows_broadcast(lf, unit, store, cv, depth=0):
    """on every path from the store to the next unlock (or, for a helper, to its
    return and then onward in every caller) a broadcast/signal on cv is called"""
    f = store.fn
    return _must_signal_from(lf, unit, f, store.bb, store.pos + 1, cv, set(), depth)


def _must_signal_from(lf, unit, f, bb, pos, cv, seen, depth):
    key = (f, bb, pos)
    if key in seen:
        return True     # loop without unlock: judged by the other paths
    seen.add(key)
    for i in bb.insts[pos:]:
        if i.op == "call":
            name = norm_callee(i.callee)
            if name in ("pthread_cond_broadcast", "pthread_cond_signal") and lf.cond_name(i.ops[0]) == cv:
                return True
            if name == "pthread_mutex_unlock" and lf.is_mutex_arg(i.ops[0]):
                return False
            if name == "pthread_cond_wait":
                return False    # releases the mutex
            g = unit.functions.get(name or "")
            if g is not None and not g.decl:
                g.build()
                if _callee_always_signals(lf, unit, g, cv):
                    return True
        if i.op == "ret":
            if depth > 3:
                return False
            cs = lf.callers.get(f, [])
            if not cs:
                return False
            return all(_must_signal_from(lf, unit, c.fn, c.bb, c.pos + 1, cv, seen, depth + 1) for c in cs)
    if not bb.succs:
        return False
    return all(_must_signal_from(lf, unit, f, s, 0, cv, seen, depth) for s in bb.succs)


def _callee_always_signals(lf, unit, g, cv):
    # every return of g is dominated by a broadcast on cv
    sig = [c for c in g.calls() if norm_callee(c.callee) in ("pthread_cond_broadcast", "pthread_cond_signal")
           and lf.cond_name(c.ops[0]) == cv]
    if not sig:
        return False
    return all(any(g.inst_dominates(s, r) for s in sig) for r in g.rets())


def join_points(prog, unit):
    """instructions after which every worker has been joined: the first instruction after a loop that calls
    pthread_join for all workers (exit condition bound by num_workers), or a call to a helper containing such a
    loop bound by a parameter that the caller binds to num_workers.  {function: [instruction]}"""
    out = {}
    helpers = {}     # fn -> param index bounding its join loop
    fns = [f.build() for f in unit.functions.values() if not f.decl]

    def loop_info(f):
        res = []
        for head, body in f.loops:
            joins = [c for b in body for c in b.insts if c.op == "call" and norm_callee(c.callee) == "pthread_join"]
            if not joins:
                continue
            exits = [(b, s) for b in body for s in b.succs if s not in body]
            if len(exits) != 1:
                continue
            b, s = exits[0]
            cond = b.term.ops[0]
            sl = backward_slice(cond)
            dep_field = any(v.is_inst and v.op == "load" and pool_field(v) == "num_workers" for v in sl)
            dep_args = [v.idx for v in sl if v.is_arg]
            res.append((s, dep_field, dep_args))
        return res
    for f in fns:
        for (s, dep_field, dep_args) in loop_info(f):
            if dep_field and s.insts:
                out.setdefault(f, []).append(s.insts[0])
            elif dep_args:
                helpers[f] = dep_args[0]
    for f in fns:
        for c in f.calls():
            g = unit.functions.get(c.callee or "")
            if g in helpers and helpers[g] < len(c.ops):
                a = c.ops[helpers[g]]
                if any(v.is_inst and v.op == "load" and pool_field(v) == "num_workers" for v in backward_slice(a)):
                    out.setdefault(f, []).append(c)
    return out


def after_join(f, jp, inst):
    return any(j is not inst and f.inst_dominates(j, inst) for j in jp.get(f, []))


def shutdown_wakes(chk, lf, unit, prog, destroy_fns, worker_waits):
    """L10: before the destroy path joins the workers it sets the shutdown flag and broadcasts every condition
    variable a worker may be waiting on, on *every* path (a worker idle in the queue wait is otherwise never
    told to leave and pthread_join never returns)"""
    memo = {}

    def is_signal(i, cv):
        return i.op == "call" and norm_callee(i.callee) in ("pthread_cond_broadcast", "pthread_cond_signal") and \
            lf.cond_name(i.ops[0]) == cv and lf.point_state.get(i) == H

    def summary(g, s_in, cv, depth=0):
        key = (g, s_in, cv)
        if key in memo:
            return memo[key]
        memo[key] = (None, {s_in})
        ins = {g.blocks[0]: s_in}
        work = [g.blocks[0]]
        viol = None
        outs = set()
        order = 0
        while work and order < 2000:
            order += 1
            b = work.pop(0)
            cur = ins[b]
            for i in b.insts:
                if is_signal(i, cv):
                    cur = True
                elif i.op == "call" and norm_callee(i.callee) == "pthread_join":
                    if not cur and viol is None:
                        viol = i
                elif i.op == "call":
                    h = unit.functions.get(i.callee or "")
                    if h is not None and not h.decl and depth < 4:
                        v2, o2 = summary(h.build(), cur, cv, depth + 1)
                        if v2 is not None and viol is None:
                            viol = v2
                        cur = all(o2) if o2 else cur
                elif i.op == "ret":
                    outs.add(cur)
            for sx in b.succs:
                nv = cur if sx not in ins else (ins[sx] and cur)
                if sx not in ins or nv != ins[sx]:
                    ins[sx] = nv
                    if sx not in work:
                        work.append(sx)
        memo[key] = (viol, outs)
        return memo[key]
    for d in destroy_fns:
        for cv in sorted(worker_waits):
            viol, outs = summary(d, False, cv)
            inst = "%s:%s" % (d.name, cv)
            joins = any(c for f in lf.fns for c in f.calls("pthread_join"))
            if viol is None and joins:
                chk.ok("L10", inst, d, "every path to pthread_join first broadcasts %s with the mutex held" % cv)
            else:
                chk.violation("L10", inst, viol or d, "a path of the shutdown sequence reaches pthread_join without a broadcast "
                              "on %s: a worker waiting there is never woken and the join (hence destroy) never returns" % cv)


def pre_create_blocks(ctor):
    """blocks of the constructor from which no path has passed pthread_create yet:
    blocks not reachable from any block containing pthread_create"""
    cr = [c.bb for c in ctor.calls("pthread_create")]
    after = set()
    stack = list(cr)
    while stack:
        b = stack.pop()
        for s in b.succs:
            if s not in after:
                after.add(s)
                stack.append(s)
    return {b for b in ctor.blocks if b not in after and b not in cr}


def count_balance_rule(chk, prog, unit):
    """L12: the pool counts the items it owes the submitter (`item_count`; dequeue answers NULL at once when it is 0, the
    block processor asks until then).  In the implementation of thread_pool_t.dequeue every way to a return that may hand an
    item back passes the decrement of that counter -- in the function or in a static helper on the way.  An item that is
    handed back uncounted stays owed for ever: the next dequeue on the empty pool waits for a completion that cannot come."""
    from ..errflow import ret_sources
    n = 0

    def decrements(i):
        if i.op != "store":
            return False
        q = strip_casts(i.ops[1])
        if not (q.is_inst and q.op == "getelementptr" and q.field()):
            return False
        v = i.ops[0]
        while v.is_inst and v.op in ("zext", "sext", "trunc"):
            v = v.ops[0]
        if not (v.is_inst and v.op in ("add", "sub")):
            return False
        k = [o for o in v.ops if o.is_const and o.is_int]
        ld = [o for o in v.ops if o.is_inst and o.op == "load" and strip_casts(o.ops[0]).is_inst and
              strip_casts(o.ops[0]).op == "getelementptr" and strip_casts(o.ops[0]).field() == q.field()]
        if not k or not ld:
            return False
        return (v.op == "sub" and k[0].sval == 1) or (v.op == "add" and k[0].sval == -1)

    def fn_decrements(g, depth=0):
        g.build()
        return any(decrements(i) for i in g.insts()) or (depth < 2 and any(
            (prog.fn(c.callee, g.unit) is not None and not prog.fn(c.callee, g.unit).decl and prog.fn(c.callee, g.unit).unit is unit
             and fn_decrements(prog.fn(c.callee, g.unit), depth + 1)) for c in g.calls() if c.callee))
    for f in prog.slot_impls(("struct.thread_pool_t", "dequeue")):
        if f.unit is not unit or f.decl:
            continue
        f.build()
        dec_blocks = set()
        for i in f.insts():
            if decrements(i):
                dec_blocks.add(i.bb)
            elif i.op == "call" and i.callee:
                g = prog.fn(i.callee, f.unit)
                if g is not None and not g.decl and g.unit is unit and fn_decrements(g):
                    dec_blocks.add(i.bb)
        if not dec_blocks:
            chk.note("L12: %s keeps no count of the items in flight" % f.name)
            continue
        n += 1
        chk.analysed(f)
        items = {b for (v, b) in ret_sources(f) if not (strip_casts(v).is_const and strip_casts(v).is_null)}
        seen, work, bad = set(), [f.blocks[0]], None
        while work and bad is None:
            b = work.pop()
            if b in seen or b in dec_blocks:
                continue
            seen.add(b)
            if b in items:
                bad = b
            work.extend(b.succs)
        inst = "%s:item_count" % f.name
        if bad is None:
            chk.ok("L12", inst, f, "every way to a return that may hand an item back passes the decrement of the in-flight count")
        else:
            chk.violation("L12", inst, bad.term, "an item can be handed back on a way that does not decrement the count of items in "
                          "flight: the count never reaches 0 again, and a dequeue on the drained pool waits for ever")
    return n


def tail_append_rule(chk, prog0, units=(("libsquashfs.la", "lib/util/src/threadpool.c"), ("libutil.a", "lib/util/src/threadpool_serial.c"))):
    """L11: a node that becomes the tail of one of the pool's queues has a NULL link.  The tail fields are found by what is
    done with them (`pool->T->link = x`); at every `pool->T = x` the node x is either fresh from calloc, or its link was
    set to NULL on every path since it was taken off another list (in this function or in the static helper that
    returned it).  A recycled node that keeps its old link splices the list it came from into the queue: items are
    processed that were never submitted, or twice."""
    from ..errflow import ret_sources
    n = 0
    for art, src in units:
        prog = prog0 if prog0.name == art else load_program(art)
        unit = prog.by_src.get(src)
        if unit is None:
            chk.broke("L11: %s is not part of %s" % (src, art))
            continue
        fns = [f.build() for f in unit.functions.values() if not f.decl]
        # tail fields and the link field:  store x -> gep(load gep(pool, T), link)
        tails = {}
        ptails = {}
        for f in fns:
            for i in f.insts():
                if i.op != "store":
                    continue
                p = strip_casts(i.ops[1])
                if not (p.is_inst and p.op == "getelementptr" and p.field()):
                    continue
                b = strip_casts(p.ops[0])
                if b.is_inst and b.op == "load":
                    q = strip_casts(b.ops[0])
                    if q.is_arg and (getattr(i.ops[0], "ty", "") or "") == (b.ty or ""):
                        # a generic append helper: the tail pointer is handed in by address (`*last`)
                        x_ = strip_casts(i.ops[0])
                        if any(j.op == "store" and strip_casts(j.ops[0]) is x_ and strip_casts(j.ops[1]) is q for j in f.insts()):
                            ptails[(f, q.idx)] = p.field()
                    if q.is_inst and q.op == "getelementptr" and q.field() and p.field()[0] != q.field()[0]:
                        # pool->T->link = x with T of the node's own pointer type
                        if (getattr(i.ops[0], "ty", "") or "") == (b.ty or "") and (b.ty or "").endswith("*"):
                            # ... followed by  pool->T = x  with the same x: that is an append at the tail
                            x_ = strip_casts(i.ops[0])
                            if any(j.op == "store" and strip_casts(j.ops[0]) is x_ and strip_casts(j.ops[1]).is_inst and
                                   strip_casts(j.ops[1]).op == "getelementptr" and strip_casts(j.ops[1]).field() == q.field()
                                   for j in f.insts()):
                                tails[q.field()] = p.field()
        if not tails and not ptails:
            chk.broke("L11: no tail pointer of a queue found in %s" % src)
            continue

        def link_null(f, x, at, link, depth=0):
            x = strip_casts(x)
            if x.is_const:
                return True            # NULL itself: nothing is appended
            if depth > 4:
                return False
            if x.is_arg and f.internal:
                # a static helper that is handed the node: judged where it is called
                sites = prog.callers_of(f)
                own = [i for i in f.insts() if i.op == "store" and strip_casts(i.ops[1]).is_inst and
                       strip_casts(i.ops[1]).op == "getelementptr" and strip_casts(i.ops[1]).field() == link and
                       strip_casts(strip_casts(i.ops[1]).ops[0]) is x and not (i.ops[0].is_const and i.ops[0].is_null) and
                       (f.inst_dominates(i, at) or f.reaches(i.bb, at.bb))]
                if sites and not own and all(x.idx < len(c.ops) and link_null(c.fn.build(), c.ops[x.idx], c, link, depth + 1) for c in sites):
                    return True
            setters = [i for i in f.insts() if i.op == "store" and strip_casts(i.ops[1]).is_inst and
                       strip_casts(i.ops[1]).op == "getelementptr" and strip_casts(i.ops[1]).field() == link and
                       strip_casts(strip_casts(i.ops[1]).ops[0]) is x]
            dirty = [i for i in setters if not (i.ops[0].is_const and i.ops[0].is_null)]
            clean = [i for i in setters if i.ops[0].is_const and i.ops[0].is_null]
            if x.is_inst and x.op == "phi":
                # judged where each value comes in; afterwards nothing may set the link through the merged name
                if any(f.inst_dominates(d, at) or f.reaches(d.bb, at.bb) for d in dirty):
                    return False
                return all(link_null(f, o, pr.term, link, depth + 1) for o, pr in zip(x.ops, x.x["inc"]))
            if x.is_inst and x.op == "call":
                nm = norm_callee(x.callee) if x.callee else None
                fresh = nm == "calloc"
                if not fresh and x.callee:
                    h = prog.fn(x.callee, f.unit)
                    if h is not None and not h.decl and h.unit is f.unit:
                        h.build()
                        srcs = ret_sources(h)
                        fresh = bool(srcs) and all(link_null(h, v, b.term, link, depth + 1) for (v, b) in srcs)
                if fresh:
                    return not any(f.inst_dominates(x, d) and (f.inst_dominates(d, at) or f.reaches(d.bb, at.bb)) for d in dirty)
            # taken from somewhere else: a store of NULL to its link in front of `at`, nothing dirtying it afterwards
            for c in clean:
                if not f.inst_dominates(c, at):
                    continue
                if any((f.inst_dominates(c, d) or f.reaches(c.bb, d.bb)) and (f.inst_dominates(d, at) or f.reaches(d.bb, at.bb))
                       and d is not c for d in dirty):
                    continue
                return True
            # memset(x, 0, sizeof) in front, no dirtying store afterwards
            for c in f.calls("memset"):
                if strip_casts(c.ops[0]) is x and c.ops[1].is_const and c.ops[1].is_int and c.ops[1].uval == 0 and f.inst_dominates(c, at):
                    if not any((f.inst_dominates(c, d) or f.reaches(c.bb, d.bb)) and (f.inst_dominates(d, at) or f.reaches(d.bb, at.bb))
                               for d in dirty):
                        return True
            return False
        for f in fns:
            for i in f.insts():
                if i.op != "store":
                    continue
                p = strip_casts(i.ops[1])
                if p.is_arg and (f, p.idx) in ptails and not i.ops[0].is_const:
                    n += 1
                    chk.analysed(f)
                    inst = "%s:*%s" % (f.name, p.name or ("arg%d" % p.idx))
                    if link_null(f, i.ops[0], i, ptails[(f, p.idx)]):
                        chk.ok("L11", inst, i, "the node that becomes the tail (through the append helper) is fresh or had its link cleared at every call site")
                    else:
                        chk.violation("L11", inst, i, "a node becomes the tail of a queue (through the append helper) while its link may still "
                                      "point into the list it was taken from")
                    continue
                if not (p.is_inst and p.op == "getelementptr" and p.field() in tails):
                    continue
                if i.ops[0].is_const:
                    continue
                n += 1
                chk.analysed(f)
                T = p.field()
                inst = "%s:%s" % (f.name, T[1])
                if link_null(f, i.ops[0], i, tails[T]):
                    chk.ok("L11", inst, i, "the node that becomes the tail is fresh from calloc or had its link cleared since it left its last list")
                else:
                    chk.violation("L11", inst, i, "a node becomes the tail of the queue ('%s') while its link may still point into the list "
                                  "it was taken from: the queue continues into that list, items are handed to the worker that were "
                                  "never submitted or are processed twice" % T[1])
    return n


def block_processor_rules(chk, prog):
    """L8: set_worker_ptr only from the block processor constructor, once per index with a fresh allocation;
    L9: a NULL result of dequeue makes the block processor ask for the pool status"""
    calls_swp, calls_deq = [], []
    for f in prog.functions():
        for c in f.calls():
            if c.callee is not None:
                continue
            cv = strip_casts(c.callee_value)
            if cv.is_inst and cv.op == "load":
                p = strip_casts(cv.ops[0])
                if p.is_inst and p.op == "getelementptr":
                    fl = p.field()
                    if fl and fl[0].startswith("struct.thread_pool_t"):
                        if fl[1] == "set_worker_ptr":
                            calls_swp.append(c)
                        elif fl[1] == "dequeue":
                            calls_deq.append(c)
    if not calls_swp:
        chk.broke("no call through thread_pool_t.set_worker_ptr found")
    for c in calls_swp:
        f = c.fn
        chk.analysed(f)
        inst = "%s:set_worker_ptr" % f.name
        loop = f.loop_of(c.bb)
        val = strip_casts(c.ops[2])
        fresh = False
        if val.is_inst and val.op == "call" and norm_callee(val.callee) in ("alloc_flex", "calloc", "malloc", "alloc_array"):
            fresh = loop is not None and val.bb in loop[1]
        idx = c.ops[1]
        idx_iv = idx.is_inst and idx.op == "phi" and loop is not None and idx.bb is loop[0]
        bound = False
        if loop is not None:
            for b in loop[1]:
                for s in b.succs:
                    if s not in loop[1]:
                        for v in backward_slice(b.term.ops[0]):
                            if v.is_inst and v.op == "call" and v.callee is None:
                                cv2 = strip_casts(v.callee_value)
                                if cv2.is_inst and cv2.op == "load":
                                    p2 = strip_casts(cv2.ops[0])
                                    if p2.is_inst and p2.op == "getelementptr" and p2.field() and p2.field()[1] == "get_worker_count":
                                        bound = True
        # the fresh context must receive its own compressor copy (sqfs_copy in the same iteration)
        owncmp = loop is not None and any(i.op == "call" and norm_callee(i.callee) == "sqfs_copy"
                                          for b in loop[1] for i in b.insts)
        if fresh and idx_iv and bound and owncmp:
            chk.ok("L8", inst, c, "called once per index of the loop over get_worker_count with a context allocated in "
                   "that iteration holding its own sqfs_copy of the compressor")
        else:
            chk.violation("L8", inst, c, "per-worker context is not a fresh per-index allocation with its own compressor "
                          "copy (fresh=%s index=%s bound=%s own-compressor=%s): two workers could share a context"
                          % (fresh, idx_iv, bound, owncmp))
    if not calls_deq:
        chk.broke("no call through thread_pool_t.dequeue found")
    for c in calls_deq:
        f = c.fn
        chk.analysed(f)
        inst = "%s:dequeue" % f.name
        # on the edge where the result is NULL a call through get_status must follow and its result be used
        ok = False
        for u in f.uses.get(c, []):
            uu = u
            # look for icmp eq/ne result, null
        null_edges = []
        for b in f.blocks:
            t = b.term if b.insts else None
            if t is None or t.op != "br" or len(t.x["succ"]) != 2:
                continue
            cond = t.ops[0]
            if cond.is_inst and cond.op == "icmp" and cond.pred in ("eq", "ne"):
                a, z = cond.ops
                if strip_casts(a) is c and z.is_const and z.is_null:
                    null_edges.append(t.x["succ"][0] if cond.pred == "eq" else t.x["succ"][1])
        for nb in null_edges:
            # every path from nb to a return passes a get_status call whose result reaches a return or branch
            got = _passes_get_status(f, nb)
            if got:
                ok = True
            else:
                ok = False
                break
        if null_edges and ok:
            chk.ok("L9", inst, c, "NULL from dequeue leads to a get_status call on every path")
        else:
            chk.violation("L9", inst, c, "a NULL result of dequeue does not lead to a pool status query: a failure in a "
                          "worker would be lost")


def _passes_get_status(f, start):
    def is_gs(i):
        if i.op != "call" or i.callee is not None:
            return False
        cv = strip_casts(i.callee_value)
        if cv.is_inst and cv.op == "load":
            p = strip_casts(cv.ops[0])
            return p.is_inst and p.op == "getelementptr" and p.field() is not None and p.field()[1] == "get_status"
        return False
    seen = set()
    stack = [start]
    while stack:
        b = stack.pop()
        if b in seen:
            continue
        seen.add(b)
        if any(is_gs(i) for i in b.insts):
            continue
        if not b.succs:
            return False
        stack.extend(b.succs)
    return True


def controls(chk):
    from ..controls import control_program
    from ..report import Check
    prog = control_program("c09_controls.c")
    unit = prog.units[0]
    sub = Check("C09-control", chk.tier)
    _run_unit_rules(sub, prog, unit)
    got = {(o["rule"], o["function"]) for o in sub.obl if o["verdict"] == "VIOLATED"}
    chk.control("L1", ("L1", "ctl_peek") in got, "shared field read without the mutex")
    chk.control("L3", ("L3", "ctl_leak") in got, "return with the mutex held")
    chk.control("L6", ("L6", "ctl_wait_noflag") in got, "wait predicate without the shutdown flag")
    chk.control("L5", ("L5", "ctl_post_nosignal") in got, "store to predicate field without broadcast")
    chk.control("silent-on-good", not any(fn in ("ctl_good_wait", "ctl_good_post") for (_r, fn) in got),
                "correct functions must not be reported")


def _run_unit_rules(chk, prog, unit):
    """reduced rule set (L1, L3, L4, L5, L6) on a control unit with the same struct and field names"""
    entries = {f.build() for f in unit.functions.values() if not f.decl and not f.internal}
    lf = LockFlow(chk, prog, unit)
    events = lf.solve(entries)
    for e in events:
        if e[0] == "L3":
            chk.violation("L3", e[1], e[2], e[3])
    for f in lf.fns:
        if f in entries:
            for r in f.rets():
                if lf.point_state.get(r) in (H, MIX):
                    chk.violation("L3", "return-held", r, "returns with the mutex held")
        for i in f.insts():
            if i.op in ("load", "store"):
                fld = pool_field(i)
                if fld in SHARED and lf.point_state.get(i) != H:
                    chk.violation("L1", fld, i, "shared field without the mutex")
    wait_info = []
    for f in lf.fns:
        for w in f.calls("pthread_cond_wait"):
            loop = f.loop_of(w.bb)
            if loop is None:
                chk.violation("L4", "loop", w, "wait outside a loop")
                continue
            head, body = loop
            pf = set()
            for b in body:
                for sx in b.succs:
                    if sx not in body:
                        for v in backward_slice(b.term.ops[0]):
                            if v.is_inst and v.bb in body and v.op == "load" and pool_field(v):
                                pf.add(pool_field(v))
            cv = lf.cond_name(w.ops[0])
            wait_info.append((w, cv, pf & SHARED))
            if SHUTDOWN_FLAG not in pf:
                chk.violation("L6", cv, w, "no shutdown flag in wait predicate")
    for (w, cv, pf) in wait_info:
        for f in lf.fns:
            if f is w.fn:
                continue
            for i in f.insts():
                if i.op == "store" and pool_field(i) in pf:
                    if not follows_broadcast(lf, unit, i, cv):
                        chk.violation("L5", "%s->%s" % (pool_field(i), cv), i, "no broadcast before unlock")
